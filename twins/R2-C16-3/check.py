"""Shared behaviour probe for the Sampler codec (property C16).

Run from the repository root:
    PYTHONPATH=<root>/src/python python check.py [--print]

`--print` prints the digests observed on the current tree instead of
comparing them with the recorded ones.
"""
import hashlib
import logging
import os
import random
import struct
import sys
from io import BytesIO

from rv.api import NOTE, Synth, m, read_sunvox_file
from rv.chunks.chunk import Chunk
from rv.lib.iff import chunks as iff_chunks
from rv.lib.iff import write_chunk
from rv.modules import sampler as sampler_module
from rv.modules.sampler import Sampler

logging.disable(logging.CRITICAL)

ENV_NAMES = ("volume_envelope", "panning_envelope", "pitch_envelope")
SCALARS = (
    "instrument_name version max_version unused1 unused2 unused3 unused4 unused5 "
    "unused6 volume_old ins_finetune ins_relative_note editor_cursor "
    "editor_selected_size vibrato_type vibrato_attack vibrato_depth vibrato_rate "
    "volume_fadeout volume panning sample_interpolation envelope_interpolation "
    "polyphony rec_threshold tick_length record start_recording_on_project_play "
    "record_in_mono record_with_reduced_sample_rate record_in_16_bit "
    "stop_recording_on_project_stop ignore_velocity_for_volume "
    "increased_freq_computation_accuracy fit_to_pattern"
).split()
SAMPLE_FIELDS = (
    "data format channels rate loop_start loop_len loop_type loop_sustain volume "
    "finetune panning relative_note reserved2 name start_pos frames frame_size"
).split()
ENV_FIELDS = (
    "chnm points sustain_point loop_start_point loop_end_point enable sustain loop "
    "ctl_index gain_pct velocity bitmask"
).split()


def envelopes(s):
    return [getattr(s, n) for n in ENV_NAMES] + list(s.effect_control_envelopes)


def state(s, with_loaded=False):
    out = {"scalars": [(n, getattr(s, n)) for n in SCALARS]}
    out["samples"] = [
        None if smp is None else [(f, getattr(smp, f)) for f in SAMPLE_FIELDS]
        for smp in s.samples
    ]
    out["envelopes"] = [
        [(f, getattr(e, f)) for f in ENV_FIELDS]
        + ([("loaded", e.loaded)] if with_loaded else [])
        for e in envelopes(s)
    ]
    out["note_samples"] = list(s.note_samples.items())
    out["effect"] = None if s.effect is None else s.effect.read()
    out["legacy"] = (s.is_legacy, s.legacy_chunks is None)
    return out


def digest(*objs):
    h = hashlib.sha256()
    for o in objs:
        h.update(repr(o).encode() if not isinstance(o, bytes) else o)
        h.update(b"|")
    return h.hexdigest()[:24]


def random_sample(rnd, nframes=None):
    smp = Sampler.Sample()
    smp.format = rnd.choice(list(Sampler.Format))
    smp.channels = rnd.choice(list(Sampler.Channels))
    if nframes is None:
        nframes = rnd.choice([0, 1, 2, 7, 33])
    smp.data = bytes(rnd.randrange(256) for _ in range(smp.frame_size * nframes))
    smp.loop_start = rnd.choice([0, 1, 2**32 - 1, rnd.randrange(2**32)])
    smp.loop_len = rnd.choice([0, 2**32 - 1, rnd.randrange(2**32)])
    smp.volume = rnd.choice([0, 64, 255, rnd.randrange(256)])
    smp.finetune = rnd.choice([-128, 127, 0, rnd.randint(-128, 127)])
    smp.rate = rnd.choice([0, 44100, 2**32 - 1, rnd.randrange(2**32)])
    smp.loop_type = rnd.choice(list(Sampler.LoopType))
    smp.loop_sustain = rnd.choice([True, False])
    smp.panning = rnd.choice([-128, 127, 0, rnd.randint(-128, 127)])
    smp.relative_note = rnd.choice([-128, 127, rnd.randint(-128, 127)])
    smp.reserved2 = rnd.randrange(256)
    smp.name = bytes(rnd.randrange(1, 256) for _ in range(rnd.choice([0, 1, 21, 22])))
    smp.start_pos = rnd.choice([0, 2**32 - 1, rnd.randrange(2**32)])
    return smp


def random_envelope(rnd, env, narrow):
    """narrow: volume/panning envelopes also live in 8-bit legacy fields."""
    top = 255 if narrow else 65535
    npoints = rnd.choice([0, 1, 2, 11, 12, 13, 40]) if narrow else rnd.choice(
        [0, 1, 5, 12, 13, 300]
    )
    lo = env.range[0]
    xs = sorted(rnd.choice([0, 65535, rnd.randrange(65536)]) for _ in range(npoints))
    env.points = [
        (x, lo + rnd.choice([0, 65535, 0x1FF, 0x200, rnd.randrange(65536)])) for x in xs
    ]
    env.sustain_point = rnd.choice([0, top, rnd.randint(0, top)])
    env.loop_start_point = rnd.choice([0, top, rnd.randint(0, top)])
    env.loop_end_point = rnd.choice([0, top, rnd.randint(0, top)])
    env.enable = rnd.choice([True, False])
    env.sustain = rnd.choice([True, False])
    env.loop = rnd.choice([True, False])
    env.ctl_index = rnd.randrange(256)
    env.gain_pct = rnd.randrange(256)
    env.velocity = rnd.randrange(256)


def build(seed):
    rnd = random.Random(seed)
    s = m.Sampler()
    k = rnd.choice([0, 1, 2, 5, 9])
    slots = rnd.sample(range(128), k)
    if seed % 5 == 0 and slots:
        slots[0] = 127
    if seed % 7 == 0 and slots:
        slots[-1] = 0
    for i in slots:
        s.samples[i] = random_sample(rnd)
    for n, e in enumerate(envelopes(s)):
        random_envelope(rnd, e, narrow=n < 2)
    tail_zero = rnd.choice([0, 0, 5, 119])
    for j, note in enumerate(s.note_samples):
        s.note_samples[note] = 0 if j >= 119 - tail_zero else rnd.randrange(256)
    s.vibrato_type = rnd.choice(list(Sampler.VibratoType))
    s.vibrato_attack = rnd.randrange(256)
    s.vibrato_depth = rnd.randrange(256)
    s.vibrato_rate = rnd.randrange(64)
    s.volume_fadeout = rnd.randrange(8193)
    s.instrument_name = bytes(
        rnd.randrange(1, 256) for _ in range(rnd.choice([0, 3, 22]))
    )
    s.unused1 = rnd.randrange(2**32)
    s.unused2 = rnd.randrange(2**16)
    s.unused3 = rnd.randrange(2**16)
    s.unused4 = rnd.randrange(2**32)
    s.unused5 = rnd.randrange(256)
    s.unused6 = rnd.randrange(2**32)
    s.volume_old = rnd.randrange(256)
    s.ins_finetune = rnd.randint(-128, 127)
    s.ins_relative_note = rnd.randint(-128, 127)
    s.editor_cursor = rnd.choice([0, -(2**31), 2**31 - 1, rnd.randint(-9999, 9999)])
    s.editor_selected_size = rnd.choice([0, -(2**31), 2**31 - 1, rnd.randint(0, 9999)])
    s.version = rnd.choice([6, 6, 5, rnd.randrange(2**32)])
    s.max_version = rnd.choice([6, 6, rnd.randrange(2**32)])
    s.volume = rnd.randint(0, 512)
    s.panning = rnd.randint(-128, 128)
    s.polyphony = rnd.randint(1, 32)
    s.record_in_mono = rnd.choice([True, False])
    s.fit_to_pattern = rnd.randrange(256)
    if rnd.random() < 0.4:
        inner = rnd.choice([m.Reverb, m.Distortion, m.Sampler])()
        if isinstance(inner, m.Sampler):
            inner.samples[3] = random_sample(rnd, 2)
        s.effect = Synth(inner)
    return s


def read_module(data):
    return read_sunvox_file(BytesIO(data)).module


def file_chunks(data):
    return list(iff_chunks(BytesIO(data)))


def join_chunks(pairs):
    f = BytesIO()
    for name, data in pairs:
        write_chunk(f, name, data)
    return f.getvalue()


def split_sampler_chunks(data):
    """-> (head pairs, [(chnm, [pairs...])...], tail pairs) of a .sunsynth image."""
    pairs = file_chunks(data)
    start = next(i for i, (n, _) in enumerate(pairs) if n == b"CHNK") + 1
    head, groups, tail = pairs[:start], [], []
    for name, payload in pairs[start:]:
        if name == b"SEND":
            tail.append((name, payload))
        elif name == b"CHNM":
            groups.append((struct.unpack("<I", payload)[0], [(name, payload)]))
        else:
            groups[-1][1].append((name, payload))
    return head, groups, tail


def rebuild(head, groups, tail):
    pairs = list(head)
    for _, g in groups:
        pairs.extend(g)
    return join_chunks(pairs + list(tail))


def expect_raises(exc_type, fn, *args, **kw):
    try:
        fn(*args, **kw)
    except exc_type as e:
        if type(e) is not exc_type:
            raise AssertionError(f"expected exactly {exc_type}, got {type(e)}")
        return e
    except Exception as e:  # noqa
        raise AssertionError(f"expected {exc_type}, got {type(e)}: {e}")
    raise AssertionError(f"expected {exc_type}, nothing raised")


class Recorder:
    def __init__(self, golden):
        self.golden = golden
        self.seen = {}
        self.failures = []
        self.printing = "--print" in sys.argv

    def record(self, key, *objs):
        d = digest(*objs)
        self.seen[key] = d
        if not self.printing and self.golden.get(key) != d:
            self.failures.append(f"digest mismatch for {key}: {d} != {self.golden.get(key)}")

    def check(self, cond, msg):
        if not cond:
            self.failures.append(msg)

    def finish(self):
        if self.printing:
            print("GOLDEN = {")
            for k, v in self.seen.items():
                print(f"    {k!r}: {v!r},")
            print("}")
            for f in self.failures:
                print("# FAILED:", f)
            return 0
        missing = set(self.golden) - set(self.seen)
        if missing:
            self.failures.append(f"golden keys never produced: {sorted(missing)}")
        if self.failures:
            print("FAIL")
            for f in self.failures[:40]:
                print("  ", f)
            return 1
        print("PASS")
        return 0


# ---------------------------------------------------------------------------
# generic scenarios shared by all three checks
# ---------------------------------------------------------------------------
def scenario_round_trips(rec, seeds):
    images = []
    for seed in seeds:
        s = build(seed)
        before = state(s)
        data = Synth(s).read()
        images.append(data)
        s2 = read_module(data)
        after = state(s2)
        before["legacy"] = after["legacy"] = None
        rec.check(before == after, f"seed {seed}: state changed across save/load")
        rec.check(s2.is_legacy is False and s2.legacy_chunks is None, f"seed {seed}: legacy flags")
        rec.check(all(e.loaded for e in envelopes(s2)), f"seed {seed}: envelopes loaded")
        data2 = Synth(s2).read()
        rec.check(data2 == data, f"seed {seed}: second save differs")
        s3 = s2.clone()
        rec.check(state(s3) == state(s2), f"seed {seed}: clone differs")
        for i, smp in enumerate(s2.samples):
            if smp is not None:
                rec.check(smp._length == smp.frames, f"seed {seed}: _length of slot {i}")
    rec.record("images", *images)
    return images


def scenario_fixture(rec):
    path = os.path.join("tests", "files", "sampler.sunsynth")
    synth = read_sunvox_file(path)
    mod = synth.module
    rec.record("fixture-state", state(mod, with_loaded=True))
    data = synth.read()
    rec.record("fixture-image", data)
    mod2 = read_module(data)
    rec.check(state(mod2, True) == state(mod, True), "fixture: state changed")
    rec.check(mod2.note_samples[NOTE.G4 - 1] == 1, "fixture: note map")
    rec.check([i for i, x in enumerate(mod2.samples) if x] == [0, 1, 2], "fixture slots")


def outcome(fn, *args):
    try:
        return ("ok", fn(*args))
    except Exception as e:  # noqa
        return ("exc", type(e).__name__)


def load_and_resave(data):
    mod = read_module(data)
    st = state(mod, with_loaded=True)
    again = Synth(mod).read()
    st2 = state(read_module(again), with_loaded=True)
    return st, again, st2


def legacy_variants(data):
    """Yield (label, image) for hand-made legacy / damaged variants of an image."""
    head, groups, tail = split_sampler_chunks(data)
    no_env = [g for g in groups if not 0x102 <= g[0] <= 0x108]
    yield "no-envelopes", rebuild(head, no_env, tail)
    only_vol = [g for g in groups if not 0x103 <= g[0] <= 0x108]
    yield "only-volume-envelope", rebuild(head, only_vol, tail)
    no_vol = [g for g in groups if g[0] != 0x102]
    yield "no-volume-envelope", rebuild(head, no_vol, tail)

    def with_instrument(transform, base=groups):
        out = []
        for chnm, g in base:
            if chnm == 0:
                g = [(n, transform(p) if n == b"CHDT" else p) for n, p in g]
            out.append((chnm, g))
        return rebuild(head, out, tail)

    yield "bad-sign", with_instrument(lambda p: p[:0xFC] + b"XMAS" + p[0x100:])
    yield "zero-sign", with_instrument(lambda p: p[:0xFC] + b"\0\0\0\0" + p[0x100:])
    yield "bad-sign-no-env", with_instrument(
        lambda p: p[:0xFC] + b"PMAZ" + p[0x100:], no_env
    )
    for cut in (0x18F, 0x18C, 0x18A, 0x188, 0x186, 0x184, 0x183, 0x110, 0x104, 0x102, 0x100, 0xFE, 0xFC, 0xF3, 0x24, 3, 0):
        yield f"cut-{cut:x}", with_instrument(lambda p, cut=cut: p[:cut])
        yield f"cut-{cut:x}-no-env", with_instrument(lambda p, cut=cut: p[:cut], no_env)
    yield "long-190", with_instrument(lambda p: p.ljust(0x190, b"\x07"))
    yield "long-191", with_instrument(lambda p: p.ljust(0x191, b"\x07"))
    yield "long-191-no-env", with_instrument(lambda p: p.ljust(0x191, b"\0"), no_env)
    # sample chunk damage
    def with_sample_meta(transform):
        out = []
        for chnm, g in groups:
            if 0 < chnm < 0x101 and chnm % 2 == 1:
                g = [(n, transform(p) if n == b"CHDT" else p) for n, p in g]
            out.append((chnm, g))
        return rebuild(head, out, tail)

    yield "meta-no-start-pos", with_sample_meta(lambda p: p[:40])
    yield "meta-half-start-pos", with_sample_meta(lambda p: p[:42])
    yield "meta-cut-name", with_sample_meta(lambda p: p[:30])
    yield "meta-cut-13", with_sample_meta(lambda p: p[:13])
    yield "meta-empty", with_sample_meta(lambda p: b"")
    yield "meta-short", with_sample_meta(lambda p: p[:20])
    yield "meta-loop3", with_sample_meta(lambda p: p[:14] + bytes([p[14] | 3]) + p[15:])
    yield "meta-fmt3", with_sample_meta(lambda p: p[:14] + bytes([p[14] | 0x30]) + p[15:])
    yield "meta-hibit", with_sample_meta(lambda p: p[:14] + bytes([p[14] | 0x88]) + p[15:])

    def with_sample_data(ff=None, drop=()):
        out = []
        for chnm, g in groups:
            if 0 < chnm < 0x101 and chnm % 2 == 0:
                g = [
                    (n, struct.pack("<I", ff) if (n == b"CHFF" and ff is not None) else p)
                    for n, p in g
                    if n not in drop
                ]
            out.append((chnm, g))
        return rebuild(head, out, tail)

    for ff in (0, 1, 2, 3, 4, 8, 9, 10, 12, 16, 0x18, 0xF4):
        yield f"chff-{ff:x}", with_sample_data(ff)
    yield "no-chff", with_sample_data(drop=(b"CHFF",))
    yield "no-chfr", with_sample_data(drop=(b"CHFR",))
    data_without_meta = [g for g in groups if not (0 < g[0] < 0x101 and g[0] % 2 == 1)]
    yield "data-without-meta", rebuild(head, data_without_meta, tail)

    def with_envelope(transform):
        out = []
        for chnm, g in groups:
            if 0x102 <= chnm <= 0x108:
                g = [(n, transform(p) if n == b"CHDT" else p) for n, p in g]
            out.append((chnm, g))
        return rebuild(head, out, tail)

    yield "env-cut-points", with_envelope(lambda p: p[:-2] if len(p) > 0x14 else p)
    yield "env-cut-header", with_envelope(lambda p: p[:0xF])
    yield "env-extra", with_envelope(lambda p: p + b"\x01\x02\x03")
    yield "env-reserved", with_envelope(lambda p: p[:5] + b"\xaa\xbb\xcc" + p[8:16] + b"\x01\x02\x03\x04" + p[20:])
    yield "env-flags-hi", with_envelope(lambda p: b"\xf8\xff" + p[2:])
    unknown = list(groups) + [(0x109, [(b"CHNM", struct.pack("<I", 0x109)), (b"CHDT", b"zz")]),
                              (0x200, [(b"CHNM", struct.pack("<I", 0x200)), (b"CHDT", b"yy")])]
    yield "unknown-chunks", rebuild(head, unknown, tail)
    dup = list(groups) + [g for g in groups if g[0] == 0]
    yield "instrument-twice", rebuild(head, dup, tail)


def scenario_legacy(rec, images):
    results = []
    for n, data in enumerate(images):
        for label, variant in legacy_variants(data):
            results.append((n, label, outcome(load_and_resave, variant)))
    kinds = {r[2][0] for r in results}
    rec.check(kinds == {"ok", "exc"}, f"legacy scenario should see both outcomes: {kinds}")
    rec.record("legacy", results)
    by_label = {}
    for n, label, res in results:
        by_label.setdefault(label, []).append(res)
    for label in ("bad-sign", "zero-sign", "long-191"):
        for res, data in zip(by_label[label], images):
            rec.check(res[0] == "ok" and res[1][0]["legacy"] == (True, False), f"{label}: legacy flag")
            rec.check(res[0] == "ok" and res[1][0] == res[1][2], f"{label}: replay state")
    for res in by_label["long-190"]:
        rec.check(res[0] == "ok" and res[1][0]["legacy"] == (False, True), "long-190 not legacy")


# ---------------------------------------------------------------------------
# checks specific to envelopes, the note map, the legacy envelope upgrade and
# Sample.frame_size
# ---------------------------------------------------------------------------
from rv.modules import Chunk as ModChunk  # noqa: E402


def fresh_envelopes():
    return [
        Sampler.VolumeEnvelope(),
        Sampler.PanningEnvelope(),
        Sampler.PitchEnvelope(),
        Sampler.EffectControlEnvelope(0x105),
        Sampler.EffectControlEnvelope(0x108),
    ]


def env_fields(e):
    return [(f, getattr(e, f)) for f in ENV_FIELDS] + [("loaded", e.loaded)]


def expected_chdt(e):
    """Independent description of the envelope CHDT layout."""
    out = bytearray()
    flags = (1 if e.enable else 0) | (2 if e.sustain else 0) | (4 if e.loop else 0)
    out += flags.to_bytes(2, "little")
    out += bytes([e.ctl_index, e.gain_pct, e.velocity, 0, 0, 0])
    for v in (len(e.points), e.sustain_point, e.loop_start_point, e.loop_end_point):
        out += v.to_bytes(2, "little")
    out += bytes(4)
    for x, y in e.points:
        out += x.to_bytes(2, "little") + (y - e.range[0]).to_bytes(2, "little")
    return bytes(out)


def expected_point_bytes(e):
    out = bytearray()
    pts = list(e.points)[:12]
    for x, y in pts:
        out += x.to_bytes(2, "little") + (y // 0x200 - e.range[0] // 0x200).to_bytes(2, "little")
    for _ in range(12 - len(pts)):
        out += (0).to_bytes(2, "little") + (-(e.range[0] // 0x200)).to_bytes(2, "little")
    return bytes(out)


def scenario_defaults(rec):
    rec.record("default-envelopes", [env_fields(e) + [e.chunks and list(e.chunks()), e.point_bytes] for e in fresh_envelopes()])
    s = m.Sampler()
    rec.check([e.chnm for e in envelopes(s)] == list(range(0x102, 0x109)), "chunk numbers")
    a, b = Sampler.VolumeEnvelope(), Sampler.VolumeEnvelope()
    a.points.append((1, 1))
    rec.check(b.points == Sampler.VolumeEnvelope.initial_points and len(a.points) == 5, "points are per instance")
    expect_raises(TypeError, Sampler.Envelope)


def scenario_bitmask(rec):
    e = Sampler.PitchEnvelope()
    seen = []
    for enable in (False, True):
        for sustain in (False, True):
            for loop in (False, True):
                e.enable, e.sustain, e.loop = enable, sustain, loop
                want = enable + 2 * sustain + 4 * loop
                rec.check(e.bitmask == want and type(e.bitmask) is int or (want < 2 and e.bitmask == want), f"bitmask {want}")
                seen.append((e.bitmask, type(e.bitmask).__name__))
    rec.record("bitmask-getter", seen)
    seen = []
    for value in list(range(0, 300)) + [0xFFF8, 0xFFFF, 2**40 + 5, -1, -8, True, False]:
        e.bitmask = value
        seen.append((value, e.enable, e.sustain, e.loop))
        rec.check(all(type(f) is bool for f in (e.enable, e.sustain, e.loop)), "flags are bools")
        rec.check((e.enable, e.sustain, e.loop) == (bool(value & 1), bool(value & 2), bool(value & 4)), f"set {value}")
        rec.check(e.bitmask == (value & 7), f"get after set {value}")
    rec.record("bitmask-setter", seen)
    # flags given as ints rather than bools
    for flags in ((1, 1, 1), (0, 1, 0), (2, 0, 0), (0, 3, 0), (0, 0, 3), (1, 0, 1)):
        e.enable, e.sustain, e.loop = flags
        rec.check(e.bitmask == (flags[0] | flags[1] * 2 | flags[2] * 4), f"int flags {flags}")
    e.enable, e.sustain, e.loop = True, False, True
    for bad in (None, "3", 1.0):
        expect_raises(TypeError, setattr, e, "bitmask", bad)
        rec.check((e.enable, e.sustain, e.loop) == (True, False, True), "failed set changes nothing")
    e.sustain = None
    expect_raises(TypeError, lambda: e.bitmask)
    e.sustain = 1.5
    expect_raises(TypeError, lambda: e.bitmask)


def scenario_envelope_codec(rec):
    rnd = random.Random(99)
    blobs = []
    for trial in range(120):
        for idx, e in enumerate(fresh_envelopes()):
            random_envelope(rnd, e, narrow=bool(trial % 2))
            pairs = list(e.chunks())
            rec.check([n for n, _ in pairs] == [b"CHNM", b"CHDT"], "two chunks")
            rec.check(pairs[0][1] == struct.pack("<I", e.chnm), "chnm")
            rec.check(pairs[1][1] == expected_chdt(e), f"chdt layout trial {trial}/{idx}")
            rec.check(len(pairs[1][1]) == 0x14 + 4 * len(e.points), "chdt size")
            rec.check(type(pairs[1][1]) is bytes, "chdt is bytes")
            rec.check(e.point_bytes == expected_point_bytes(e), f"point_bytes trial {trial}/{idx}")
            rec.check(len(e._x_values) == 12 and len(e._y_values) == 12, "legacy table height")
            blobs.append(pairs[1][1] + e.point_bytes)
            back = type(e)(e.chnm) if isinstance(e, Sampler.EffectControlEnvelope) else type(e)()
            rec.check(back.load_chdt(pairs[1][1]) is None, "load returns None")
            rec.check(env_fields(back)[:-1] == env_fields(e)[:-1] and back.loaded is True, f"round trip {trial}/{idx}")
            rec.check(all(type(p) is tuple for p in back.points), "points are tuples")
            # trailing garbage and reserved bytes are ignored
            noisy = bytearray(pairs[1][1] + b"\x09\x08\x07")
            noisy[5:8] = b"\xaa\xbb\xcc"
            noisy[16:20] = b"\x01\x02\x03\x04"
            again = Sampler.PitchEnvelope()
            again.range = e.range
            again.load_chdt(bytes(noisy))
            rec.check(again.points == e.points, "reserved bytes ignored")
    rec.record("envelope-blobs", *blobs)
    # points given as a tuple of lists, x/y at the limits
    e = Sampler.PanningEnvelope()
    e.points = ([0, -0x4000], [65535, 0xBFFF])
    rec.check(list(e.chunks())[1][1][0x14:] == b"\0\0\0\0\xff\xff\xff\xff", "limits")
    rec.check(e.point_bytes[:8] == b"\0\0\0\0\xff\xff\x7f\x00", "legacy limits")
    rec.check(e.point_bytes[8:12] == b"\0\0\x20\x00", "legacy padding is biased too")
    e = Sampler.VolumeEnvelope()
    e.points = [(i, 0x200 * i) for i in range(20)]
    rec.check(e._x_values == list(range(12)) and e._y_values == list(range(12)), "truncated to 12")
    e.points = []
    rec.check(e._x_values == [0] * 12 and e.point_bytes == bytes(48), "empty")
    rec.check(list(e.chunks())[1][1] == b"\x03\0\0\x64\0\0\0\0" + bytes(12), "empty chdt")


def scenario_envelope_errors(rec):
    def chdt_of(e):
        return list(e.chunks())

    for attr, bad in (("ctl_index", 256), ("gain_pct", -1), ("velocity", 256), ("sustain_point", 65536),
                      ("loop_start_point", -1), ("loop_end_point", 65536)):
        e = Sampler.VolumeEnvelope()
        setattr(e, attr, bad)
        gen = e.chunks()
        rec.check(next(gen) == (b"CHNM", b"\x02\x01\0\0"), "CHNM comes out before the payload is built")
        expect_raises(struct.error, next, gen)
    for pts in ([(65536, 0)], [(0, 0x10000)], [(0, -1)], [(0, 0), (1, 2.5)]):
        e = Sampler.VolumeEnvelope()
        e.points = pts
        expect_raises(struct.error, chdt_of, e)
    e = Sampler.PanningEnvelope()
    e.points = [(0, -0x4001)]
    expect_raises(struct.error, chdt_of, e)
    expect_raises(struct.error, lambda: e.point_bytes)
    e.points = [(0, 0xC000)]
    expect_raises(struct.error, chdt_of, e)
    rec.check(e.point_bytes[:4] == b"\0\0\x80\0", "legacy table is coarser")
    e.points = [(1, 2, 3)]
    expect_raises(ValueError, chdt_of, e)
    expect_raises(ValueError, lambda: e.point_bytes)
    e.points = None
    expect_raises(TypeError, chdt_of, e)
    expect_raises(TypeError, lambda: e.point_bytes)
    e = Sampler.EffectControlEnvelope(None)
    expect_raises(struct.error, next, e.chunks())
    # two faults: flags block is packed before the counts block, points last
    e = Sampler.VolumeEnvelope()
    e.gain_pct, e.points = 999, None
    expect_raises(struct.error, chdt_of, e)
    e = Sampler.VolumeEnvelope()
    e.sustain_point, e.points = 70000, [(1, 2, 3)]
    expect_raises(struct.error, chdt_of, e)
    e = Sampler.VolumeEnvelope()
    e.enable, e.gain_pct = None, 999
    expect_raises(TypeError, chdt_of, e)
    # loading damaged payloads
    good = list(Sampler.VolumeEnvelope().chunks())[1][1]
    for cut in range(0, 16):
        e = Sampler.PitchEnvelope()
        before = env_fields(e)
        expect_raises(struct.error, e.load_chdt, good[:cut])
        rec.check(env_fields(e) == before, f"header cut {cut} leaves the envelope untouched")
    results = []
    for cut in range(16, len(good) + 1):
        e = Sampler.PitchEnvelope()
        res = outcome(e.load_chdt, good[:cut])
        results.append((cut, res, env_fields(e)))
        whole = (cut - 0x14) // 4 if cut >= 0x14 else 0
        if cut == len(good):
            rec.check(res == ("ok", None) and e.loaded, "full payload loads")
        else:
            rec.check(res == ("exc", "error") and not e.loaded, f"cut {cut}: {res}")
            rec.check(len(e.points) == whole, f"cut {cut}: points read so far {len(e.points)}")
            rec.check(e.sustain and e.enable and not e.loop, "header already applied")
    rec.record("envelope-cuts", results)
    e = Sampler.PitchEnvelope()
    expect_raises(TypeError, e.load_chdt, None)
    # point count larger than what follows / zero with trailing data
    e = Sampler.PitchEnvelope()
    e.load_chdt(good[:8] + b"\0\0" + good[10:])
    rec.check(e.points == [] and e.loaded, "zero points")
    hdr = bytearray(good)
    hdr[8:10] = (5).to_bytes(2, "little")
    e = Sampler.PitchEnvelope()
    expect_raises(struct.error, e.load_chdt, bytes(hdr))
    rec.check(len(e.points) == 4, "four points before failure")


def scenario_note_map(rec):
    nm = Sampler.NoteSampleMap()
    keys = list(nm)
    rec.check(len(nm) == 119 and keys[0] is NOTE.C0 and keys[-1] is NOTE.a9, "119 notes C0..a9")
    rec.check(keys == [NOTE(v) for v in range(NOTE.C0.value, NOTE.a9.value + 1)], "key order")
    rec.check(all(type(k) is NOTE for k in keys) and set(nm.values()) == {0}, "types/defaults")
    rec.check(nm.bytes == bytes(119) and type(nm.bytes) is bytes, "bytes getter")
    rec.check(isinstance(nm, dict) and nm[1] == 0 and nm[NOTE.C0] == 0, "int lookup works")
    log_ = []
    rnd = random.Random(5)
    for value in (b"", b"\x05", bytes(range(1, 97)), bytes(range(100, 219)), bytes(range(256)),
                  [7, 8, 9], (1, 2), iter([3, 3, 3, 3]), bytearray(b"\xff" * 119), range(50, 60),
                  bytes(rnd.randrange(256) for _ in range(119)), b"\0" * 128):
        nm.bytes = value
        log_.append(nm.bytes)
        rec.check(list(nm) == keys and len(nm) == 119, "keys stable")
    rec.record("note-map-sets", log_)
    nm = Sampler.NoteSampleMap()
    nm.bytes = b"\x01\x02"
    rec.check(nm.bytes == b"\x01\x02" + bytes(117), "short value only touches the first notes")
    nm.bytes = b"\x09"
    rec.check(nm.bytes == b"\x09\x02" + bytes(117), "and leaves the rest alone")
    expect_raises(TypeError, setattr, nm, "bytes", None)
    expect_raises(TypeError, setattr, nm, "bytes", 5)
    nm.bytes = [300, "x"]
    rec.check(nm[NOTE.C0] == 300 and nm[NOTE.c0] == "x", "values are stored as given")
    expect_raises(ValueError, lambda: nm.bytes)
    nm[NOTE.c0] = 1
    expect_raises(ValueError, lambda: nm.bytes)
    nm[NOTE.C0] = 255
    rec.check(nm.bytes[:2] == b"\xff\x01", "255 fits")

    def gen():
        yield 4
        yield 5
        raise KeyError("boom")

    nm = Sampler.NoteSampleMap()
    expect_raises(KeyError, setattr, nm, "bytes", gen())
    rec.check(nm.bytes[:3] == b"\x04\x05\x00", "values before the failure are kept")
    a, b = Sampler.NoteSampleMap(), Sampler.NoteSampleMap()
    a[NOTE.C4] = 9
    rec.check(b[NOTE.C4] == 0 and m.Sampler().note_samples is not m.Sampler().note_samples, "independent maps")

    class Wide(Sampler.NoteSampleMap):
        start_note = NOTE.C1
        end_note = NOTE.B1
        default_sample = 7

    w = Wide()
    rec.check(list(w) == [NOTE(v) for v in range(NOTE.C1.value, NOTE.B1.value + 1)] and w.bytes == b"\x07" * 12, "subclass bounds")


def set_legacy(env, table, active, sustain, ls, le, mask):
    env._legacy_point_bytes = table
    env._legacy_active_points = active
    env._legacy_sustain_point = sustain
    env._legacy_loop_start_point = ls
    env._legacy_loop_end_point = le
    env._legacy_bitmask = mask


def scenario_upgrade(rec):
    rnd = random.Random(321)
    results = []
    for trial in range(150):
        s = m.Sampler()
        if trial % 3 == 0:
            s.index = trial
        vol, pan = s.volume_envelope, s.panning_envelope
        tables, actives = [], []
        for env in (vol, pan):
            words = [rnd.choice([0, 1, 64, 65535, rnd.randrange(65536)]) for _ in range(24)]
            table = struct.pack("<24H", *words)
            if trial % 10 == 9:
                table = table[: rnd.randrange(49)]
            active = rnd.choice([0, 1, 2, 11, 12, 12, rnd.randint(0, 12)]) if trial % 7 else rnd.choice([13, 14, 255])
            set_legacy(env, table, active, rnd.randrange(256), rnd.randrange(256), rnd.randrange(256), rnd.randrange(256))
            tables.append((words, table))
            actives.append(active)
        before = [env_fields(e) for e in envelopes(s)]
        res = outcome(s._upgrade_envelopes)
        after = [env_fields(e) for e in envelopes(s)]
        results.append((trial, res, after))
        rec.check(before[2:] == after[2:], "other envelopes untouched")
        if res[0] == "ok":
            for env, (words, table), active in zip((vol, pan), tables, actives):
                want = [(words[2 * i], words[2 * i + 1] * 0x200 + env.range[0]) for i in range(active)]
                rec.check(env.points == want, f"trial {trial}: upgraded points")
                rec.check(type(env.points) is list and all(type(p) is tuple for p in env.points), "list of tuples")
                rec.check(env.bitmask == env._legacy_bitmask & 7, "flags adopted")
                rec.check((env.sustain_point, env.loop_start_point, env.loop_end_point)
                          == (env._legacy_sustain_point, env._legacy_loop_start_point, env._legacy_loop_end_point), "points adopted")
                rec.check(env.loaded is False, "upgrade does not mark as loaded")
        else:
            rec.check(res == ("exc", "error"), f"trial {trial}: {res}")
            rec.check([f for f in after[:2]] != [] and dict(after[0])["points"] == dict(before[0])["points"]
                      and dict(after[1])["points"] == dict(before[1])["points"], "no points replaced on failure")
            rec.check(dict(after[0])["bitmask"] == vol._legacy_bitmask & 7 and dict(after[1])["bitmask"] == pan._legacy_bitmask & 7,
                      "flags already adopted on failure")
    kinds = {r[1][0] for r in results}
    rec.check(kinds == {"ok", "exc"}, f"upgrade outcomes {kinds}")
    rec.record("upgrade", results)
    # nothing loaded at all: legacy fields are still None
    s = m.Sampler()
    before = [env_fields(e) for e in envelopes(s)]
    expect_raises(TypeError, s._upgrade_envelopes)
    expect_raises(TypeError, s.finalize_load)
    rec.check([env_fields(e) for e in envelopes(s)] == before, "untouched")
    # volume usable, panning not: volume flags adopted, no points replaced
    s = m.Sampler()
    set_legacy(s.volume_envelope, bytes(48), 2, 1, 2, 3, 7)
    expect_raises(TypeError, s._upgrade_envelopes)
    rec.check(s.volume_envelope.bitmask == 7 and s.volume_envelope.sustain_point == 1, "vol flags adopted")
    rec.check(s.volume_envelope.points == Sampler.VolumeEnvelope.initial_points, "vol points kept")
    set_legacy(s.panning_envelope, bytes(48), None, 1, 2, 3, 1)
    expect_raises(TypeError, s._upgrade_envelopes)
    set_legacy(s.panning_envelope, bytes(48), -3, 1, 2, 3, 1)
    s._upgrade_envelopes()
    rec.check(s.panning_envelope.points == [] and s.volume_envelope.points == [(0, 0), (0, 0)], "negative count is empty")
    # finalize_load only upgrades when the volume envelope chunk was absent
    s = m.Sampler()
    s.volume_envelope.loaded = True
    s.finalize_load()
    s = m.Sampler()
    s.panning_envelope.loaded = True
    expect_raises(TypeError, s.finalize_load)
    # through files: save, drop envelope chunks, load
    out = []
    for seed in range(300, 330):
        src = build(seed)
        data = Synth(src).read()
        variants = dict(legacy_variants(data))
        for label in ("no-envelopes", "no-volume-envelope", "only-volume-envelope", "bad-sign-no-env"):
            res = outcome(read_module, variants[label])
            if res[0] == "ok":
                mod = res[1]
                out.append((seed, label, state(mod, True)))
                if label == "no-envelopes":
                    for name in ENV_NAMES[:2]:
                        a, b = getattr(src, name), getattr(mod, name)
                        want = [(x, (y // 0x200) * 0x200 + (a.range[0] % 0x200)) for x, y in a.points]
                        rec.check(b.points == want, f"seed {seed} {name}: coarse points survive")
                        rec.check((b.bitmask, b.sustain_point, b.loop_start_point, b.loop_end_point)
                                  == (a.bitmask, a.sustain_point, a.loop_start_point, a.loop_end_point), "flags survive")
                    rec.check(mod.pitch_envelope.points == Sampler.PitchEnvelope.initial_points, "pitch default")
                if label == "only-volume-envelope":
                    rec.check(mod.panning_envelope.points == Sampler.PanningEnvelope.initial_points, "no upgrade")
            else:
                out.append((seed, label, res))
                rec.check(res == ("exc", "error"), f"{seed} {label}: {res}")
                rec.check(max(len(src.volume_envelope.points), len(src.panning_envelope.points)) > 12, "only >12 points fail")
    rec.record("upgrade-files", out)


def scenario_frame_size(rec):
    table = []
    for fmt in list(Sampler.Format) + [1, 2, 4]:
        for ch in list(Sampler.Channels) + [0, 8]:
            smp = Sampler.Sample()
            smp.format, smp.channels = fmt, ch
            for n in (0, 1, 7, 8, 9, 64):
                smp.data = bytes(n)
                table.append((int(fmt), int(ch), n, smp.frame_size, smp.frames))
                rec.check(smp.frame_size == int(fmt) * (2 if ch else 1), "frame size")
                rec.check(smp.frames == n // smp.frame_size and type(smp.frames) is int, "frames")
    rec.record("frame-size", table)
    smp = Sampler.Sample()
    rec.check((smp.frame_size, smp.frames) == (8, 0), "defaults: float32 stereo")
    for fmt, ch in ((3, 0), (0, 0), (None, 0), (1, 4), (1, None), (8, 8), (3, 4)):
        smp.format, smp.channels = fmt, ch
        e = expect_raises(KeyError, lambda: smp.frame_size)
        rec.check(e.args == ((fmt,) if fmt not in (1, 2, 4) else (ch,)), f"KeyError names the bad value {e.args}")
        expect_raises(KeyError, lambda: smp.frames)
    smp = Sampler.Sample()
    smp.data = None
    expect_raises(TypeError, lambda: smp.frames)


GOLDEN = {
    'images': '7451d835763893d327e5b94d',
    'fixture-state': '9f75aa6f147f7a45ec30a156',
    'fixture-image': '6ad6b302a17750ed39595188',
    'legacy': 'f602ec094c0a4df4d563db21',
    'default-envelopes': '7c678c98e5ac3871fc9ce7a2',
    'bitmask-getter': 'a7c4ab08dce0b836b547baf1',
    'bitmask-setter': '861a69f4ac72dddb6b9aeda8',
    'envelope-blobs': '317145da61b593731494ae2a',
    'envelope-cuts': '2f075a91f546adec79c5a87d',
    'note-map-sets': '81f9de9e437615bbc1670666',
    'upgrade': 'd96fa0b90755be8a99b93a98',
    'upgrade-files': '55a3bcda89b509fbf67b89ae',
    'frame-size': 'f9122539106ceef49ac220c1',
}


def main():
    rec = Recorder(GOLDEN)
    images = scenario_round_trips(rec, range(400, 440))
    scenario_fixture(rec)
    scenario_legacy(rec, images[:8])
    scenario_defaults(rec)
    scenario_bitmask(rec)
    scenario_envelope_codec(rec)
    scenario_envelope_errors(rec)
    scenario_note_map(rec)
    scenario_upgrade(rec)
    scenario_frame_size(rec)
    return rec.finish()


if __name__ == "__main__":
    sys.exit(main())
