"""Behaviour check for Controller.pattern_value and DependentRange.parent
(the unit-dependent range selection), over every controller of every module
type, every unit variant and every value of each range.

Run as: cd <root> && PYTHONPATH=<root>/src/python /venv/bin/python check.py
"""
import sys
from enum import Enum
from types import SimpleNamespace

from rv.controller import (
    CompactRange,
    Controller,
    DependentRange,
    NoOffsetRange,
    Range,
    WarnOnlyRange,
)
from rv.modules import MODULE_CLASSES

failures = []


def expect(cond, msg):
    if not cond:
        failures.append(msg)
        if len(failures) > 20:
            finish()


def finish():
    if failures:
        for f in failures:
            print("FAIL:", f)
        sys.exit(1)
    print("PASS")
    sys.exit(0)


def same(a, b):
    return type(a) is type(b) and a == b


def ref_pattern(t, v):
    """Reference: the documented scaling, written out independently."""
    if not isinstance(t, Range):
        return v
    if isinstance(t, CompactRange):
        return v - t.min
    return int((v - t.min) / ((t.max - t.min) / 32768))


def check_range(label, ctl, mod, t):
    lo, hi = t.min, t.max
    prev = None
    for v in range(lo, hi + 1):
        pv = ctl.pattern_value(mod, v)
        if not same(pv, ref_pattern(t, v)):
            expect(False, f"{label} pattern_value({v}) = {pv!r}, want {ref_pattern(t, v)!r}")
            return
        if prev is not None and pv < prev:
            expect(False, f"{label} not monotone at {v}")
            return
        prev = pv
    expect(ctl.pattern_value(mod, lo) == 0, f"{label} min -> {ctl.pattern_value(mod, lo)}")
    top = ctl.pattern_value(mod, hi)
    if isinstance(t, CompactRange):
        expect(top == hi - lo, f"{label} compact max -> {top}")
    else:
        expect(top == 0x8000, f"{label} max -> {top:#x}")


# --- 1. DependentRange.parent on stand-in instances ------------------------
class Unit(Enum):
    a = 0
    b = 1
    c = 2


ra, rb, rc, rd = Range(0, 10), WarnOnlyRange(1, 20), CompactRange(-3, 3), Range(5, 6)
dep = DependentRange("unit", {Unit.a: ra, Unit.b: rb, Unit.c: rc}, rd)
expect(repr(dep) == "<DependentRange (varies)>", "DependentRange repr")
expect(dep.ctl_name == "unit" and dep.default is rd and dep.range_map[Unit.b] is rb,
       "DependentRange attributes")


def inst(loaded, values):
    return SimpleNamespace(controllers_loaded=loaded, controller_values=values)


expect(dep.parent(inst(set(), {"unit": Unit.a})) is rd, "nothing loaded -> default")
expect(dep.parent(inst(None, {"unit": Unit.a})) is rd, "loaded None -> default")
expect(dep.parent(inst({"other"}, {"unit": Unit.a})) is rd, "unit not loaded -> default")
expect(dep.parent(inst({"unit"}, {})) is rd, "unit loaded but no value -> default")
expect(dep.parent(inst({"unit"}, {"unit": None})) is rd, "unit None -> default")
expect(dep.parent(inst({"unit"}, {"unit": Unit.a})) is ra, "unit a")
expect(dep.parent(inst({"unit", "x"}, {"unit": Unit.b, "x": 1})) is rb, "unit b")
expect(dep.parent(inst(["unit"], {"unit": Unit.c})) is rc, "unit c (list container)")
try:
    dep.parent(inst({"unit"}, {"unit": 99}))
except KeyError:
    pass
else:
    expect(False, "unknown unit must raise KeyError")
# a falsy but non-None unit value is still looked up
dep0 = DependentRange("unit", {0: ra, 1: rb}, rd)
expect(dep0.parent(inst({"unit"}, {"unit": 0})) is ra, "falsy unit value 0 is looked up")
expect(dep0.parent(inst({"unit"}, {"unit": False})) is ra, "False == 0 is looked up")

# pattern_value through a DependentRange on a stand-in instance
c = Controller(dep, 1)
c.name = "amount"
for unit, t in ((Unit.a, ra), (Unit.b, rb), (Unit.c, rc), (None, rd)):
    i = inst({"unit"}, {"unit": unit})
    expect(c.instance_value_type(i) is t, f"instance_value_type for {unit}")
    for v in range(t.min, t.max + 1):
        expect(same(c.pattern_value(i, v), ref_pattern(t, v)), f"dep {unit} {v}")

# --- 2. hand-written controllers -------------------------------------------
for kind in (Range, WarnOnlyRange, NoOffsetRange, CompactRange):
    for lo, hi in [(-128, 128), (0, 1), (0, 256), (1, 2048), (-1, 1), (0, 32768),
                   (0, 44100), (1, 4000), (-100, 100), (0, 3), (0, 7), (3, 1003)]:
        ctl = Controller(kind(lo, hi), lo)
        check_range(f"{kind.__name__}({lo},{hi})", ctl, None, ctl.value_type)
        # values outside the range are scaled the same way (no clamping)
        for v in (lo - 5, hi + 5):
            expect(same(ctl.pattern_value(None, v), ref_pattern(ctl.value_type, v)),
                   f"{kind.__name__}({lo},{hi}) outside {v}")
for kind in (Range, WarnOnlyRange, NoOffsetRange):
    try:
        Controller(kind(4, 4), 4).pattern_value(None, 4)
    except ZeroDivisionError:
        pass
    else:
        expect(False, f"{kind.__name__}(4,4): empty span must raise ZeroDivisionError")
expect(same(Controller(CompactRange(4, 4), 4).pattern_value(None, 4), 0), "compact empty span")
expect(same(Controller((0, 10), 0).pattern_value(None, 2.5), 8192), "float input")
expect(same(Controller(bool, False).pattern_value(None, True), True), "bool passthrough")
expect(same(Controller(bool, False).pattern_value(None, False), False), "bool passthrough")
expect(Controller(Unit, Unit.a).pattern_value(None, Unit.b) is Unit.b, "enum passthrough")
expect(Controller(None, None).pattern_value(None, 17) == 17, "untyped passthrough")

# --- 3. every controller of every module type, every unit, every value -----
n_values = 0
n_dep = 0
for mtype, cls in sorted(MODULE_CLASSES.items()):
    for name, ctl in cls.controllers.items():
        vt = ctl.value_type
        label = f"{mtype}.{name}"
        if isinstance(vt, DependentRange):
            n_dep += 1
            unit_type = cls.controllers[vt.ctl_name].value_type
            expect(set(vt.range_map) == set(unit_type), f"{label} covers all units")
            for unit in unit_type:
                mod = cls(**{vt.ctl_name: unit})
                t = ctl.instance_value_type(mod)
                expect(t is vt.range_map[unit], f"{label} range for {unit}")
                check_range(f"{label}[{unit.name}]", ctl, mod, t)
                n_values += t.max - t.min + 1
                # switching the unit afterwards re-selects the range
                for unit2 in unit_type:
                    setattr(mod, vt.ctl_name, unit2)
                    expect(ctl.instance_value_type(mod) is vt.range_map[unit2],
                           f"{label} switch {unit.name}->{unit2.name}")
            mod = cls()
            mod.controllers_loaded = set()
            expect(ctl.instance_value_type(mod) is vt.default, f"{label} default (not loaded)")
            mod = cls()
            mod.controller_values[vt.ctl_name] = None
            expect(ctl.instance_value_type(mod) is vt.default, f"{label} default (None unit)")
        else:
            mod = cls()
            t = ctl.instance_value_type(mod)
            if isinstance(t, Range):
                check_range(label, ctl, mod, t)
                n_values += t.max - t.min + 1
            elif isinstance(t, type) and issubclass(t, Enum):
                for member in t:
                    expect(ctl.pattern_value(mod, member) is member, f"{label} enum {member}")
            elif t is bool:
                for b in (False, True):
                    expect(ctl.pattern_value(mod, b) is b, f"{label} bool {b}")
expect(n_dep == 6, f"expected 6 unit-dependent controllers, saw {n_dep}")
expect(n_values > 1000000, f"too few values enumerated: {n_values}")

finish()
