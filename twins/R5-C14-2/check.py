"""Behaviour check for Note.module_index / Note.mod and sibling Note accessors
(property C14).  Run from the repository root with PYTHONPATH=<root>/src/python.
"""
import struct
import sys
from io import BytesIO

import rv.api as rv
from rv.errors import ModuleOwnershipError, PatternOwnershipError
from rv.note import NOTECMD, Note
from rv.pattern import Pattern
from rv.project import Project
from rv.readers.reader import read_sunvox_file

m = rv.m


def raises(exc, fn, msg=None):
    try:
        fn()
    except exc as e:
        if msg is not None:
            assert str(e) == msg, str(e)
        return e
    raise AssertionError("expected %s" % exc.__name__)


def reload(p):
    return read_sunvox_file(BytesIO(p.read()))


def build():
    p = Project()
    p.attach_module(None, loading=True)  # slot 1 empty
    amp = p.attach_module(m.Amplifier(), loading=True)  # slot 2
    gen = p.attach_module(m.Generator(), loading=True)  # slot 3
    pat = Pattern(tracks=2, lines=4)
    p += pat
    return p, amp, gen, pat


def test_module_index():
    n = Note()
    assert n.module == 0 and n.module_index is None
    for number in (1, 2, 3, 255, 256, 0xFFFF):
        n.module = number
        assert n.module_index == number - 1
        assert type(n.module_index) is int
    n.module = 0
    assert n.module_index is None
    assert Note(module="7").module_index == 6
    raises(AttributeError, lambda: setattr(n, "module_index", 3))


def test_mod_getter():
    p, amp, gen, pat = build()
    n = pat.data[0][0]
    assert n.project is p
    assert n.mod is None  # module == 0
    expect = {1: p.output, 2: None, 3: amp, 4: gen, 5: None, 6: None, 0xFFFF: None}
    for number, mod in expect.items():
        n.module = number
        assert n.mod is mod, number
    # resolves against the *current* module list
    echo = p.new_module(m.Echo)
    assert echo.index == 1
    n.module = 2
    assert n.mod is echo
    lfo = p.new_module(m.Lfo)
    n.module = 5
    assert n.mod is lfo and lfo.index == 4
    # every note of the pattern sees the same project
    for line in pat.data:
        for note in line:
            note.module = 3
            assert note.mod is amp


def test_mod_getter_without_owner():
    pat = Pattern(tracks=1, lines=1)
    n = pat.data[0][0]
    msg = "Pattern not owned by a project"
    raises(PatternOwnershipError, lambda: n.mod, msg)
    n.module = 1
    raises(PatternOwnershipError, lambda: n.mod, msg)
    # a note outside any pattern has no project to ask
    raises(AttributeError, lambda: Note().mod)
    raises(AttributeError, lambda: Note(module=4).project)
    p = Project()
    p.attach_pattern(pat)
    assert n.mod is p.output


def test_mod_setter():
    p, amp, gen, pat = build()
    n = pat.data[1][1]
    n.mod = gen
    assert n.module == 4 and n.module_index == 3 and n.mod is gen
    n.mod = p.output
    assert n.module == 1 and n.mod is p.output
    n.mod = amp
    assert n.module == 3
    loose = m.Amplifier()
    raises(
        ModuleOwnershipError,
        lambda: setattr(n, "mod", loose),
        "Module must be attached to a project",
    )
    assert n.module == 3 and n.mod is amp  # untouched by the refused assignment
    raises(AttributeError, lambda: setattr(n, "mod", None))
    assert n.module == 3
    # the setter only looks at the module's own parent/index, even for
    # a module of a different project or a note outside a pattern
    q = Project()
    other = q.new_module(m.Filter)
    n.mod = other
    assert n.module == 2 and n.mod is None  # slot 1 of p is empty
    free = Note()
    free.mod = gen
    assert free.module == 4
    # round trip for every attached module
    for mod in p.modules:
        if mod is not None:
            n.mod = mod
            assert n.mod is mod and n.module == mod.index + 1


def test_save_load_keeps_references():
    p, amp, gen, pat = build()
    pat.data[0][0].mod = amp
    pat.data[0][1].mod = gen
    pat.data[1][0].mod = p.output
    pat.data[2][0].module = 2  # refers to the empty slot
    pat.data[3][1].module = 40  # refers past the end
    q = reload(p)
    qpat = q.patterns[0]
    assert qpat.project is q
    assert qpat.data[0][0].mod is q.modules[2]
    assert isinstance(qpat.data[0][0].mod, m.Amplifier)
    assert qpat.data[0][1].mod is q.modules[3]
    assert qpat.data[1][0].mod is q.output
    assert qpat.data[2][0].mod is None and qpat.data[2][0].module == 2
    assert qpat.data[3][1].mod is None and qpat.data[3][1].module == 40
    assert qpat.data[1][1].mod is None and qpat.data[1][1].module == 0
    filled = q.new_module(m.Echo)
    assert qpat.data[2][0].mod is filled


def test_byte_pair_accessors():
    n = Note()
    for ctl in (0x0000, 0x0001, 0x0100, 0x1234, 0xFF00, 0x00FF, 0xFFFF, 0xABCD):
        n.ctl = ctl
        assert (n.controller, n.effect) == (ctl >> 8, ctl & 0xFF)
        n.val = ctl
        assert (n.val_xx, n.val_yy) == (ctl >> 8, ctl & 0xFF)
    n.ctl = 0x1234
    n.controller = 0x56
    assert n.ctl == 0x5634
    n.effect = 0x78
    assert n.ctl == 0x5678
    n.controller = 0x1FF  # only the low 8 bits are used
    assert n.ctl == 0xFF78
    n.effect = 0x300
    assert n.ctl == 0xFF00
    n.effect = -1
    assert n.ctl == 0xFFFF
    n.val = 0xBEEF
    n.val_xx = 0
    assert n.val == 0x00EF
    n.val_yy = 0x101
    assert n.val == 0x0001
    n.val_xx = 0xAB
    n.val_yy = 0xCD
    assert n.val == 0xABCD and (n.val_xx, n.val_yy) == (0xAB, 0xCD)
    n.val = 0x12345  # out-of-range words are not masked on read
    assert n.val_xx == 0x123 and n.val_yy == 0x45
    n.val_yy = 0
    assert n.val == 0x2300
    raises(TypeError, lambda: setattr(n, "controller", "x"))


def test_raw_data():
    n = Note(note=NOTECMD.C4, vel=129, module=0x0102, ctl=0x0304, val=0x0506)
    raw = n.raw_data
    assert raw == struct.pack("<BBHHH", int(NOTECMD.C4), 129, 0x0102, 0x0304, 0x0506)
    assert len(raw) == 8 and isinstance(raw, bytes)
    assert Note().raw_data == b"\0" * 8
    k = Note()
    k.raw_data = raw
    assert (k.note, k.vel, k.module, k.ctl, k.val) == (
        int(NOTECMD.C4), 129, 0x0102, 0x0304, 0x0506,
    )
    assert k.module_index == 0x0101
    k.raw_data = bytearray(b"\x80\x01\xff\xff\x00\x10\x34\x12")
    assert (k.note, k.vel, k.module, k.ctl, k.val) == (128, 1, 0xFFFF, 0x1000, 0x1234)
    assert k.raw_data == b"\x80\x01\xff\xff\x00\x10\x34\x12"
    raises(struct.error, lambda: setattr(k, "raw_data", b"\0" * 7))
    raises(struct.error, lambda: setattr(k, "raw_data", b"\0" * 9))
    assert k.module == 0xFFFF
    k.module = 0x10000
    raises(struct.error, lambda: k.raw_data)
    k.module = -1
    raises(struct.error, lambda: k.raw_data)
    # pattern-level raw data is the concatenation of the cells
    pat = Pattern(tracks=2, lines=2)
    pat.data[1][0].module = 9
    pat.data[0][1].vel = 5
    blob = pat.raw_data
    assert len(blob) == 32
    assert blob[8:16] == struct.pack("<BBHHH", 0, 5, 0, 0, 0)
    assert blob[16:24] == struct.pack("<BBHHH", 0, 0, 9, 0, 0)
    other = Pattern(tracks=2, lines=2)
    other.raw_data = blob
    assert other.data[1][0].module_index == 8 and other.data[0][1].vel == 5


def test_tabular_repr_and_str():
    n = Note()
    assert n.tabular_repr() == ".. " + "   " + "    " + " " + "  " + " " + "  " + " " + "    "
    assert n.tabular_repr(is_on=True).startswith("// ")
    n.module = 1
    assert n.tabular_repr(note_fmt="MMMM") == "0000"
    n.module = 0x1235
    assert n.tabular_repr(note_fmt="[MMMM]") == "[1234]"
    n.module = 0
    assert n.tabular_repr(note_fmt="[MMMM]") == "[    ]"
    n.module = 0xFFFF
    assert n.tabular_repr(note_fmt="MMMM") == "FFFE"
    full = Note(note=NOTECMD.NOTE_OFF, vel=0x41, module=3, ctl=0x0207, val=0x1000)
    assert full.tabular_repr() == "== 40 0002 02 07 1000"
    full.ctl = 0
    full.val = 0x00FE
    assert full.tabular_repr() == "== 40 0002       00FE"
    assert full.tabular_repr(note_fmt="NN MMMM") == "== 0002"
    assert str(Note(note=NOTECMD.EMPTY, vel=3, ctl=0x102, val=7)).endswith("v3c258v7")
    c = full.clone()
    assert c is not full and c.module == 3 and c.module_index == 2
    assert c.pattern is None
    pat = Pattern(tracks=1, lines=2)
    pat.data[0][0].module = 2
    pat.data[0][0].note = NOTECMD.C5
    text = pat.tabular_repr()
    assert text.splitlines()[1].startswith("00 | C5    0001")
    assert text.splitlines()[2] == "01 | //" + " " * 19


def main():
    tests = [v for k, v in sorted(globals().items()) if k.startswith("test_")]
    for t in tests:
        t()
    print("PASS (%d groups)" % len(tests))


if __name__ == "__main__":
    main()
    sys.exit(0)
