"""Behaviour check for Module.options_chunks / Module.specialized_iff_chunks.

The expected CHDT bytes are computed here from the option declarations with
plain arithmetic (value mod 2^size, times 2^bit, summed per byte), so the check
is independent of how the library builds its byte map.
"""
import io
import itertools
import random
import struct
import sys
import types

from rv.modules.amplifier import Amplifier
from rv.modules.analoggenerator import AnalogGenerator
from rv.modules.metamodule import MetaModule
from rv.modules.module import Module
from rv.modules.multisynth import MultiSynth
from rv.modules.sampler import Sampler
from rv.modules.sound2ctl import Sound2Ctl
from rv.option import Option
from rv.readers.reader import read_sunvox_file
from rv.synth import Synth

MODULE_TYPES = [AnalogGenerator, MetaModule, MultiSynth, Sampler, Sound2Ctl]
failures = []


def expect(cond, msg):
    if not cond:
        failures.append(msg)


def expected_chdt(mod):
    """Reference packing: pure arithmetic on the declared layout."""
    cells = {}
    top = 0
    for name, opt in type(mod).options.items():
        stored = int(mod.option_values[name])
        cells[opt.byte] = cells.get(opt.byte, 0) + (stored % (2**opt.size)) * (
            2**opt.bit
        )
        top = max(top, opt.byte + 1)
    return bytes(cells.get(i, 0) for i in range(top))


def chunks_of(mod):
    gen = mod.options_chunks()
    expect(isinstance(gen, types.GeneratorType), "options_chunks is a generator")
    return list(gen)


def check_module(mod, label):
    chunks = chunks_of(mod)
    expect(len(chunks) == 2, f"{label}: expected two chunks, got {len(chunks)}")
    (k1, v1), (k2, v2) = chunks
    expect(k1 == b"CHNM" and v1 == struct.pack("<I", mod.options_chnm), f"{label}: CHNM")
    want = expected_chdt(mod)
    expect(k2 == b"CHDT" and v2 == want, f"{label}: CHDT {v2!r} != {want!r}")
    expect(type(v2) is bytes, f"{label}: CHDT type")
    return v2


def written_options_chdt(mod):
    """Write the module as a .sunsynth and dig the options CHDT out of it."""
    f = io.BytesIO()
    Synth(mod).write_to(f)
    data = f.getvalue()
    marker = b"CHNM" + struct.pack("<I", 4) + struct.pack("<I", mod.options_chnm)
    found = []
    start = 0
    while True:
        i = data.find(marker, start)
        if i < 0:
            break
        j = i + len(marker)
        if data[j : j + 4] == b"CHDT":
            (n,) = struct.unpack("<I", data[j + 4 : j + 8])
            found.append(data[j + 8 : j + 8 + n])
        start = i + 1
    return data, found


# disjointness of the declared layout (pre-condition for the arithmetic model)
total = 0
for cls in MODULE_TYPES:
    seen = {}
    for name, opt in cls.options.items():
        total += 1
        expect(opt.bit + opt.size <= 8, f"{cls.__name__}.{name} crosses a byte")
        for b in range(opt.bit, opt.bit + opt.size):
            key = (opt.byte, b)
            expect(key not in seen, f"{cls.__name__}: {name} overlaps {seen.get(key)}")
            seen[key] = name
expect(total == 49, f"expected 49 options, found {total}")

for cls in MODULE_TYPES:
    cname = cls.__name__
    top = max(o.byte for o in cls.options.values()) + 1

    # defaults
    mod = cls()
    chdt = check_module(mod, f"{cname} defaults")
    expect(len(chdt) == top, f"{cname}: record length {len(chdt)} != {top}")

    # every representable value of each option, others at default
    for name, opt in cls.options.items():
        for value in range(2**opt.size):
            mod = cls()
            setattr(mod, name, value)
            check_module(mod, f"{cname}.{name}={value}")
        # raw stored values wider than the field are masked, negatives wrap
        for raw in (2**opt.size, 2**opt.size + 1, 255, 256, -1, -2):
            mod = cls()
            mod.option_values[name] = raw
            check_module(mod, f"{cname}.{name} raw {raw}")

    # all pairs set together at their extremes
    for a, b in itertools.combinations(cls.options, 2):
        oa, ob = cls.options[a], cls.options[b]
        for va, vb in [(2**oa.size - 1, 2**ob.size - 1), (1, 0), (0, 1)]:
            mod = cls()
            setattr(mod, a, va)
            setattr(mod, b, vb)
            check_module(mod, f"{cname}: {a}={va} {b}={vb}")
            mod = cls()
            mod.option_values[a] = va
            mod.option_values[b] = vb
            check_module(mod, f"{cname}: raw {a}={va} {b}={vb}")

    # random full assignments, both via the API and via raw stored values,
    # and through a complete write/read cycle
    rng = random.Random(2200 + top)
    for n in range(40):
        mod = cls()
        for name, opt in cls.options.items():
            v = rng.randrange(2**opt.size)
            if n % 2:
                setattr(mod, name, v)
            else:
                mod.option_values[name] = bool(v) if opt.size == 1 else v
        chdt = check_module(mod, f"{cname}: random #{n}")
        if n < 12:
            data, found = written_options_chdt(mod)
            expect(chdt in found, f"{cname}: random #{n}: CHDT not in written file")
            back = read_sunvox_file(io.BytesIO(data)).module
            expect(type(back) is cls, f"{cname}: reread type")
            expect(
                back.option_values == mod.option_values,
                f"{cname}: random #{n}: reread {back.option_values!r}"
                f" != {mod.option_values!r}",
            )
            for name in cls.options:
                expect(
                    getattr(back, name) == getattr(mod, name),
                    f"{cname}: random #{n}: logical {name}",
                )
            expect(check_module(back, f"{cname}: reread #{n}") == chdt, "rewrite differs")

    # specialized_iff_chunks of the base class delegates to options_chunks
    mod = cls()
    base = list(Module.specialized_iff_chunks(mod))
    expect(base == chunks_of(mod), f"{cname}: Module.specialized_iff_chunks")
    full = list(mod.specialized_iff_chunks())
    opt_pair = chunks_of(mod)
    idx = [i for i in range(len(full) - 1) if full[i : i + 2] == opt_pair]
    expect(len(idx) >= 1, f"{cname}: options chunks missing from specialized chunks")

# known layouts spelled out literally
m = MetaModule()
expect(chunks_of(m)[1][1][:5] == bytes([0, 0, 0, 0, 0]), "MetaModule default head")
m.user_defined_controllers = 500
m.arpeggiator = True
m.event_output = False
m.receive_notes_from_keyboard = True
m.auto_bpm_tpl = True
head = chunks_of(m)[1][1][:5]
expect(head == bytes([96, 1, 0, 1, 0b101]), f"MetaModule literal head {head!r}")
m.do_not_receive_notes_from_keyboard = True
head = chunks_of(m)[1][1][:5]
expect(head == bytes([96, 1, 0, 1, 0b110]), f"MetaModule exclusive head {head!r}")
expect(chunks_of(m)[0] == (b"CHNM", b"\x02\x00\x00\x00"), "MetaModule CHNM")
expect(chunks_of(Sampler())[0] == (b"CHNM", b"\x01\x01\x00\x00"), "Sampler CHNM")

# a module type without options yields the (None, None) placeholder only
amp = Amplifier()
expect(Amplifier.options == {}, "Amplifier should have no options")
gen = amp.specialized_iff_chunks()
expect(isinstance(gen, types.GeneratorType), "specialized_iff_chunks is a generator")
expect(list(gen) == [(None, None)], "optionless module placeholder")
expect(
    list(amp.options_chunks()) == [(b"CHNM", b"\0\0\0\0"), (b"CHDT", b"")],
    "options_chunks with no options is an empty record",
)


# synthetic layouts: gaps, top byte, declaration order vs byte order
class Synthetic(Module):
    mtype = None  # falsy: keeps these out of the module class registry
    mgroup = "Test"


class Sparse(Synthetic):
    hi = Option(name="hi", byte=63, bit=7, size=1, default=True)
    mid = Option(name="mid", byte=10, bit=2, size=5, default=21)
    lo = Option(name="lo", byte=0, bit=0, size=2, default=2)
    lo2 = Option(name="lo2", byte=0, bit=2, size=6, default=33)
    options_chnm = 7


s = Sparse()
got = chunks_of(s)
want = bytearray(64)
want[63] = 0x80
want[10] = 21 << 2
want[0] = 2 | (33 << 2)
expect(got == [(b"CHNM", b"\x07\0\0\0"), (b"CHDT", bytes(want))], f"Sparse: {got!r}")
expect(list(s.specialized_iff_chunks()) == got, "Sparse specialized")
s.hi = False
s.lo2 = 63
s.lo = 7  # not bounded: stored as 7, masked to 3 when written
want[63] = 0
want[0] = 3 | (63 << 2)
expect(chunks_of(s)[1][1] == bytes(want), "Sparse after changes")
expect(s.option_values["lo"] == 7, "write must not modify stored values")


class Low(Synthetic):
    only = Option(name="only", byte=0, bit=3, size=1, default=False)


expect(chunks_of(Low())[1] == (b"CHDT", b"\0"), "trailing zero byte is kept")
low = Low()
low.only = True
expect(chunks_of(low)[1] == (b"CHDT", b"\x08"), "Low set")


# error behaviour: raised lazily, with the same exception types
class Spill(Synthetic):
    wide = Option(name="wide", byte=0, bit=4, size=8, default=0xFF)


class TooFar(Synthetic):
    far = Option(name="far", byte=64, bit=0, size=1, default=False)


def raises(exc, mod, label, after=0):
    gen = mod.options_chunks()  # creating the generator must not raise
    seen = []
    try:
        for item in gen:
            seen.append(item)
    except exc:
        expect(len(seen) == after, f"{label}: raised after {len(seen)} chunks")
    except Exception as e:  # noqa
        expect(False, f"{label}: raised {type(e).__name__}, wanted {exc.__name__}")
    else:
        expect(False, f"{label}: did not raise")


raises(struct.error, Spill(), "value spilling over a byte", after=1)
raises(IndexError, TooFar(), "byte beyond the byte map", after=0)
missing = Low()
del missing.option_values["only"]
raises(TypeError, missing, "missing stored value", after=0)
nonint = Low()
nonint.option_values["only"] = "x"
raises(TypeError, nonint, "non-integer stored value", after=0)

if failures:
    print("FAIL")
    for f in failures[:40]:
        print("  -", f)
    sys.exit(1)
print("PASS")
