"""Behaviour check for rv.modules.meta.ModuleMeta (registry, controller order and
numbering, options, generated docstrings) against specs/fileformat.yaml.

Run from the repository root:
    PYTHONPATH=<root>/src/python /venv/bin/python check.py
"""
import sys
from enum import Enum, IntEnum
from pathlib import Path
from textwrap import dedent

import yaml

import rv.modules
from rv.controller import (
    CompactRange,
    Controller,
    DependentRange,
    NoOffsetRange,
    Range,
    WarnOnlyRange,
)
from rv.modules import MODULE_CLASSES, Behavior, Module
from rv.modules.meta import ModuleMeta
from rv.option import Option

ROOT = Path.cwd()
FAILURES = []


def expect(cond, msg):
    if not cond:
        FAILURES.append(msg)
        print("FAIL:", msg)


def enumname(ekey):
    for a, b in [("/", "_div_"), ("*", "_mul_"), (".", "_"), ("+", "_plus_"),
                 ("-", "_neg_"), ("^", "_pow_")]:
        ekey = ekey.replace(a, b)
    if ekey[0].isdigit():
        ekey = "_" + ekey
    elif ekey[0] == "_":
        ekey = ekey[1:]
    while "__" in ekey:
        ekey = ekey.replace("__", "_")
    return ekey.lower()


# ------------------------------------------------ independent docstring oracle
RULE = "=" * 40


def expected_module_doc(cls, own_doc):
    lines = ['"%s" SunVox %s Module' % (cls.mtype, cls.mgroup), ""]
    if own_doc:
        lines.append(dedent(own_doc))
    lines.extend(["", "Behaviors:", ""])
    for b in sorted(cls.behaviors):
        lines.append("- " + b.name)
    if cls.controllers:
        rule4 = " ".join([RULE] * 4)
        lines.extend(["", "Controllers:", "", rule4])
        lines.append(" ".join(h.ljust(40) for h in ("Number", "Name", "Type", "Default")))
        lines.append(rule4)
        for i, c in enumerate(cls.controllers.values(), 1):
            cells = ["``%02x`` (%d)" % (i, i), c.name, repr(c.value_type), repr(c.default)]
            lines.append(" ".join(cell.ljust(40) for cell in cells))
        lines.extend([rule4, ""])
    else:
        lines.append("This module has no controllers.")
    return "\n".join(lines)


def expected_enum_doc(enum_cls):
    rule2 = RULE + " " + RULE
    lines = ["An enumeration.", "", rule2, "Name".ljust(40) + " " + "Value".ljust(40), rule2]
    for m in enum_cls:
        lines.append(m.name.ljust(40) + " " + str(int(m.value)).rjust(40))
    lines.append(rule2)
    return "\n".join(lines)


# --------------------------------------------------------- library vs the spec
def check_value_type(where, ctl, cdef, cls, ctlmap):
    vt = ctl.value_type
    if "min" in cdef and "max" in cdef:
        kind = CompactRange if cdef.get("compact") else NoOffsetRange if cdef.get("no_offset") else Range
        expect(type(vt) is kind, f"{where}: range kind {type(vt).__name__}")
        expect((vt.min, vt.max) == (cdef["min"], cdef["max"]), f"{where}: bounds")
        expect(ctl.default == cdef["default"], f"{where}: default")
    elif "enum" in cdef and "default" in cdef:
        expect(vt is getattr(cls, cdef["enum"]), f"{where}: enum type")
        expect(ctl.default is vt[enumname(cdef["default"])], f"{where}: enum default")
    elif "bool" in cdef:
        expect(vt is bool and ctl.default is cdef["default"], f"{where}: bool")
    elif "depends_on" in cdef:
        expect(type(vt) is DependentRange and vt.ctl_name == cdef["depends_on"], f"{where}: dep")
        enum_cls = getattr(cls, ctlmap[cdef["depends_on"]]["enum"])
        want = [(enum_cls[enumname(k)], r["min"], r["max"]) for k, r in cdef["ranges"].items()]
        got = [(k, r.min, r.max) for k, r in vt.range_map.items()]
        expect(got == want, f"{where}: range table")
        expect(all(type(r) is WarnOnlyRange for r in vt.range_map.values()), f"{where}: warn")
        expect((vt.default.min, vt.default.max) == want[0][1:], f"{where}: fallback range")
        expect(ctl.default == cdef["default"], f"{where}: default")
    else:
        expect(False, f"{where}: unknown controller kind")
    expect(ctl._attached is bool(cdef.get("attached", True)), f"{where}: attached")


def check_library_against_spec():
    spec = yaml.safe_load((ROOT / "specs" / "fileformat.yaml").read_text())
    types = spec["module_types"]
    expect(len(types) == 43, f"43 module types in spec, got {len(types)}")
    spec_mtypes = [t.get("type") or name for name, t in types.items()]
    expect(sorted(MODULE_CLASSES) == sorted(spec_mtypes), "registry keys == spec types")
    expect(len(set(map(id, MODULE_CLASSES.values()))) == 43, "43 distinct classes")
    n_ctl = n_opt = 0
    for name, t in types.items():
        mtype = t.get("type") or name
        cls = MODULE_CLASSES[mtype]
        expect(type(cls) is ModuleMeta and issubclass(cls, Module), f"{name}: class kind")
        expect(cls.__name__ == name and getattr(rv.modules, name) is cls, f"{name}: exported")
        expect(cls.mtype == mtype, f"{name}: mtype")
        expect(vars(cls.__mro__[1])["name"] == name, f"{name}: name")
        expect(cls.mgroup == t["group"], f"{name}: group")
        expect(cls.flags == cls.default_flags == (t.get("defaultFlags") or 0), f"{name}: flags")
        for ename, members in (t.get("enums") or {}).items():
            e = getattr(cls, ename)
            expect([(m.name, m.value) for m in e] == [(enumname(k), v) for k, v in members.items()],
                   f"{name}.{ename}: members")
            expect(e.__doc__ == expected_enum_doc(e), f"{name}.{ename}: enum docstring")
        entries = [(k, v) for entry in t.get("controllers") or [] for k, v in entry.items()]
        ctlmap = dict(entries)
        want_names = ["in_" if k == "in" else k for k, _ in entries]
        # a few hand-written classes (MetaModule, Sampler) append controllers of
        # their own after the specified ones
        expect(list(cls.controllers)[: len(want_names)] == want_names, f"{name}: controller order")
        own_ctls = [k for k, v in vars(cls).items() if isinstance(v, Controller)]
        expect(list(cls.controllers)[len(want_names) :] == own_ctls, f"{name}: own controllers last")
        expect([c.number for c in cls.controllers.values()]
               == list(range(1, len(cls.controllers) + 1)), f"{name}: numbered from 1")
        for number, ((cname, cdef), (key, ctl)) in enumerate(
            zip(entries, cls.controllers.items()), 1
        ):
            where = f"{name}.{key}"
            n_ctl += 1
            expect(ctl is vars(cls.__mro__[1]).get(key, None) or ctl is getattr(cls, key),
                   f"{where}: same object as attribute")
            expect(ctl.number == number, f"{where}: number {ctl.number} != {number}")
            expect(ctl.name == key, f"{where}: name")
            expect(ctl.label == key.replace("_", " ").title(), f"{where}: label")
            check_value_type(where, ctl, cdef, cls, ctlmap)
        orders = [c._order for c in cls.controllers.values()]
        expect(orders == sorted(orders), f"{name}: controllers in definition order")
        opt_entries = [(k, v) for entry in t.get("options") or [] for k, v in entry.items()]
        expect(sorted(cls.options) == sorted(k for k, _ in opt_entries), f"{name}: option names")
        expect(list(cls.options) == sorted(cls.options), f"{name}: options in dir() order")
        for oname, ospec in opt_entries:
            n_opt += 1
            opt = cls.options[oname]
            default = ospec["default"]
            if ospec.get("enum"):
                default = getattr(cls, ospec["enum"])[default]
            ranged = "min" in ospec and "max" in ospec
            want = Option(
                name=oname,
                number=ospec.get("number") or None,
                byte=ospec["byte"],
                bit=ospec["bit"],
                size=ospec["size"],
                min=ospec["min"] if ranged else None,
                max=ospec["max"] if ranged else None,
                inverted=bool(ospec.get("inverted")) and not ranged,
                exclusive_of=ospec.get("exclusive_of") or [],
                default=default,
            )
            expect(opt == want, f"{name}.{oname}: option {opt} != {want}")
            expect(opt is getattr(cls, oname), f"{name}.{oname}: same object")
        base = cls.__mro__[1]
        expect(cls.__doc__ == expected_module_doc(cls, None) or cls.__doc__.count("\n") > 3,
               f"{name}: docstring present")
    expect(n_ctl == 502, f"502 controllers checked, got {n_ctl}")
    expect(n_opt == 49, f"49 options checked, got {n_opt}")
    expect(Module.__name__ == "Module" and "Module" not in MODULE_CLASSES, "Module unregistered")
    expect(Module.controllers == {} and Module.options == {}, "Module has no controllers")


# ----------------------------------------------- classes defined for the check
def check_custom_classes():
    before = dict(MODULE_CLASSES)
    try:
        class Kind(IntEnum):
            one = 1
            minus = -2
            big = 1234567

        class Words(Enum):
            a = "x"

        class BaseThing:
            name = "Thing"
            mtype = "C13 Thing"
            mgroup = "Synth"
            flags = default_flags = 0x49

            class Mode(IntEnum):
                off = 0
                on = 1

            zeta = Controller((0, 256), 128)
            alpha = Controller(Mode, Mode.on)
            in_ = Controller(bool, False)
            middle_name_here = Controller((-5, 5), 0, attached=False)
            opt_b = Option(name="opt_b", byte=1, bit=0, size=1, default=False)
            opt_a = Option(name="opt_a", byte=0, bit=0, size=1, default=True, inverted=True)

        class Thing(BaseThing, Module):
            """
            A thing.

              Indented detail.
            """

            behaviors = {Behavior.sends_audio, Behavior.receives_notes}
            KindAlias = Kind

        expect(MODULE_CLASSES.get("C13 Thing") is Thing, "Thing registered under its mtype")
        expect(list(Thing.controllers) == ["zeta", "alpha", "in_", "middle_name_here"],
               f"definition order, not alphabetical: {list(Thing.controllers)}")
        expect([c.number for c in Thing.controllers.values()] == [1, 2, 3, 4], "numbers from 1")
        expect([c.name for c in Thing.controllers.values()] == list(Thing.controllers), "names")
        expect([c.label for c in Thing.controllers.values()]
               == ["Zeta", "Alpha", "In ", "Middle Name Here"], "labels")
        expect(Thing.controllers["zeta"] is BaseThing.__dict__["zeta"], "same controller objects")
        expect(list(Thing.options) == ["opt_a", "opt_b"], "options in dir() order")
        expect(Thing.options["opt_a"] is BaseThing.__dict__["opt_a"], "same option objects")
        own = "\n            A thing.\n\n              Indented detail.\n            "
        expect(Thing.__doc__ == expected_module_doc(Thing, own), "Thing docstring")
        expect(Thing.__doc__.startswith('"C13 Thing" SunVox Synth Module\n\n\nA thing.\n\n  Indented'),
               f"Thing docstring head {Thing.__doc__[:70]!r}")
        expect("- receives_notes\n- sends_audio\n" in Thing.__doc__, "behaviours sorted")
        expect("``01`` (1)".ljust(40) + " " + "zeta".ljust(40) + " " in Thing.__doc__, "row 1")
        expect(Thing.__doc__.endswith(" ".join(["=" * 40] * 4) + "\n"), "table closes docstring")
        expect(Thing.Mode.__doc__ == expected_enum_doc(Thing.Mode), "Mode docstring")
        expect(Kind.__doc__ == expected_enum_doc(Kind), "Kind docstring (attribute alias)")
        expect(Kind.__doc__.splitlines()[-2] == "big".ljust(40) + " " + "1234567".rjust(40),
               "enum value right-aligned")

        # subclass adds controllers: numbering continues, base order kept
        class SubThing(Thing):
            mtype = "C13 SubThing"
            extra = Controller((0, 1), 0)
            aardvark = Controller((0, 9), 3)
            late_option = Option(name="late_option", byte=2, bit=0, size=1, default=False)

        expect(list(SubThing.controllers)
               == ["zeta", "alpha", "in_", "middle_name_here", "extra", "aardvark"],
               f"subclass controller order {list(SubThing.controllers)}")
        expect([c.number for c in SubThing.controllers.values()] == [1, 2, 3, 4, 5, 6], "sub nums")
        expect(list(SubThing.options) == ["late_option", "opt_a", "opt_b"], "sub options")
        expect(list(Thing.controllers) == ["zeta", "alpha", "in_", "middle_name_here"],
               "parent mapping untouched")
        expect(MODULE_CLASSES["C13 SubThing"] is SubThing and MODULE_CLASSES["C13 Thing"] is Thing,
               "both registered")
        expect(SubThing.__doc__ == expected_module_doc(SubThing, None),
               "subclass without own docstring")
        expect("``06`` (6)".ljust(40) + " " + "aardvark".ljust(40) in SubThing.__doc__, "row 6")

        # the same controller under two names: stable, dir() order breaks the tie
        class Aliased(Thing):
            mtype = "C13 Aliased"
            second = Controller((0, 3), 1)
            first = second

        expect(list(Aliased.controllers)[-2:] == ["first", "second"], "alias tie -> dir order")
        expect(Aliased.controllers["first"] is Aliased.controllers["second"], "alias same object")
        expect(Aliased.controllers["first"].name == "second"
               and Aliased.controllers["first"].number == 6, "alias: last assignment wins")
        expect(Aliased.__doc__ == expected_module_doc(Aliased, None), "alias docstring")

        # same mtype again replaces the registry entry
        class Thing2(BaseThing, Module):
            behaviors = set()

        expect(MODULE_CLASSES["C13 Thing"] is Thing2, "later class replaces registration")

        # no mtype / empty mtype: not registered; no controllers: sentence
        n = len(MODULE_CLASSES)

        class Bare(Module):
            mtype = ""
            mgroup = "Misc"
            behaviors = {Behavior.receives_audio}

        expect(len(MODULE_CLASSES) == n and "" not in MODULE_CLASSES, "empty mtype unregistered")
        expect(Bare.controllers == {} and Bare.options == {}, "Bare: empty maps")
        expect(Bare.__doc__ == '"" SunVox Misc Module\n\n\nBehaviors:\n\n- receives_audio\n'
               "This module has no controllers.", f"Bare docstring {Bare.__doc__!r}")

        class NoMtype(metaclass=ModuleMeta):
            mgroup = "Misc"
            behaviors = set()
            knob = Controller((0, 2), 1)
            try:
                pass
            finally:
                pass

        expect(False, "class without mtype should fail in its docstring")
    except AttributeError as e:
        expect("mtype" in str(e), f"AttributeError mentions mtype: {e}")
    finally:
        extra = set(MODULE_CLASSES) - set(before)
        expect(extra == {"C13 Thing", "C13 SubThing", "C13 Aliased"}, f"registered: {extra}")
        MODULE_CLASSES.clear()
        MODULE_CLASSES.update(before)

    # a class literally called Module keeps its docstring
    before = dict(MODULE_CLASSES)
    try:
        M2 = ModuleMeta("Module", (), {"__doc__": "keep me", "knob": Controller((0, 2), 1)})
        expect(M2.__doc__ == "keep me", "class named Module keeps its docstring")
        expect(list(M2.controllers) == ["knob"] and M2.controllers["knob"].number == 1, "M2 ctl")
        expect(M2.options == {}, "M2 options")

        # non-integer enum values cannot be tabulated
        try:
            ModuleMeta(
                "Wordy",
                (),
                {"mtype": "C13 Wordy", "mgroup": "Misc", "behaviors": set(),
                 "Words": Enum("Words", {"a": "x"})},
            )
        except ValueError:
            expect(MODULE_CLASSES.get("C13 Wordy") is not None, "registered before failing")
        else:
            expect(False, "ValueError expected for a str-valued Enum attribute")
    finally:
        MODULE_CLASSES.clear()
        MODULE_CLASSES.update(before)


def check_library_docstrings():
    """Docstrings of the shipped classes equal the oracle rendering."""
    import importlib
    import inspect

    for mtype, cls in MODULE_CLASSES.items():
        src = inspect.getsource(importlib.import_module(cls.__module__))
        # recover the hand-written docstring (if any) from the class statement
        import ast

        tree = ast.parse(src)
        node = next(n for n in tree.body if isinstance(n, ast.ClassDef) and n.name == cls.__name__)
        own = ast.get_docstring(node, clean=False)
        expect(cls.__doc__ == expected_module_doc(cls, own), f"{mtype}: module docstring")
        for k in dir(cls):
            e = getattr(cls, k)
            # (enums attached after the class statement, as DrumSynth does, are
            # not seen by the metaclass)
            if not (isinstance(e, type) and issubclass(e, Enum)):
                continue
            attached_later = k in vars(cls) and e.__qualname__ == e.__name__
            if not attached_later:
                expect(e.__doc__ == expected_enum_doc(e), f"{mtype}.{k}: enum docstring")


check_library_against_spec()
check_library_docstrings()
check_custom_classes()
if FAILURES:
    print(f"{len(FAILURES)} failure(s)")
    sys.exit(1)
print("PASS")
