"""Behaviour check for the Sampler instrument record (chunk 0), chunk routing
in ``load_chunk``, the legacy-layout bookkeeping and the overall chunk order
produced by ``specialized_iff_chunks``.

The record layout is spelled out here with plain ``struct`` calls so that the
expectations do not depend on how the library packs it.
"""
import logging
import random
import struct
import sys
from io import BytesIO

from rv.api import Synth, m, read_sunvox_file
from rv.modules import sampler as sampler_mod
from rv.modules.module import Chunk

Sampler = m.Sampler
rng = random.Random(0x3C16)
checks = 0


class Capture(logging.Handler):
    def __init__(self):
        super().__init__()
        self.messages = []

    def emit(self, record):
        self.messages.append((record.levelno, record.getMessage()))


capture = Capture()
sampler_mod.log.addHandler(capture)
sampler_mod.log.setLevel(logging.WARNING)
sampler_mod.log.propagate = False


def ok(cond, msg):
    global checks
    checks += 1
    if not cond:
        print("FAIL:", msg)
        sys.exit(1)


def raises(exc_type, fn, msg):
    try:
        fn()
    except exc_type as e:
        ok(type(e) is exc_type, "%s: exact type %r" % (msg, type(e)))
        return e
    except Exception as e:  # pragma: no cover
        ok(False, "%s: raised %r instead of %r" % (msg, e, exc_type))
    ok(False, "%s: did not raise" % msg)


def make_chunk(chnm, chdt, chff=0, chfr=44100):
    c = Chunk()
    c.chnm, c.chdt, c.chff, c.chfr = chnm, chdt, chff, chfr
    return c


RECORD = struct.Struct("<I22sHHHI96s48s48sBBBBBBBBBBBBBBHBbBbI4sI128sIii")
assert RECORD.size == 0x190


def legacy_table(points, min_y):
    shift = min_y // 0x200
    xs = ([x for x, _ in points] + [0] * 12)[:12]
    ys = ([y // 0x200 for _, y in points] + [0] * 12)[:12]
    return b"".join(struct.pack("<HH", x, y - shift) for x, y in zip(xs, ys))


def flags(env):
    return (1 if env.enable else 0) | (2 if env.sustain else 0) | (4 if env.loop else 0)


def expected_record(s):
    occupied = [i for i, x in enumerate(s.samples) if x is not None]
    vol, pan = s.volume_envelope, s.panning_envelope
    note_map = bytes(s.note_samples.values())
    return RECORD.pack(
        s.unused1,
        s.instrument_name[:22],
        s.unused2,
        occupied[-1] + 1 if occupied else 0,
        s.unused3,
        s.unused4,
        note_map[:96],
        legacy_table(vol.points, 0),
        legacy_table(pan.points, -0x4000),
        len(vol.points),
        len(pan.points),
        vol.sustain_point,
        vol.loop_start_point,
        vol.loop_end_point,
        pan.sustain_point,
        pan.loop_start_point,
        pan.loop_end_point,
        flags(vol),
        flags(pan),
        s.vibrato_type.value,
        s.vibrato_attack,
        s.vibrato_depth,
        s.vibrato_rate,
        s.volume_fadeout,
        s.volume_old,
        s.ins_finetune,
        s.unused5,
        s.ins_relative_note,
        s.unused6,
        b"PMAS",
        s.version,
        note_map,
        s.max_version,
        s.editor_cursor,
        s.editor_selected_size,
    )


def random_envelope(env, n, min_y, narrow):
    xs = sorted(rng.randrange(0x10000) for _ in range(n))
    env.points = [(x, rng.randrange(0x10000) + min_y) for x in xs]
    env.enable = rng.random() < 0.5
    env.sustain = rng.random() < 0.5
    env.loop = rng.random() < 0.5
    top = 256 if narrow else 0x10000
    env.sustain_point = rng.randrange(top)
    env.loop_start_point = rng.randrange(top)
    env.loop_end_point = rng.randrange(top)
    env.ctl_index = rng.randrange(256)
    env.gain_pct = rng.randrange(256)
    env.velocity = rng.randrange(256)


def random_sampler(slots=None):
    s = Sampler()
    if slots is None:
        slots = rng.sample(range(128), rng.randrange(0, 5))
    for slot in slots:
        smp = s.Sample()
        smp.format = rng.choice(list(s.Format))
        smp.channels = rng.choice(list(s.Channels))
        smp.data = bytes(rng.randrange(256) for _ in range(smp.frame_size * rng.randrange(4)))
        s.samples[slot] = smp
    random_envelope(s.volume_envelope, rng.randrange(0, 20), 0, True)
    random_envelope(s.panning_envelope, rng.randrange(0, 20), -0x4000, True)
    random_envelope(s.pitch_envelope, rng.randrange(0, 20), -0x4000, False)
    for env in s.effect_control_envelopes:
        random_envelope(env, rng.randrange(0, 20), 0, False)
    s.note_samples.bytes = bytes(rng.randrange(256) for _ in range(119))
    s.instrument_name = bytes(rng.randrange(1, 256) for _ in range(rng.randrange(0, 28)))
    s.vibrato_type = rng.choice(list(s.VibratoType))
    s.vibrato_attack = rng.randrange(256)
    s.vibrato_depth = rng.randrange(256)
    s.vibrato_rate = rng.randrange(64)
    s.volume_fadeout = rng.randrange(8193)
    s.volume_old = rng.randrange(256)
    s.ins_finetune = rng.randrange(-128, 128)
    s.ins_relative_note = rng.randrange(-128, 128)
    s.unused1 = rng.randrange(2 ** 32)
    s.unused2 = rng.randrange(2 ** 16)
    s.unused3 = rng.randrange(2 ** 16)
    s.unused4 = rng.randrange(2 ** 32)
    s.unused5 = rng.randrange(256)
    s.unused6 = rng.randrange(2 ** 32)
    s.version = rng.randrange(2 ** 32)
    s.max_version = rng.randrange(2 ** 32)
    s.editor_cursor = rng.randrange(-(2 ** 31), 2 ** 31)
    s.editor_selected_size = rng.randrange(-(2 ** 31), 2 ** 31)
    return s


RECORD_FIELDS = [
    "unused1", "instrument_name", "unused2", "unused3", "unused4", "vibrato_type",
    "vibrato_attack", "vibrato_depth", "vibrato_rate", "volume_fadeout", "volume_old",
    "ins_finetune", "unused5", "ins_relative_note", "unused6", "version", "max_version",
    "editor_cursor", "editor_selected_size",
]
LEGACY_FIELDS = [
    "_legacy_point_bytes", "_legacy_active_points", "_legacy_sustain_point",
    "_legacy_loop_start_point", "_legacy_loop_end_point", "_legacy_bitmask",
]


def record_state(s):
    return (
        [getattr(s, name) for name in RECORD_FIELDS],
        dict(s.note_samples),
        [[getattr(env, name) for name in LEGACY_FIELDS] for env in (s.volume_envelope, s.panning_envelope)],
    )


# ------------------------------------------------------------ record writer
def check_record_writer():
    slot_sets = [[], [0], [127], [0, 127], [5, 6, 7], [126], list(range(128)), None, None, None]
    for slots in slot_sets * 3:
        s = random_sampler(slots)
        gen = s.global_config_chunks()
        first = next(gen)
        ok(first == (b"CHNM", b"\0\0\0\0"), "chunk number 0")
        second = next(gen)
        ok(second[0] == b"CHDT" and type(second[1]) is bytes, "CHDT")
        ok(second[1] == expected_record(s), "record bytes slots=%r" % (slots,))
        raises(StopIteration, lambda: next(gen), "exactly two chunks")
        occupied = [i for i, x in enumerate(s.samples) if x is not None]
        num = struct.unpack_from("<H", second[1], 0x1C)[0]
        ok(num == (occupied[-1] + 1 if occupied else 0), "samples_num")
        ok(len(s.samples) == 128, "slot list untouched")
        ok([i for i, x in enumerate(s.samples) if x is not None] == occupied, "slots untouched")
    # the slot list may have been shortened or extended by the user
    s = random_sampler([])
    s.samples = []
    ok(struct.unpack_from("<H", list(s.global_config_chunks())[1][1], 0x1C)[0] == 0, "empty list")
    s.samples = [None, s.Sample(), None]
    ok(struct.unpack_from("<H", list(s.global_config_chunks())[1][1], 0x1C)[0] == 2, "short list")
    s.samples = tuple(s.samples)
    raises(AttributeError, lambda: list(s.global_config_chunks()), "slot list must be a list")
    # widths
    for attr, bad in [
        ("unused1", 2 ** 32), ("unused2", 2 ** 16), ("unused3", -1), ("unused4", -1),
        ("volume_old", 256), ("ins_finetune", 128), ("unused5", -1), ("ins_relative_note", -129),
        ("unused6", 2 ** 32), ("version", -1), ("max_version", 2 ** 32),
        ("editor_cursor", 2 ** 31), ("editor_selected_size", -(2 ** 31) - 1),
    ]:
        s = random_sampler([])
        setattr(s, attr, bad)
        gen = s.global_config_chunks()
        raises(struct.error, lambda: next(gen), "%s=%r fails before the first chunk" % (attr, bad))
    for env_name in ["volume_envelope", "panning_envelope"]:
        for attr in ["sustain_point", "loop_start_point", "loop_end_point"]:
            s = random_sampler([])
            setattr(getattr(s, env_name), attr, 256)
            raises(struct.error, lambda: list(s.global_config_chunks()), "%s.%s" % (env_name, attr))
        s = random_sampler([])
        getattr(s, env_name).points = [(i, 0) for i in range(256)]
        raises(struct.error, lambda: list(s.global_config_chunks()), "%s too many points" % env_name)
        s = random_sampler([])
        getattr(s, env_name).points = [(i, 0) for i in range(255)]
        ok(list(s.global_config_chunks())[1][1] == expected_record(s), "%s 255 points" % env_name)
    s = random_sampler([])
    s.note_samples[next(iter(s.note_samples))] = 256
    raises(ValueError, lambda: list(s.global_config_chunks()), "note map entry too wide")
    s = random_sampler([])
    s.instrument_name = "text"
    raises(TypeError, lambda: list(s.global_config_chunks()), "str name")


# ------------------------------------------------------------ record reader
def check_record_reader():
    for _ in range(40):
        src = random_sampler()
        record = expected_record(src)
        dst = Sampler()
        del capture.messages[:]
        dst.load_instrument(make_chunk(0, record))
        ok(capture.messages == [], "no warnings for a current record")
        for name in RECORD_FIELDS:
            want = getattr(src, name)
            if name == "instrument_name":
                want = want[:22]
            ok(getattr(dst, name) == want, "field %s" % name)
        ok(dst.vibrato_type is src.vibrato_type, "vibrato enum member")
        # note map: 128 bytes with trailing NULs stripped, applied over the old 96
        ok(bytes(dst.note_samples.values()) == bytes(src.note_samples.values()), "note map")
        for env, senv, min_y in (
            (dst.volume_envelope, src.volume_envelope, 0),
            (dst.panning_envelope, src.panning_envelope, -0x4000),
        ):
            ok(env._legacy_point_bytes == legacy_table(senv.points, min_y), "legacy table")
            ok(env._legacy_active_points == len(senv.points), "legacy count")
            ok(env._legacy_sustain_point == senv.sustain_point, "legacy sustain")
            ok(env._legacy_loop_start_point == senv.loop_start_point, "legacy loop start")
            ok(env._legacy_loop_end_point == senv.loop_end_point, "legacy loop end")
            ok(env._legacy_bitmask == flags(senv), "legacy flags")
            ok(env.loaded is False, "envelope itself untouched")
        ok(dst.is_legacy is False and dst.legacy_chunks is None, "current layout recognised")
        ok(all(x is None for x in dst.samples), "samples_num is not acted upon")
    # truncated records
    src = random_sampler()
    record = expected_record(src)
    for size in range(0, 0x191):
        data = record[:size]
        dst = Sampler()
        before = record_state(dst)
        chunk = make_chunk(0, data)
        if size < 0x104:
            e = raises(RuntimeError, lambda: dst.load_instrument(chunk), "record of %#x bytes" % size)
            ok(str(e) == "default not provided", "short read message")
            ok(dst.is_legacy in (None, True), "legacy flag undecided or set by the sign check")
            ok(dst.legacy_chunks == [], "raw chunk list kept")
            if size < 4:
                ok(record_state(dst) == before, "nothing assigned")
            continue
        dst.load_instrument(chunk)
        ok(dst.version == src.version, "version size=%#x" % size)
        ok(dst.max_version == (src.max_version if size >= 0x188 else 6), "max_version default")
        ok(dst.editor_cursor == (src.editor_cursor if size >= 0x18C else 0), "cursor default")
        ok(dst.editor_selected_size == (src.editor_selected_size if size >= 0x190 else 0), "size default")
        full_map = bytes(src.note_samples.values())
        got_map = bytes(dst.note_samples.values())
        tail = record[0x104 : min(size, 0x184)].rstrip(b"\0")[:119]
        want_map = bytearray(full_map[:96] + b"\0" * 23)
        want_map[: len(tail)] = tail
        ok(got_map == bytes(want_map), "note map size=%#x" % size)
        ok(dst.is_legacy is False and dst.legacy_chunks is None, "short but current")
    # wrong signature / oversized record
    src = random_sampler()
    record = bytearray(expected_record(src))
    for sign, shown in [(b"XXXX", b"XXXX"), (b"\0\0\0\0", b""), (b"PMA\0", b"PMA"), (b"pmas", b"pmas")]:
        record[0xFC:0x100] = sign
        dst = Sampler()
        del capture.messages[:]
        dst.load_instrument(make_chunk(0, bytes(record)))
        ok(dst.is_legacy is True and dst.legacy_chunks == [], "wrong sign -> legacy")
        ok(capture.messages == [(logging.WARNING, "legacy signature %r != %r" % (shown, b"PMAS"))], "sign warning")
        ok(dst.version == src.version and dst.editor_cursor == src.editor_cursor, "still decoded")
    record[0xFC:0x100] = b"PMAS"
    for extra in [1, 4, 100]:
        dst = Sampler()
        del capture.messages[:]
        dst.load_instrument(make_chunk(0, bytes(record) + b"\0" * extra))
        ok(dst.is_legacy is True and dst.legacy_chunks == [], "long record -> legacy")
        ok(capture.messages == [(logging.WARNING, "legacy instrument data of length %d" % (0x190 + extra))], "length warning")
    record[0xFC:0x100] = b"ABCD"
    dst = Sampler()
    del capture.messages[:]
    dst.load_instrument(make_chunk(0, bytes(record) + b"\0" * 9))
    ok(len(capture.messages) == 1 and capture.messages[0][1].startswith("legacy signature"), "one warning only")
    record[0xFC:0x100] = b"PMAS"
    # the flag is sticky across records
    dst = Sampler()
    dst.load_instrument(make_chunk(0, bytes(record) + b"\0"))
    del capture.messages[:]
    dst.load_instrument(make_chunk(0, bytes(record)))
    ok(dst.is_legacy is True and dst.legacy_chunks == [] and capture.messages == [], "stays legacy")
    dst = Sampler()
    dst.load_instrument(make_chunk(0, bytes(record)))
    dst.load_instrument(make_chunk(0, bytes(record)))
    ok(dst.is_legacy is False and dst.legacy_chunks is None, "stays current")
    dst.load_instrument(make_chunk(0, bytes(record) + b"\0"))
    ok(dst.is_legacy is True and dst.legacy_chunks is None, "current then oversized")
    raises(TypeError, lambda: list(dst.specialized_iff_chunks()), "nothing to replay")
    # unknown vibrato type
    record[0xEE] = 3
    dst = Sampler()
    raises(ValueError, lambda: dst.load_instrument(make_chunk(0, bytes(record))), "vibrato type 3")
    ok(dst.volume_envelope._legacy_bitmask == record[0xEC], "fields before it were read")
    ok(dst.vibrato_attack == 0 and dst.is_legacy is None, "fields after it were not")


# ------------------------------------------------------------ chunk routing
class Recorder:
    def __init__(self, log_, name):
        self.log, self.name = log_, name

    def load_chdt(self, chdt):
        self.log.append((self.name, chdt))


def routed_sampler(options_chnm=None):
    s = Sampler()
    if options_chnm is not None:
        # instance-level override; a subclass would register itself as the
        # class to instantiate for "Sampler" modules
        s.options_chnm = options_chnm
    calls = []
    s.load_options = lambda chunk: calls.append(("options", chunk))
    s.load_instrument = lambda chunk: calls.append(("instrument", chunk))
    s.load_sample_meta = lambda chunk: calls.append(("meta", chunk))
    s.load_sample_data = lambda chunk: calls.append(("data", chunk))
    s.volume_envelope = Recorder(calls, "vol")
    s.panning_envelope = Recorder(calls, "pan")
    s.pitch_envelope = Recorder(calls, "pitch")
    s.effect_control_envelopes = [Recorder(calls, "fx%d" % i) for i in range(4)]
    return s, calls


def expected_route(chnm, options_chnm=0x101):
    if chnm == options_chnm:
        return "options"
    if chnm == 0:
        return "instrument"
    if chnm < 0x101:
        return "meta" if chnm % 2 else "data"
    return {0x101: "unknown", 0x102: "vol", 0x103: "pan", 0x104: "pitch", 0x105: "fx0",
            0x106: "fx1", 0x107: "fx2", 0x108: "fx3", 0x10A: "effect"}.get(chnm)


def check_routing():
    effect_bytes = BytesIO()
    Synth(m.Reverb()).write_to(effect_bytes)
    for override, options_chnm in [(None, 0x101), (0x50, 0x50)]:
        numbers = list(range(0, 0x120)) + [0x200, 0xFFFF, 0xFFFFFFFF]
        for chnm in numbers:
            s, calls = routed_sampler(override)
            payload = effect_bytes.getvalue() if chnm == 0x10A else bytes([chnm % 256]) * 3
            chunk = make_chunk(chnm, payload)
            s.load_chunk(chunk)
            route = expected_route(chnm, options_chnm)
            ok(s.legacy_chunks == [chunk], "raw chunk recorded %#x" % chnm)
            if route in ("options", "instrument", "meta", "data"):
                ok(calls == [(route, chunk)], "route %#x -> %s" % (chnm, route))
            elif route == "unknown":
                ok(calls == [] and s._unknown_0x101 is payload, "chunk 0x101 kept aside")
            elif route == "effect":
                ok(calls == [], "effect is not an envelope")
                ok(type(s.effect) is Synth and type(s.effect.module) is m.Reverb, "effect decoded")
            elif route is None:
                ok(calls == [] and s.effect is None, "chunk %#x ignored" % chnm)
                ok(not hasattr(s, "_unknown_0x101"), "chunk %#x not kept" % chnm)
            else:
                ok(calls == [(route, payload)], "route %#x -> %s" % (chnm, route))
            if route != "effect":
                ok(s.effect is None, "effect untouched %#x" % chnm)
    # once the record is known to be current, raw chunks are no longer kept
    s, calls = routed_sampler()
    s.is_legacy = False
    s.legacy_chunks = None
    s.load_chunk(make_chunk(0x102, b"abc"))
    ok(calls == [("vol", b"abc")] and s.legacy_chunks is None, "no raw chunk list needed")
    s, calls = routed_sampler()
    s.is_legacy = True
    c = make_chunk(0x108, b"abc")
    s.load_chunk(c)
    ok(calls == [("fx3", b"abc")] and s.legacy_chunks == [c], "legacy keeps raw chunks")
    # fewer effect envelopes than chunk numbers
    s, calls = routed_sampler()
    s.effect_control_envelopes = s.effect_control_envelopes[:2]
    s.load_chunk(make_chunk(0x106, b""))
    raises(IndexError, lambda: s.load_chunk(make_chunk(0x107, b"")), "missing envelope")
    # an envelope slot emptied by the user is not silently skipped
    s, calls = routed_sampler()
    s.pitch_envelope = None
    raises(AttributeError, lambda: s.load_chunk(make_chunk(0x104, b"")), "envelope is None")
    # effect payloads that do not contain a synth
    for payload in [b"", b"SVOX", None]:
        s = Sampler()
        s.effect = "previous"
        s.load_chunk(make_chunk(0x10A, payload))
        ok(s.effect is None, "unreadable effect payload %r" % payload)
    s = Sampler()
    raises(TypeError, lambda: s.load_chunk(make_chunk(0x10A, 5.5)), "effect payload not bytes")
    ok(s.effect is None, "effect stays unset")
    # chunk number None
    s = Sampler()
    raises(TypeError, lambda: s.load_chunk(make_chunk(None, b"")), "chnm None")


# ------------------------------------------------------------- chunk order
def chnm_sequence(pairs):
    return [struct.unpack("<I", v)[0] for t, v in pairs if t == b"CHNM"]


def check_chunk_order():
    for with_effect in (False, True):
        s = random_sampler([3, 1, 100])
        s.record_in_mono = True
        if with_effect:
            s.effect = Synth(m.Reverb())
        pairs = list(s.specialized_iff_chunks())
        want = [0, 3, 4, 7, 8, 201, 202, 0x101, 0x102, 0x103, 0x104, 0x105, 0x106, 0x107, 0x108]
        if with_effect:
            want.append(0x10A)
        ok(chnm_sequence(pairs) == want, "chunk order effect=%r" % with_effect)
        ok(all(type(t) is bytes and type(v) is bytes for t, v in pairs), "bytes pairs")
        ok(pairs[:2] == list(s.global_config_chunks()), "record first")
        ok(pairs[2:20] == list(s.sample_data_chunks()), "samples next")
        tail = 2 if with_effect else 0
        envs = [s.volume_envelope, s.panning_envelope, s.pitch_envelope] + s.effect_control_envelopes
        want_env = [p for env in envs for p in env.chunks()]
        ok(pairs[22 : 22 + 14] == want_env, "envelopes in order")
        ok(len(pairs) == 36 + tail, "nothing else")
        ok(pairs[20][1] == struct.pack("<I", 0x101) and pairs[21][0] == b"CHDT", "options")
        ok(pairs[21][1][1] == 1, "record_in_mono stored in option byte 1")
        if with_effect:
            f = BytesIO()
            s.effect.write_to(f)
            ok(pairs[-2] == (b"CHNM", b"\x0a\x01\0\0"), "effect chunk number")
            ok(pairs[-1] == (b"CHDT", f.getvalue()), "effect payload")
            ok(type(read_sunvox_file(BytesIO(pairs[-1][1])).module) is m.Reverb, "payload loads")
    # the list of effect envelopes is indexed 0..3 before anything is produced
    s = random_sampler([])
    s.effect_control_envelopes = s.effect_control_envelopes[:3]
    gen = s.specialized_iff_chunks()
    raises(IndexError, lambda: next(gen), "three effect envelopes")
    s = random_sampler([])
    s.effect_control_envelopes.append(s.EffectControlEnvelope(0x109))
    ok(chnm_sequence(s.specialized_iff_chunks())[-1] == 0x108, "fifth envelope not written")
    # legacy replay: raw chunks come back verbatim, including CHFF / CHFR
    s = Sampler()
    s.is_legacy = True
    s.legacy_chunks = [make_chunk(0, b"abc", 3, 8000), make_chunk(7, b"", 0, 1), make_chunk(0x102, b"zz")]
    s.effect = Synth(m.Reverb())
    want = []
    for c in s.legacy_chunks:
        want += [(b"CHNM", struct.pack("<I", c.chnm)), (b"CHDT", c.chdt),
                 (b"CHFF", struct.pack("<I", c.chff)), (b"CHFR", struct.pack("<I", c.chfr))]
    ok(list(s.specialized_iff_chunks()) == want, "legacy replay only")
    s.legacy_chunks = []
    ok(list(s.specialized_iff_chunks()) == [], "legacy with nothing to replay")
    # sample_data_chunks
    s = random_sampler([127, 0])
    got = list(s.sample_data_chunks())
    ok(got == list(s.sample_chunks(0, s.samples[0])) + list(s.sample_chunks(127, s.samples[127])), "sample order")
    ok(list(random_sampler([]).sample_data_chunks()) == [], "no samples")


# -------------------------------------------------------------- round trips
def full_state(s):
    envs = [s.volume_envelope, s.panning_envelope, s.pitch_envelope] + s.effect_control_envelopes
    return (
        record_state(s)[:2],
        [
            None if x is None else (x.data, x.format, x.channels, x.rate, x.name)
            for x in s.samples
        ],
        [
            (e.points, e.enable, e.sustain, e.loop, e.sustain_point, e.loop_start_point,
             e.loop_end_point, e.ctl_index, e.gain_pct, e.velocity)
            for e in envs
        ],
        None if s.effect is None else type(s.effect.module),
    )


def drop_chunks(raw, numbers):
    """Rewrite a .sunsynth byte string without the given module chunks."""
    out = BytesIO()
    f = BytesIO(raw)
    skipping = False
    while True:
        head = f.read(8)
        if len(head) < 8:
            break
        tag, size = head[:4], struct.unpack("<I", head[4:])[0]
        body = f.read(size)
        if tag == b"CHNM":
            skipping = struct.unpack("<I", body)[0] in numbers
        elif tag not in (b"CHDT", b"CHFF", b"CHFR"):
            skipping = False
        if not skipping:
            out.write(head + body)
    return out.getvalue()


def check_round_trips():
    for _ in range(25):
        s = random_sampler()
        for x in s.samples:
            if x is not None:
                x.name = b"smp"
        s.instrument_name = s.instrument_name[:22].rstrip(b"\0")
        if rng.random() < 0.5:
            s.effect = Synth(m.Reverb())
        c = s.clone()
        ok(full_state(c) == full_state(s), "clone")
        ok(c.is_legacy is False and c.legacy_chunks is None, "clone is current layout")
        ok(list(c.specialized_iff_chunks()) == list(s.specialized_iff_chunks()), "same chunks")
    fixture = read_sunvox_file("tests/files/sampler.sunsynth").module
    ok(fixture.is_legacy is False, "fixture layout")
    f = BytesIO()
    Synth(fixture).write_to(f)
    raw = f.getvalue()
    again = read_sunvox_file(BytesIO(raw)).module
    ok(full_state(again) == full_state(fixture), "fixture rewrite")
    f2 = BytesIO()
    Synth(again).write_to(f2)
    ok(f2.getvalue() == raw, "rewrite is stable")
    # pre-envelope variant: same file without chunks 0x102..0x108
    old = read_sunvox_file(BytesIO(drop_chunks(raw, set(range(0x102, 0x109))))).module
    ok(old.volume_envelope.points == [(0, 32768), (33, 9728), (98, 14848), (133, 4096), (256, 0)], "old vol")
    ok(old.panning_envelope.points == [(0, 0), (36, -4096), (68, 4096), (115, 9728)], "old pan")
    ok(old.pitch_envelope.points == [(0, 0), (0x40, 0)], "old pitch default")
    ok(full_state(old)[1] == full_state(fixture)[1], "old samples")
    ok(dict(old.note_samples) == dict(fixture.note_samples), "old note map")
    ok(type(old.effect.module) is type(fixture.effect.module), "old effect")
    # variant with a foreign signature: replayed chunk for chunk
    pairs = list(fixture.specialized_iff_chunks())
    record = bytearray(pairs[1][1])
    record[0xFC:0x100] = b"OLD!"
    s = Sampler()
    raw_chunks = [make_chunk(0, bytes(record)), make_chunk(1, pairs[3][1]),
                  make_chunk(2, fixture.samples[0].data, 2, 44100), make_chunk(0x102, pairs[23][1])]
    for c in raw_chunks:
        s.load_chunk(c)
    s.finalize_load()
    ok(s.is_legacy is True and s.legacy_chunks == raw_chunks, "foreign layout kept raw")
    ok(s.samples[0].data == fixture.samples[0].data, "but still decoded")
    replay = list(s.specialized_iff_chunks())
    ok(chnm_sequence(replay) == [0, 1, 2, 0x102], "replayed numbers")
    ok(replay[1] == (b"CHDT", bytes(record)), "replayed record")


check_record_writer()
check_record_reader()
check_routing()
check_chunk_order()
check_round_trips()
print("PASS (%d checks)" % checks)
