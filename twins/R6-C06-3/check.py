"""C06 check: edits made to a loaded object are what gets saved.

Standalone script.  Run from the repository root:

    PYTHONPATH=<root>/src/python python check.py

It exercises the Sampler / Module / MetaModule / Project / Synth writers and
loaders (the anchors of property C06) over the fixture files, over hand-built
objects and over hand-crafted byte streams, and compares everything that is
written against digests recorded on the reference tree.  It prints PASS and
exits 0 when behaviour is as expected.

Focus of this copy (refactoring C06-3, robustness and readability): the generic
writers -- `Module.iff_chunks`/`options_chunks`/`load_options`, `Synth.chunks`,
`Project.chunks`, `MetaModule.specialized_iff_chunks` -- and the Sampler legacy
replay branch and legacy detection; see sections 4, 5 and 7.
"""

import glob
import hashlib
import logging
import os
import struct
import sys
from io import BytesIO

from rv.api import NOTE, Pattern, Project, Synth, m, read_sunvox_file
from rv.errors import EmptySynthError
from rv.lib.iff import chunks as iff_chunks
from rv.lib.iff import write_chunk
from rv.modules.module import Module
from rv.modules.sampler import Sampler

logging.disable(logging.CRITICAL)

ROOT = os.getcwd()
FILES = os.path.join(ROOT, "tests", "files")
SAMPLER_FILE = os.path.join(FILES, "sampler.sunsynth")

FAILURES = []
DIGEST = hashlib.sha256()
COUNTS = {"checks": 0, "blobs": 0}


def check(cond, message):
    COUNTS["checks"] += 1
    if not cond:
        FAILURES.append(message)


def record(label, data):
    """Fold a serialized blob into the golden digest."""
    COUNTS["blobs"] += 1
    DIGEST.update(label.encode("utf8"))
    DIGEST.update(struct.pack("<I", len(data)))
    DIGEST.update(bytes(data))


def dump(obj):
    f = BytesIO()
    obj.write_to(f)
    return f.getvalue()


def load(data):
    return read_sunvox_file(BytesIO(data))


# --------------------------------------------------------------------------
# snapshots of everything that is serialized
# --------------------------------------------------------------------------


def envelope_snapshot(env):
    return {
        "chnm": env.chnm,
        "points": [tuple(p) for p in env.points],
        "sustain_point": env.sustain_point,
        "loop_start_point": env.loop_start_point,
        "loop_end_point": env.loop_end_point,
        "enable": bool(env.enable),
        "sustain": bool(env.sustain),
        "loop": bool(env.loop),
        "ctl_index": env.ctl_index,
        "gain_pct": env.gain_pct,
        "velocity": env.velocity,
    }


def sample_snapshot(sample):
    if sample is None:
        return None
    return {
        "data": bytes(sample.data),
        "loop_start": sample.loop_start,
        "loop_len": sample.loop_len,
        "volume": sample.volume,
        "finetune": sample.finetune,
        "format": sample.format,
        "channels": sample.channels,
        "rate": sample.rate,
        "loop_type": sample.loop_type,
        "loop_sustain": bool(sample.loop_sustain),
        "panning": sample.panning,
        "relative_note": sample.relative_note,
        "reserved2": sample.reserved2,
        "name": bytes(sample.name),
        "start_pos": sample.start_pos,
    }


def module_snapshot(mod, in_project):
    if mod is None:
        return None
    snap = {
        "class": type(mod).__name__,
        "name": mod.name,
        "flags": mod.flags,
        "mod_finetune": mod.mod_finetune,
        "mod_relative_note": mod.mod_relative_note,
        "mod_scale": mod.mod_scale,
        "color": tuple(mod.color),
        "midi_in_always": bool(mod.midi_in_always),
        "midi_in_channel": mod.midi_in_channel,
        "midi_out_name": mod.midi_out_name or None,
        "midi_out_channel": mod.midi_out_channel,
        "midi_out_bank": mod.midi_out_bank,
        "midi_out_program": mod.midi_out_program,
        "controllers": {
            name: mod.get_raw(name)
            for name, ctl in mod.controllers.items()
            if ctl.attached(mod)
        },
        "options": dict(mod.option_values),
    }
    if in_project:
        snap.update(
            x=mod.x,
            y=mod.y,
            layer=mod.layer,
            visualization=int(mod.visualization),
            in_links=list(mod.in_links),
            in_link_slots=list(mod.in_link_slots),
        )
    if isinstance(mod, Sampler):
        snap["sampler"] = {
            "is_legacy": bool(mod.is_legacy),
            "volume_envelope": envelope_snapshot(mod.volume_envelope),
            "panning_envelope": envelope_snapshot(mod.panning_envelope),
            "pitch_envelope": envelope_snapshot(mod.pitch_envelope),
            "effect_control_envelopes": [
                envelope_snapshot(e) for e in mod.effect_control_envelopes
            ],
            "note_samples": mod.note_samples.bytes,
            "samples": [sample_snapshot(s) for s in mod.samples],
            "instrument_name": mod.instrument_name,
            "version": mod.version,
            "max_version": mod.max_version,
            "unused": (
                mod.unused1,
                mod.unused2,
                mod.unused3,
                mod.unused4,
                mod.unused5,
                mod.unused6,
            ),
            "volume_old": mod.volume_old,
            "ins_finetune": mod.ins_finetune,
            "ins_relative_note": mod.ins_relative_note,
            "editor_cursor": mod.editor_cursor,
            "editor_selected_size": mod.editor_selected_size,
            "vibrato_type": mod.vibrato_type,
            "vibrato_attack": mod.vibrato_attack,
            "vibrato_depth": mod.vibrato_depth,
            "vibrato_rate": mod.vibrato_rate,
            "volume_fadeout": mod.volume_fadeout,
            "effect": container_snapshot(mod.effect) if mod.effect else None,
        }
    if type(mod).__name__ == "MetaModule":
        snap["metamodule"] = {
            "mappings": [(x.module, x.controller) for x in mod.mappings.values],
            "labels": [c.label if c.attached(mod) else None for c in mod.user_defined],
            "project": container_snapshot(mod.project),
        }
    return snap


PROJECT_FIELDS = [
    "sunvox_version",
    "based_on_version",
    "flags",
    "initial_bpm",
    "initial_tpl",
    "global_volume",
    "name",
    "time_grid",
    "time_grid2",
    "modules_scale",
    "modules_zoom",
    "modules_x_offset",
    "modules_y_offset",
    "modules_layer_mask",
    "modules_current_layer",
    "timeline_position",
    "restart_position",
    "selected_module",
    "selected_generator",
    "current_pattern",
    "current_track",
    "current_line",
]


def container_snapshot(obj):
    if isinstance(obj, Synth):
        return {
            "kind": "synth",
            "version": tuple(obj.sunsynth_version),
            "module": module_snapshot(obj.module, False),
        }
    snap = {"kind": "project"}
    for name in PROJECT_FIELDS:
        snap[name] = getattr(obj, name)
    snap["sync"] = (int(obj.receive_sync_midi), int(obj.receive_sync_other))
    snap["modules"] = [module_snapshot(mod, True) for mod in obj.modules]
    snap["patterns"] = [
        None if p is None else b"".join(bytes(d) for _, d in p.iff_chunks())
        for p in obj.patterns
    ]
    return snap


def diff(a, b, path=""):
    """Yield the paths at which two snapshots differ."""
    if isinstance(a, dict) and isinstance(b, dict):
        for key in sorted(set(a) | set(b), key=str):
            if key not in a or key not in b:
                yield f"{path}/{key}"
            else:
                yield from diff(a[key], b[key], f"{path}/{key}")
    elif isinstance(a, list) and isinstance(b, list) and len(a) == len(b):
        for i, (x, y) in enumerate(zip(a, b)):
            yield from diff(x, y, f"{path}[{i}]")
    elif a != b:
        yield path


# --------------------------------------------------------------------------
# 1. every fixture: load -> save -> load is stable, and bytes are as recorded
# --------------------------------------------------------------------------


def fixture_round_trips():
    names = sorted(
        glob.glob(os.path.join(FILES, "*.sun*"))
        + glob.glob(os.path.join(FILES, "issue*", "*.sun*"))
    )
    check(len(names) >= 50, "expected the fixture files to be present")
    for name in names:
        rel = os.path.relpath(name, FILES)
        first = read_sunvox_file(name)
        data1 = dump(first)
        second = load(data1)
        data2 = dump(second)
        record("fixture:" + rel, data1)
        check(data1 == data2, f"{rel}: second save differs from first save")
        changed = list(diff(container_snapshot(first), container_snapshot(second)))
        check(not changed, f"{rel}: load/save/load changed {changed[:5]}")


# --------------------------------------------------------------------------
# 2. the sampler fixture: edit one attribute, save, load, compare
# --------------------------------------------------------------------------


def _set(path, value):
    def apply(mod):
        target = mod
        *head, last = path
        for part in head:
            target = target[part] if isinstance(part, int) else getattr(target, part)
        if isinstance(last, int):
            target[last] = value
        else:
            setattr(target, last, value)

    apply.label = ".".join(str(p) for p in path) + "=" + repr(value)[:40]
    return apply


def _points(name, points):
    def apply(mod):
        env = mod
        for part in name:
            env = env[part] if isinstance(part, int) else getattr(env, part)
        env.points = list(points)

    apply.label = ".".join(str(p) for p in name) + ".points=" + repr(points)[:40]
    return apply


def _note_map(note, value):
    def apply(mod):
        mod.note_samples[note] = value

    apply.label = f"note_samples[{note.name}]={value}"
    return apply


def _new_sample(slot, fmt, channels, loop_type, sustain, frames):
    def apply(mod):
        sample = Sampler.Sample()
        sample.format = fmt
        sample.channels = channels
        sample.loop_type = loop_type
        sample.loop_sustain = sustain
        sample.data = bytes(
            (i * 7 + slot) % 256 for i in range(frames * sample.frame_size)
        )
        sample.loop_start = 1
        sample.loop_len = max(0, frames - 2)
        sample.volume = 33
        sample.finetune = -17
        sample.panning = -100
        sample.relative_note = -5
        sample.rate = 22050 + slot
        sample.name = b"slot%d" % slot
        sample.start_pos = slot
        mod.samples[slot] = sample

    apply.label = (
        f"samples[{slot}]=new({fmt.name},{channels.name},{loop_type.name},{sustain})"
    )
    return apply


def _drop_sample(slot):
    def apply(mod):
        mod.samples[slot] = None

    apply.label = f"samples[{slot}]=None"
    return apply


def sampler_edits():
    F, C, L = Sampler.Format, Sampler.Channels, Sampler.LoopType
    edits = [
        # common module fields
        _set(["name"], "renamed"),
        _set(["name"], "x" * 40),
        _set(["mod_finetune"], -77),
        _set(["mod_relative_note"], 11),
        _set(["mod_scale"], 300),
        _set(["color"], (1, 2, 3)),
        _set(["midi_in_always"], True),
        _set(["midi_in_channel"], 5),
        _set(["midi_out_name"], "port"),
        _set(["midi_out_channel"], 3),
        _set(["midi_out_bank"], 7),
        _set(["midi_out_program"], 9),
        # controllers
        _set(["volume"], 100),
        _set(["panning"], -64),
        _set(["sample_interpolation"], Sampler.SampleInterpolation.off),
        _set(["envelope_interpolation"], Sampler.EnvelopeInterpolation.linear),
        _set(["polyphony"], 3),
        _set(["rec_threshold"], 1234),
        _set(["tick_length"], 2000),
        # options
        _set(["start_recording_on_project_play"], False),
        _set(["record_in_mono"], False),
        _set(["record_in_16_bit"], False),
        _set(["ignore_velocity_for_volume"], True),
        _set(["fit_to_pattern"], 3),
        # instrument header fields
        _set(["instrument_name"], b"edited"),
        _set(["instrument_name"], b"n" * 30),
        _set(["vibrato_type"], Sampler.VibratoType.saw),
        _set(["vibrato_attack"], 200),
        _set(["vibrato_depth"], 255),
        _set(["vibrato_rate"], 63),
        _set(["volume_fadeout"], 8192),
        _set(["volume_old"], 12),
        _set(["ins_finetune"], -128),
        _set(["ins_relative_note"], 127),
        _set(["editor_cursor"], -3),
        _set(["editor_selected_size"], 99),
        _set(["version"], 5),
        _set(["max_version"], 9),
        _set(["unused1"], 0xDEADBEEF),
        _set(["unused2"], 0xBEEF),
        _set(["unused3"], 1),
        _set(["unused4"], 2),
        _set(["unused5"], 3),
        _set(["unused6"], 4),
        _note_map(NOTE.C0, 2),
        _note_map(NOTE.C4, 1),
        _note_map(NOTE.a9, 2),
        # envelopes
        _points(["volume_envelope"], [(0, 0), (10, 0x8000), (20, 0x4000)]),
        _points(
            ["volume_envelope"], [(i * 3, (i * 0x700) % 0x8001) for i in range(20)]
        ),
        _points(["volume_envelope"], []),
        _points(["panning_envelope"], [(0, -0x4000), (5, 0x4000), (9, 0)]),
        _points(["pitch_envelope"], [(0, -0x4000), (1, 0), (2, 0x4000), (300, 12)]),
        _points(["effect_control_envelopes", 0], [(0, 1), (65535, 0x8000)]),
        _points(["effect_control_envelopes", 3], [(0, 0)]),
        _set(["volume_envelope", "enable"], False),
        _set(["volume_envelope", "sustain"], False),
        _set(["volume_envelope", "loop"], True),
        _set(["volume_envelope", "bitmask"], 5),
        _set(["volume_envelope", "sustain_point"], 2),
        _set(["volume_envelope", "loop_start_point"], 1),
        _set(["volume_envelope", "loop_end_point"], 3),
        _set(["volume_envelope", "ctl_index"], 7),
        _set(["volume_envelope", "gain_pct"], 55),
        _set(["volume_envelope", "velocity"], 1),
        _set(["panning_envelope", "enable"], True),
        _set(["panning_envelope", "bitmask"], 7),
        _set(["panning_envelope", "sustain_point"], 3),
        _set(["pitch_envelope", "loop"], True),
        _set(["pitch_envelope", "gain_pct"], 200),
        _set(["effect_control_envelopes", 1, "enable"], False),
        _set(["effect_control_envelopes", 2, "ctl_index"], 4),
        # samples
        _set(["samples", 0, "volume"], 1),
        _set(["samples", 0, "finetune"], 127),
        _set(["samples", 0, "panning"], 127),
        _set(["samples", 0, "relative_note"], -128),
        _set(["samples", 0, "reserved2"], 17),
        _set(["samples", 0, "name"], b"kick"),
        _set(["samples", 0, "name"], b"k" * 25),
        _set(["samples", 0, "start_pos"], 12),
        _set(["samples", 0, "loop_start"], 2),
        _set(["samples", 0, "loop_len"], 3),
        _set(["samples", 0, "loop_type"], L.ping_pong),
        _set(["samples", 0, "loop_sustain"], False),
        _set(["samples", 0, "rate"], 8000),
        _set(["samples", 0, "data"], b"\x01\x02\x03\x04" * 16),
        _set(["samples", 0, "data"], b""),
        _drop_sample(0),
        _drop_sample(2),
        _set(["effect"], None),
    ]
    slot = 3
    for fmt in (F.int8, F.int16, F.float32):
        for channels in (C.mono, C.stereo):
            for loop_type in (L.off, L.forward, L.ping_pong):
                edits.append(
                    _new_sample(slot, fmt, channels, loop_type, slot % 2 == 0, slot)
                )
                slot += 7
    edits.append(_new_sample(127, F.int16, C.stereo, L.forward, True, 5))
    return edits


def _clip_names(snapshot):
    """Names longer than their on-disk field are cut when saving."""
    mod = snapshot["module"]
    mod["name"] = mod["name"][:32]
    sampler = mod["sampler"]
    sampler["instrument_name"] = sampler["instrument_name"][:22]
    for sample in sampler["samples"]:
        if sample:
            sample["name"] = sample["name"][:22]
    return snapshot


def sampler_edit_round_trips():
    pristine = container_snapshot(read_sunvox_file(SAMPLER_FILE))
    for edit in sampler_edits():
        synth = read_sunvox_file(SAMPLER_FILE)
        mod = synth.module
        check(mod.is_legacy is False, "fixture sampler must not be legacy")
        check(mod.legacy_chunks is None, "fixture sampler keeps no raw chunks")
        edit(mod)
        expected = _clip_names(container_snapshot(synth))
        check(expected != pristine, f"edit {edit.label}: the edit changed nothing")
        data = dump(synth)
        record("edit:" + edit.label, data)
        actual = container_snapshot(load(data))
        changed = list(diff(expected, actual))
        check(not changed, f"edit {edit.label}: reloaded differs at {changed[:5]}")
        # saving must not alter the in-memory object, and is repeatable
        again = _clip_names(container_snapshot(synth))
        check(again == expected, f"edit {edit.label}: saving mutated the object")
        check(dump(synth) == data, f"edit {edit.label}: second save differs")


# --------------------------------------------------------------------------
# 3. raw chunk level: what the sampler writers emit
# --------------------------------------------------------------------------


def sampler_chunk_layout():
    synth = read_sunvox_file(SAMPLER_FILE)
    mod = synth.module
    out = list(mod.specialized_iff_chunks())
    names = [name for name, _ in out]
    check(all(isinstance(d, bytes) for _, d in out), "chunk payloads must be bytes")
    check(names[0:2] == [b"CHNM", b"CHDT"], "starts with instrument chunk")
    header = out[1][1]
    check(len(header) == 0x190, f"instrument header is {len(header):#x} bytes")
    check(header[0xFC:0x100] == Sampler.INS_SIGN, "signature at $fc")
    check(
        struct.unpack("<H", header[0x1C:0x1E])[0] == 3,
        "samples_num counts up to the last used slot",
    )
    chnms = [struct.unpack("<I", d)[0] for n, d in out if n == b"CHNM"]
    check(
        chnms
        == [
            0,
            1,
            2,
            3,
            4,
            5,
            6,
            0x101,
            0x102,
            0x103,
            0x104,
            0x105,
            0x106,
            0x107,
            0x108,
            0x10A,
        ],
        f"chunk numbering {chnms}",
    )
    for name, data in out:
        record("layout:" + name.decode(), data)
    # envelope chunk layout
    env = mod.volume_envelope
    env.points = [(1, 2), (3, 0x8000)]
    env.bitmask = 6
    env.ctl_index, env.gain_pct, env.velocity = 9, 8, 1
    env.sustain_point, env.loop_start_point, env.loop_end_point = 1, 0, 1
    (n1, d1), (n2, d2) = list(env.chunks())
    check((n1, d1) == (b"CHNM", b"\x02\x01\0\0"), "envelope CHNM")
    check(
        d2
        == bytes.fromhex(
            "0600 09 08 01 000000 0200 0100 0000 0100 00000000 0100 0200 0300 0080"
        ),
        "envelope CHDT layout",
    )
    pan = mod.panning_envelope
    pan.points = [(0, -0x4000), (7, 0x4000)]
    d = list(pan.chunks())[1][1]
    check(d[0x14:] == bytes.fromhex("0000 0000 0700 0080"), "panning points are offset")
    check(
        len(env.point_bytes) == 48 and len(pan.point_bytes) == 48,
        "point_bytes is 48 bytes",
    )
    check(
        env.point_bytes[:8] == bytes.fromhex("0100 0000 0300 4000"),
        "legacy point table scales y by 0x200",
    )
    check(
        pan.point_bytes[:8] == bytes.fromhex("0000 0000 0700 4000"),
        "legacy panning table is offset",
    )
    env.points = [(i, i * 0x200) for i in range(15)]
    check(len(env.point_bytes) == 48, "legacy table is clipped to 12 points")
    check(env.point_bytes[44:48] == bytes.fromhex("0b00 0b00"), "12th legacy point")
    check(env._x_values == list(range(12)), "_x_values clipped")
    env.points = []
    check(env.point_bytes == b"\0" * 48, "empty legacy table")
    check(env._x_values == [0] * 12 and env._y_values == [0] * 12, "padded values")
    # frame sizes
    sample = Sampler.Sample()
    sizes = {}
    for fmt in Sampler.Format:
        for ch in Sampler.Channels:
            sample.format, sample.channels = fmt, ch
            sample.data = b"\0" * 48
            sizes[(fmt.name, ch.name)] = (sample.frame_size, sample.frames)
    check(
        sizes
        == {
            ("int8", "mono"): (1, 48),
            ("int8", "stereo"): (2, 24),
            ("int16", "mono"): (2, 24),
            ("int16", "stereo"): (4, 12),
            ("float32", "mono"): (4, 12),
            ("float32", "stereo"): (8, 6),
        },
        f"frame sizes {sizes}",
    )
    # note map
    nsm = Sampler.NoteSampleMap()
    check(len(nsm) == 119 and nsm.bytes == b"\0" * 119, "note map default")
    nsm.bytes = bytes(range(1, 120))
    check(nsm[NOTE.C0] == 1 and nsm[NOTE.a9] == 119, "note map assignment")


def sampler_writer_edge_cases():
    def header_of(mod):
        out = list(mod.global_config_chunks())
        check(out[0] == (b"CHNM", b"\0\0\0\0"), "instrument CHNM")
        check(type(out[1][1]) is bytes and len(out[1][1]) == 0x190, "instrument CHDT")
        return out[1][1]

    # samples_num follows the last used slot
    mod = Sampler()
    check(header_of(mod)[0x1C:0x1E] == b"\0\0", "no samples")
    for slot, expect in ((0, 1), (5, 6), (127, 128)):
        mod = Sampler()
        mod.samples[slot] = Sampler.Sample()
        check(
            struct.unpack("<H", header_of(mod)[0x1C:0x1E])[0] == expect,
            f"samples_num with slot {slot}",
        )
        check(
            mod.samples.count(None) == 127 and len(mod.samples) == 128,
            "samples untouched",
        )
    mod = Sampler()
    mod.samples[3] = Sampler.Sample()
    mod.samples[9] = Sampler.Sample()
    mod.samples[9] = None
    check(struct.unpack("<H", header_of(mod)[0x1C:0x1E])[0] == 4, "cleared slot")
    # a fresh sampler writes the documented defaults
    mod = Sampler()
    header = header_of(mod)
    record("fresh-header", header)
    check(
        header[0x24:0x84] == b"\0" * 96 and header[0x104:0x184] == b"\0" * 128,
        "note tables",
    )
    check(
        header[0xE4:0xEE] == bytes([4, 4, 0, 0, 0, 0, 0, 0, 3, 0]),
        "old envelope bookkeeping",
    )
    check(
        header[0x100:0x104] == b"\x06\0\0\0" and header[0x184:0x188] == b"\x06\0\0\0",
        "versions",
    )
    # live attributes are read at the moment of writing
    mod.note_samples[NOTE.C0] = 7
    mod.note_samples[NOTE.a9] = 9
    mod.volume_envelope.points = [(i, 0x200 * i) for i in range(255)]
    mod.panning_envelope.points = []
    header = header_of(mod)
    check(
        header[0x24] == 7 and header[0x104] == 7 and header[0x104 + 118] == 9,
        "note tables follow the map",
    )
    check(header[0x104 + 119 : 0x184] == b"\0" * 9, "note table padding")
    check(header[0xE4] == 255 and header[0xE5] == 0, "point counts")
    check(
        header[0x84:0x88] == b"\0\0\0\0" and header[0x88:0x8C] == b"\x01\0\x01\0",
        "old volume table",
    )
    check(
        header[0xB4:0xE4] == struct.pack("<24H", *([0, 32] * 12)),
        "old panning table of an empty envelope is centred",
    )
    # sample records
    smp = Sampler.Sample()
    smp.data = b"\1" * 24
    smp.name = b"abc"
    F, C, L = Sampler.Format, Sampler.Channels, Sampler.LoopType
    for fmt, ch, loop, sus, flags, frames in (
        (F.int8, C.mono, L.off, False, 0x00, 24),
        (F.int8, C.stereo, L.forward, True, 0x45, 12),
        (F.int16, C.mono, L.ping_pong, False, 0x12, 12),
        (F.int16, C.stereo, L.off, True, 0x54, 6),
        (F.float32, C.mono, L.forward, False, 0x21, 6),
        (F.float32, C.stereo, L.ping_pong, True, 0x66, 3),
    ):
        smp.format, smp.channels, smp.loop_type, smp.loop_sustain = fmt, ch, loop, sus
        out = list(Sampler().sample_chunks(10, smp))
        check(
            [n for n, _ in out]
            == [b"CHNM", b"CHDT", b"CHNM", b"CHDT", b"CHFF", b"CHFR"],
            "sample chunk names",
        )
        check(
            out[0][1] == b"\x15\0\0\0" and out[2][1] == b"\x16\0\0\0",
            "sample chunk numbers",
        )
        meta = out[1][1]
        check(
            type(meta) is bytes and len(meta) == 0x2C, f"sample record size {len(meta)}"
        )
        check(
            struct.unpack("<I", meta[:4])[0] == frames, f"frames {fmt.name}/{ch.name}"
        )
        check(meta[0x0E] == flags, f"type byte {meta[0x0E]:#x} != {flags:#x}")
        check(
            meta[0x0F] == 0x80 and meta[0x12:0x28] == b"abc" + b"\0" * 19,
            "panning / name",
        )
        check(out[3][1] is smp.data, "sample data is passed through")
        check(out[4][1] == struct.pack("<I", fmt.value | ch.value), "CHFF")
        check(out[5][1] == struct.pack("<I", 44100), "CHFR")
        record(f"sample-record:{fmt.name}:{ch.name}", meta)


def raises(exc, fn, label):
    try:
        fn()
    except exc:
        check(True, label)
    except Exception as e:  # noqa
        check(False, f"{label}: raised {type(e).__name__} instead of {exc.__name__}")
    else:
        check(False, f"{label}: did not raise")


def sampler_error_behaviour():
    def fresh():
        return read_sunvox_file(SAMPLER_FILE)

    s = fresh()
    s.module.volume_envelope.sustain_point = 70000
    raises(struct.error, lambda: dump(s), "oversized sustain point")
    s = fresh()
    s.module.volume_envelope.points = [(70000, 0)]
    raises(struct.error, lambda: dump(s), "oversized envelope x")
    s = fresh()
    s.module.volume_envelope.points = [(0, -1)]
    raises(struct.error, lambda: dump(s), "negative envelope y")
    s = fresh()
    s.module.samples[0].format = None
    raises(KeyError, lambda: dump(s), "unknown sample format")
    s = fresh()
    s.module.samples[0].channels = 3
    raises(KeyError, lambda: dump(s), "unknown sample channels")
    s = fresh()
    s.module.samples[0].volume = 256
    raises(struct.error, lambda: dump(s), "oversized sample volume")
    s = fresh()
    s.module.samples[0].panning = 128
    raises(struct.error, lambda: dump(s), "oversized sample panning")
    s = fresh()
    s.module.ins_finetune = 128
    raises(struct.error, lambda: dump(s), "oversized instrument finetune")
    s = fresh()
    s.module.unused2 = -1
    raises(struct.error, lambda: dump(s), "negative unused2")
    s = fresh()
    s.module.note_samples[NOTE.C1] = 256
    raises(ValueError, lambda: dump(s), "oversized note map entry")
    s = fresh()
    s.module.instrument_name = "text"
    raises(TypeError, lambda: dump(s), "str instrument name")
    s = fresh()
    s.module.volume_envelope.points = [(i, 0) for i in range(256)]
    raises(struct.error, lambda: dump(s), "more than 255 envelope points")
    s = fresh()
    s.module.volume_envelope.points = [(0, 0, 0)]
    raises(ValueError, lambda: dump(s), "malformed envelope point")
    s = fresh()
    s.module.samples[0].name = "text"
    raises(TypeError, lambda: dump(s), "str sample name")
    s = fresh()
    s.module.samples[0].loop_type = 1
    raises(AttributeError, lambda: dump(s), "plain int loop type")
    raises(EmptySynthError, lambda: dump(Synth()), "empty synth")
    raises(RuntimeError, lambda: list(Module().iff_chunks()), "base module")


# --------------------------------------------------------------------------
# 4. hand-crafted streams: legacy replay, short header, missing envelopes
# --------------------------------------------------------------------------


def rebuild(raw, transform):
    """Rewrite the chunk list of a file through `transform`."""
    items = list(iff_chunks(BytesIO(raw)))
    out = BytesIO()
    for name, data in transform(items):
        write_chunk(out, name, data)
    return out.getvalue()


def with_instrument(fn):
    """Transform that applies fn to the CHDT following the first CHNM 0."""

    def transform(items):
        done = False
        pending = False
        for name, data in items:
            if not done and name == b"CHNM" and data == b"\0\0\0\0":
                pending = True
            elif pending and name == b"CHDT":
                data = fn(data)
                pending = False
                done = True
            yield name, data

    return transform


def drop_chnms(numbers):
    def transform(items):
        skipping = False
        for name, data in items:
            if name == b"CHNM":
                skipping = struct.unpack("<I", data)[0] in numbers
            elif name not in (b"CHDT", b"CHFF", b"CHFR"):
                skipping = False
            if not skipping:
                yield name, data

    return transform


def crafted_streams():
    with open(SAMPLER_FILE, "rb") as f:
        raw = f.read()

    def edit_everything(mod):
        mod.instrument_name = b"changed"
        mod.volume_envelope.points = [(0, 0), (9, 0x8000)]
        mod.volume_envelope.loop = True
        mod.samples[0].volume = 5
        mod.vibrato_depth = 9
        mod.volume = 77
        mod.record_in_mono = True

    # (a) bad signature -> legacy: raw chunks are replayed
    bad_sign = rebuild(raw, with_instrument(lambda d: d[:0xFC] + b"XXXX" + d[0x100:]))
    # (b) over-long header -> legacy
    long_header = rebuild(raw, with_instrument(lambda d: d + b"\0" * 4))
    for label, data in (("bad-sign", bad_sign), ("long-header", long_header)):
        synth = load(data)
        mod = synth.module
        check(mod.is_legacy is True, f"{label}: must be flagged legacy")
        check(
            isinstance(mod.legacy_chunks, list) and len(mod.legacy_chunks) == 16,
            f"{label}: raw chunks are kept",
        )
        saved = dump(synth)
        record("legacy:" + label, saved)
        kept = (b"CHNK", b"CHNM", b"CHDT")
        before = [c for c in iff_chunks(BytesIO(data)) if c[0] in kept]
        after = [c for c in iff_chunks(BytesIO(saved)) if c[0] in kept]
        check(before == after, f"{label}: CH* chunks are replayed verbatim")
        edit_everything(mod)
        saved2 = dump(synth)
        record("legacy-edited:" + label, saved2)
        after2 = [c for c in iff_chunks(BytesIO(saved2)) if c[0] in kept]
        check(after2 == before, f"{label}: replay ignores chunk-level edits")
        reloaded = load(saved2).module
        check(reloaded.volume == 77, f"{label}: controller edits are still saved")
        check(reloaded.is_legacy is True, f"{label}: stays legacy")
    # (c) header exactly 0x190 long and one byte shorter variants
    for cut, label in (
        (0x190, "full"),
        (0x18C, "no-selected-size"),
        (0x188, "no-cursor"),
        (0x184, "no-max-version"),
    ):
        data = rebuild(raw, with_instrument(lambda d, cut=cut: d[:cut]))
        synth = load(data)
        mod = synth.module
        check(
            mod.is_legacy is False and mod.legacy_chunks is None, f"{label}: not legacy"
        )
        check(
            (mod.max_version, mod.editor_cursor, mod.editor_selected_size)
            == {
                "full": (6, 3, 0),
                "no-selected-size": (6, 3, 0),
                "no-cursor": (6, 0, 0),
                "no-max-version": (6, 0, 0),
            }[label],
            f"{label}: defaults {mod.max_version, mod.editor_cursor, mod.editor_selected_size}",
        )
        edit_everything(mod)
        saved = dump(synth)
        record("short:" + label, saved)
        m2 = load(saved).module
        check(
            m2.instrument_name == b"changed"
            and m2.volume_envelope.points == [(0, 0), (9, 0x8000)]
            and m2.volume_envelope.loop is True
            and m2.samples[0].volume == 5
            and m2.vibrato_depth == 9
            and m2.volume == 77
            and m2.record_in_mono is True,
            f"{label}: edits are saved",
        )
    # (d) truncated header: reader runs out of data
    data = rebuild(raw, with_instrument(lambda d: d[:0x95]))
    try:
        load(data)
    except RuntimeError as e:
        check(str(e) == "default not provided", "truncated header message")
    else:
        check(False, "truncated header must raise RuntimeError")

    # (e) no envelope chunks: legacy envelope fields are upgraded
    def legacy_env(d):
        d = bytearray(d)
        vol_pts = struct.pack("<24H", *([0, 64, 10, 32, 20, 0] + [0] * 18))
        pan_pts = struct.pack("<24H", *([0, 32, 5, 0, 9, 64, 30, 32] + [0] * 16))
        d[0x84 : 0x84 + 48] = vol_pts
        d[0xB4 : 0xB4 + 48] = pan_pts
        d[0xE4:0xEE] = bytes([3, 4, 1, 0, 2, 2, 1, 3, 0b011, 0b101])
        return bytes(d)

    data = rebuild(
        rebuild(raw, drop_chnms({0x102, 0x103, 0x104, 0x105, 0x106, 0x107, 0x108})),
        with_instrument(legacy_env),
    )
    synth = load(data)
    mod = synth.module
    vol, pan = mod.volume_envelope, mod.panning_envelope
    check(vol.loaded is False and pan.loaded is False, "no envelope chunk was loaded")
    check(
        vol.points == [(0, 0x8000), (10, 0x4000), (20, 0)],
        f"upgraded volume points {vol.points}",
    )
    check(
        pan.points == [(0, 0), (5, -0x4000), (9, 0x4000), (30, 0)],
        f"upgraded panning points {pan.points}",
    )
    check(
        (vol.enable, vol.sustain, vol.loop) == (True, True, False),
        "upgraded volume flags",
    )
    check(
        (pan.enable, pan.sustain, pan.loop) == (True, False, True),
        "upgraded panning flags",
    )
    check(
        (vol.sustain_point, vol.loop_start_point, vol.loop_end_point) == (1, 0, 2),
        "upgraded volume markers",
    )
    check(
        (pan.sustain_point, pan.loop_start_point, pan.loop_end_point) == (2, 1, 3),
        "upgraded panning markers",
    )
    check(mod.is_legacy is False, "upgraded instrument is not legacy")
    saved = dump(synth)
    record("upgraded", saved)
    again = load(saved).module
    check(
        again.volume_envelope.loaded is True,
        "envelope chunks are written after upgrade",
    )
    changed = list(diff(module_snapshot(mod, False), module_snapshot(again, False)))
    check(not changed, f"upgraded round trip differs at {changed[:5]}")

    # (f) sample type flags decode
    def set_type(value):
        def fn(items):
            seen = False
            for name, data in items:
                if name == b"CHNM" and data == b"\x01\0\0\0":
                    seen = True
                elif seen and name == b"CHDT":
                    data = data[:0x0E] + bytes([value]) + data[0x0F:]
                    seen = False
                yield name, data

        return fn

    L, F, C = Sampler.LoopType, Sampler.Format, Sampler.Channels
    for value, expect in (
        (0x00, (L.off, False)),
        (0x01, (L.forward, False)),
        (0x02, (L.ping_pong, False)),
        (0x05, (L.forward, True)),
        (0x16, (L.ping_pong, True)),
        (0x61, (L.forward, False)),
        (0x80, (L.off, False)),
    ):
        smp = load(rebuild(raw, set_type(value))).module.samples[0]
        check(
            (smp.loop_type, smp.loop_sustain) == expect,
            f"type byte {value:#x}: {smp.loop_type, smp.loop_sustain}",
        )
    try:
        load(rebuild(raw, set_type(0x03)))
    except ValueError:
        check(True, "loop type 3")
    else:
        check(False, "loop type 3 must be rejected")


# --------------------------------------------------------------------------
# 5. hand-built project with samplers, a metamodule and patterns
# --------------------------------------------------------------------------


def build_project():
    project = Project()
    project.name = "C06 check"
    project.initial_bpm = 140
    project.initial_tpl = 3
    project.global_volume = 123
    project.time_grid, project.time_grid2 = 8, 3
    project.modules_x_offset, project.modules_y_offset = -40, 17
    project.modules_layer_mask = 5
    project.modules_current_layer = 2
    project.timeline_position = 12
    project.restart_position = -1
    project.selected_module = 1
    project.selected_generator = 2
    project.current_pattern, project.current_track, project.current_line = 1, 2, 3
    project.receive_sync_midi = 3
    project.receive_sync_other = 5
    sampler = project.new_module(m.Sampler, name="smp", x=100, y=200, layer=1)
    sample = Sampler.Sample()
    sample.format = Sampler.Format.int16
    sample.channels = Sampler.Channels.mono
    sample.data = struct.pack("<8h", *range(-4, 4))
    sample.loop_type = Sampler.LoopType.forward
    sampler.samples[1] = sample
    sampler.note_samples[NOTE.C5] = 1
    sampler.effect = Synth(m.Filter(freq=1000))
    sampler.effect_control_envelopes[0].enable = True
    gen = project.new_module(m.AnalogGenerator, name="gen", color=(9, 8, 7))
    amp = project.new_module(m.Amplifier, volume=300, midi_out_name="dev")
    inner = Project()
    inner_gen = inner.new_module(m.Generator, volume=90)
    inner_smp = inner.new_module(m.Sampler)
    inner.output << inner_gen
    inner.output << inner_smp
    meta = project.new_module(m.MetaModule, project=inner, name="meta")
    meta.user_defined_controllers = 2
    meta.mappings.values[0] = meta.Mapping((inner_gen.index, 0))
    meta.mappings.values[1] = meta.Mapping((inner_smp.index, 1))
    meta.user_defined[0].label = "Gen volume"
    meta.user_defined[1].label = "Smp pan"
    meta.recompute_controller_attachment()
    meta.update_user_defined_controllers()
    project.output << amp << [sampler, gen]
    amp << meta
    project.output << meta
    amp << ~gen
    pattern = Pattern(tracks=2, lines=4, x=0, y=0, name="p")
    project.attach_pattern(pattern)
    project.attach_pattern(None)
    pattern.data[0][0].note = NOTE.C4
    pattern.data[0][0].module = sampler.index + 1
    return project


def built_project():
    project = build_project()
    data = dump(project)
    record("built-project", data)
    loaded = load(data)
    changed = list(diff(container_snapshot(project), container_snapshot(loaded)))
    check(not changed, f"built project differs after save/load at {changed[:8]}")
    # edit the loaded project at every level, save, load
    loaded.name = "edited"
    loaded.initial_bpm = 99
    loaded.timeline_position = 0
    loaded.restart_position = 0
    loaded.receive_sync_midi = 7
    smp = loaded.modules[1]
    smp.samples[1].data = b"\x00\x01" * 5
    smp.volume_envelope.points = [(0, 5), (4, 6)]
    smp.effect.module.freq = 2222
    smp.x = -5
    smp.visualization = 0x01020304
    meta = loaded.modules[4]
    meta.project.modules[1].volume = 12
    meta.project.modules[2].pitch_envelope.enable = True
    meta.project.name = "inner edited"
    meta.user_defined[0].label = "relabelled"
    loaded.modules[3].volume = 17
    loaded.patterns[0].data[1][1].note = NOTE.D4
    expected = container_snapshot(loaded)
    data2 = dump(loaded)
    record("built-project-edited", data2)
    final = load(data2)
    changed = list(diff(expected, container_snapshot(final)))
    check(not changed, f"edited project differs after save/load at {changed[:8]}")
    check(final.modules[1].effect.module.freq == 2222, "embedded effect edit is saved")
    check(
        final.modules[4].project.modules[1].volume == 12,
        "embedded project edit is saved",
    )
    check(final.modules[4].user_defined[0].label == "relabelled", "label edit is saved")
    names = [n for n, _ in iff_chunks(BytesIO(data2))]
    check(b"TIME" not in names and b"REPS" not in names, "zero positions are omitted")
    check(
        names.count(b"SLnK") == 1,
        f"SLnK is only written when needed ({names.count(b'SLnK')})",
    )
    # synth wrapping of each module
    for mod in project.modules[1:]:
        blob = dump(Synth(mod))
        record("synth:" + mod.name, blob)
        back = load(blob).module
        changed = list(diff(module_snapshot(mod, False), module_snapshot(back, False)))
        check(not changed, f"synth {mod.name} differs after save/load at {changed[:5]}")
        names = [n for n, _ in iff_chunks(BytesIO(blob))]
        check(
            not {b"SXXX", b"SYYY", b"SZZZ", b"SVPR"} & set(names),
            "layout chunks are omitted from synth files",
        )
    # module clone
    clone = project.modules[1].clone()
    changed = list(
        diff(module_snapshot(project.modules[1], False), module_snapshot(clone, False))
    )
    check(not changed, f"clone differs at {changed[:5]}")


def option_round_trips():
    for name in sorted(glob.glob(os.path.join(FILES, "*.sunsynth"))):
        synth = read_sunvox_file(name)
        mod = synth.module
        if not mod.options:
            continue
        rel = os.path.basename(name)
        for opt_name, option in mod.options.items():
            current = mod.option_values[opt_name]
            if option.size == 1:
                new = not current
            else:
                new = (current + 1) % (2**option.size)
                if option.max is not None:
                    new = min(new, option.max)
            fresh = read_sunvox_file(name)
            fresh.module.option_values[opt_name] = new
            expected = dict(fresh.module.option_values)
            blob = dump(fresh)
            record(f"option:{rel}:{opt_name}", blob)
            back = load(blob).module
            check(
                dict(back.option_values) == expected,
                f"{rel}: option {opt_name} edit not saved faithfully",
            )


# --------------------------------------------------------------------------
# 6. loader details: chunk dispatch, sample data flags, options
# --------------------------------------------------------------------------


def after_chnm(number, kind, fn):
    """Transform applying fn to the `kind` chunk following CHNM `number`."""

    def transform(items):
        current = None
        for name, data in items:
            if name == b"CHNM":
                current = struct.unpack("<I", data)[0]
            elif name == kind and current == number:
                data = fn(data)
            yield name, data

    return transform


def append_chunks(extra):
    def transform(items):
        for name, data in items:
            if name == b"SEND":
                yield from extra
            yield name, data

    return transform


def loader_details():
    with open(SAMPLER_FILE, "rb") as f:
        raw = f.read()
    F, C = Sampler.Format, Sampler.Channels
    u32 = lambda v: struct.pack("<I", v)  # noqa
    for chff, expect in (
        (0, (F.int8, C.mono)),
        (1, (F.int8, C.mono)),
        (2, (F.int16, C.mono)),
        (4, (F.float32, C.mono)),
        (9, (F.int8, C.stereo)),
        (10, (F.int16, C.stereo)),
        (12, (F.float32, C.stereo)),
        (0x12, (F.int16, C.mono)),
    ):
        data = rebuild(raw, after_chnm(2, b"CHFF", lambda d, v=chff: u32(v)))
        smp = load(data).module.samples[0]
        check(
            (smp.format, smp.channels) == expect,
            f"CHFF {chff}: {smp.format, smp.channels}",
        )
    raises(
        ValueError,
        lambda: load(rebuild(raw, after_chnm(2, b"CHFF", lambda d: u32(3)))),
        "CHFF 3 is not a sample format",
    )
    smp = load(
        rebuild(raw, after_chnm(2, b"CHFR", lambda d: u32(12345)))
    ).module.samples[0]
    check(smp.rate == 12345, "CHFR sets the sample rate")
    # sample data without a preceding sample record
    raises(
        AttributeError,
        lambda: load(rebuild(raw, drop_chnms({1}))),
        "sample data without sample record",
    )
    # unknown chunk numbers are ignored and not written back
    extra = [
        (b"CHNM", u32(0x109)),
        (b"CHDT", b"junk"),
        (b"CHNM", u32(0x10B)),
        (b"CHDT", b"more junk"),
        (b"CHNM", u32(0x200)),
        (b"CHDT", b""),
    ]
    noisy = rebuild(raw, append_chunks(extra))
    mod = load(noisy).module
    clean = read_sunvox_file(SAMPLER_FILE)
    changed = list(
        diff(module_snapshot(clean.module, False), module_snapshot(mod, False))
    )
    check(not changed, f"unknown chunks changed {changed[:5]}")
    check(dump(load(noisy)) == dump(clean), "unknown chunks are dropped on save")
    # a second envelope chunk replaces the first
    env_data = struct.pack("<HBBB3xHHHH4x", 7, 1, 2, 3, 2, 1, 0, 1) + struct.pack(
        "<4H", 0, 1, 5, 0x8000
    )
    twice = rebuild(raw, append_chunks([(b"CHNM", u32(0x104)), (b"CHDT", env_data)]))
    env = load(twice).module.pitch_envelope
    check(
        envelope_snapshot(env)
        == {
            "chnm": 0x104,
            "points": [(0, -0x3FFF), (5, 0x4000)],
            "sustain_point": 1,
            "loop_start_point": 0,
            "loop_end_point": 1,
            "enable": True,
            "sustain": True,
            "loop": True,
            "ctl_index": 1,
            "gain_pct": 2,
            "velocity": 3,
        },
        f"envelope chunk decode {envelope_snapshot(env)}",
    )
    # direct dispatch on a fresh sampler keeps raw chunks until the header is seen
    from rv.modules import Chunk

    fresh = Sampler()
    check(fresh.is_legacy is None and fresh.legacy_chunks == [], "fresh sampler state")
    chunk = Chunk()
    chunk.chnm, chunk.chdt = 0x102, env_data
    fresh.load_chunk(chunk)
    check(
        fresh.legacy_chunks == [chunk] and fresh.volume_envelope.loaded,
        "chunk kept and loaded",
    )
    check(fresh.volume_envelope.points == [(0, 1), (5, 0x8000)], "volume points decode")
    for number in (0x105, 0x106, 0x107, 0x108):
        chunk = Chunk()
        chunk.chnm, chunk.chdt = number, env_data
        fresh.load_chunk(chunk)
    check(
        [e.loaded for e in fresh.effect_control_envelopes] == [True] * 4
        and len(fresh.legacy_chunks) == 5,
        "effect control envelopes dispatch",
    )
    chunk = Chunk()
    chunk.chnm, chunk.chdt = 0x101, bytes([1, 0, 1])
    fresh.load_chunk(chunk)
    check(
        fresh.option_values["start_recording_on_project_play"] is True
        and fresh.option_values["record_in_mono"] is False
        and fresh.option_values["record_with_reduced_sample_rate"] is True,
        "option chunk dispatch",
    )
    header = list(Sampler().global_config_chunks())[1][1]
    chunk = Chunk()
    chunk.chnm, chunk.chdt = 0, header
    fresh.load_chunk(chunk)
    check(
        fresh.is_legacy is False and fresh.legacy_chunks is None,
        "header settles legacy state",
    )
    chunk = Chunk()
    chunk.chnm, chunk.chdt = 0x103, env_data
    fresh.load_chunk(chunk)
    check(
        fresh.legacy_chunks is None and fresh.panning_envelope.loaded,
        "no raw chunks afterwards",
    )
    fresh.finalize_load()
    check(
        fresh.volume_envelope.points == [(0, 1), (5, 0x8000)],
        "finalize keeps loaded envelopes",
    )
    # legacy header seen first
    legacy = Sampler()
    chunk = Chunk()
    chunk.chnm, chunk.chdt = 0, header[:0xFC] + b"\0\0\0\0" + header[0x100:]
    legacy.load_chunk(chunk)
    check(legacy.is_legacy is True and legacy.legacy_chunks == [chunk], "legacy header")
    legacy.load_chunk(chunk)
    check(
        legacy.is_legacy is True and legacy.legacy_chunks == [chunk, chunk],
        "legacy is sticky",
    )
    legacy.finalize_load()
    check(
        legacy.volume_envelope.points == [(0, 0x8000), (8, 0), (128, 0), (256, 0)],
        f"legacy header upgrade {legacy.volume_envelope.points}",
    )
    check(
        legacy.panning_envelope.points
        == [(0, 0), (64, -0x2000), (128, 0x2000), (180, 0)],
        f"legacy header upgrade {legacy.panning_envelope.points}",
    )
    replay = list(legacy.specialized_iff_chunks())
    check(
        replay
        == [
            (b"CHNM", u32(0)),
            (b"CHDT", chunk.chdt),
            (b"CHFF", u32(0)),
            (b"CHFR", u32(44100)),
        ]
        * 2,
        "legacy replay emits the raw chunks",
    )
    # options: generic loader and writer
    from rv.modules.metamodule import MetaModule

    meta = MetaModule()
    chunk = Chunk()
    chunk.chnm, chunk.chdt = 2, bytes([1, 0, 1, 0, 0, 1])
    meta.load_chunk(chunk)
    loaded_options = dict(meta.option_values)
    out = list(meta.options_chunks())
    check(out[0] == (b"CHNM", u32(2)), "options CHNM")
    check(type(out[1][1]) is bytes, "options CHDT type")
    back = MetaModule()
    chunk2 = Chunk()
    chunk2.chnm, chunk2.chdt = 2, out[1][1]
    back.load_chunk(chunk2)
    check(
        dict(back.option_values) == loaded_options, "options survive writer and loader"
    )
    record("meta-options", out[1][1])
    chunk.chdt = b""
    meta.load_chunk(chunk)
    check(not any(meta.option_values.values()), "empty option chunk clears everything")
    chunk.chdt = b"\xff" * 80
    meta.load_chunk(chunk)
    record("meta-options-ff", list(meta.options_chunks())[1][1])
    # labels
    for payload, expect in (
        (b"abc\0", "abc"),
        (b"abc", "abc"),
        (b"ab\0cd\0", "ab"),
        (b"\0", ""),
    ):
        chunk = Chunk()
        chunk.chnm, chunk.chdt = 8 + 3, payload
        meta.load_chunk(chunk)
        check(meta.user_defined[3].label == expect, f"label {payload!r}")


# --------------------------------------------------------------------------
# 7. generic module / synth / project writers
# --------------------------------------------------------------------------


def generic_writer_details():
    in_project_names = [
        b"SFFF", b"SNAM", b"STYP", b"SFIN", b"SREL", b"SXXX", b"SYYY", b"SZZZ",
        b"SSCL", b"SVPR", b"SCOL", b"SMII", b"SMIC", b"SMIB", b"SMIP",
    ]  # fmt: skip
    loose_names = [
        n for n in in_project_names if n not in (b"SXXX", b"SYYY", b"SZZZ", b"SVPR")
    ]
    amp = m.Amplifier()
    check([n for n, _ in amp.iff_chunks()] == loose_names, "loose module chunk names")
    check(
        [n for n, _ in amp.iff_chunks(in_project=True)] == in_project_names,
        "forced in_project",
    )
    project = Project()
    project.attach_module(amp)
    check(
        [n for n, _ in amp.iff_chunks()] == in_project_names,
        "attached module chunk names",
    )
    check(
        [n for n, _ in amp.iff_chunks(in_project=False)] == loose_names, "forced loose"
    )
    check(
        [n for n, _ in project.output.iff_chunks()][:3] == [b"SFFF", b"SNAM", b"SFIN"],
        "Output has no STYP",
    )
    amp.midi_out_name = "dev"
    names = [n for n, _ in amp.iff_chunks()]
    check(
        names[names.index(b"SMII") + 1] == b"SMIN",
        "SMIN follows SMII when a name is set",
    )
    amp.midi_out_name = ""
    check(
        b"SMIN" not in [n for n, _ in amp.iff_chunks()],
        "empty midi_out_name is skipped",
    )
    amp.name = "\u00e9" * 20 + "z"
    amp.midi_in_always, amp.midi_in_channel = True, 9
    amp.color = [1, 2, 3]
    amp.visualization = 0x0A0B0C0D
    fields = dict(amp.iff_chunks())
    check(fields[b"SNAM"] == ("\u00e9" * 16).encode("utf8"), "name is cut at 32 bytes")
    check(fields[b"SMII"] == struct.pack("<I", 19), "SMII packs flag and channel")
    check(fields[b"SCOL"] == b"\1\2\3", "SCOL")
    check(fields[b"SVPR"] == struct.pack("<I", 0x0A0B0C0D), "SVPR")
    amp.name = "\u00e9" * 15 + "zz\u00e9"
    snam = dict(amp.iff_chunks())[b"SNAM"]
    check(
        len(snam) == 32 and snam == ("\u00e9" * 15 + "zz").encode("utf8"),
        "split character is dropped",
    )
    amp.name = "short"
    check(
        dict(amp.iff_chunks())[b"SNAM"] == b"short" + b"\0" * 27,
        "short names are padded",
    )
    for n, d in amp.iff_chunks():
        record("amp:" + n.decode(), d)
    # project: empty slots, links and slots
    project = Project()
    a = project.new_module(m.Amplifier)
    doomed = project.new_module(m.Amplifier)
    b = project.new_module(m.Amplifier)
    project.modules.append(None)
    project.modules.append(None)
    c = project.new_module(m.Generator)
    check(
        c.index == 4 and project.modules[5] is None, "new module fills the first hole"
    )
    project.modules[doomed.index] = None
    project.output << [a, b]
    a << c
    b << c
    blob = dump(project)
    record("project-with-holes", blob)
    names = [n for n, _ in iff_chunks(BytesIO(blob))]
    check(
        names.count(b"SEND") == 6 and names.count(b"SFFF") == 4,
        "empty slots write SEND only",
    )
    check(names.count(b"SLNK") == 4 and names.count(b"SLnK") == 1, "link chunks")
    back = load(blob)
    check(
        [type(x).__name__ for x in back.modules]
        == ["Output", "Amplifier", "NoneType", "Amplifier", "Generator"],
        f"modules reload {back.modules}",
    )
    check(
        back.modules[3].in_links == [4] and back.modules[3].in_link_slots == [1],
        "slots reload",
    )
    b.in_link_slots.append(0)
    raises(struct.error, lambda: dump(project), "links and slots of different length")
    b.in_link_slots.pop()
    check(dump(project) == blob, "repaired project saves as before")
    # a module without attached controllers writes neither CVAL nor CMID
    out_blob = dump(Project())
    names = [n for n, _ in iff_chunks(BytesIO(out_blob))]
    check(
        b"CVAL" not in names and b"CMID" not in names and b"CHNK" not in names,
        "bare Output",
    )
    record("empty-project", out_blob)
    # synth: CVAL count matches CMID length, metamodule attachment is recomputed
    for rel in (
        "sampler.sunsynth",
        "metamodule.sunsynth",
        "amplifier.sunsynth",
        "multictl.sunsynth",
    ):
        synth = read_sunvox_file(os.path.join(FILES, rel))
        items = list(synth.chunks())
        check(
            items[0] == (b"SSYN", b"") and items[1][0] == b"VERS",
            f"{rel}: magic and version",
        )
        check(items[-1] == (b"SEND", b""), f"{rel}: SEND last")
        cvals = [d for n, d in items if n == b"CVAL"]
        cmid = [d for n, d in items if n == b"CMID"]
        check(
            len(cmid) == 1 and len(cmid[0]) == 8 * len(cvals),
            f"{rel}: CMID covers each CVAL",
        )
        names = [n for n, _ in items if n is not None]
        if b"CHNK" in names:
            check(
                names.index(b"CMID") < names.index(b"CHNK"), f"{rel}: CHNK after CMID"
            )
    meta = read_sunvox_file(os.path.join(FILES, "metamodule.sunsynth")).module
    before = sum(c.attached(meta) for c in meta.user_defined)
    meta.user_defined_controllers = before + 2
    for c in meta.user_defined:
        c.detach(meta)
    items = list(Synth(meta).chunks())
    after = sum(c.attached(meta) for c in meta.user_defined)
    check(after == before + 2, "saving a synth recomputes user defined attachment")
    check(
        len([1 for n, _ in items if n == b"CVAL"]) == 5 + after,
        "CVAL per attached controller",
    )
    meta.user_defined[0].label = "first"
    meta.user_defined[after].label = "detached, not written"
    spec = list(meta.specialized_iff_chunks())
    numbers = [struct.unpack("<I", d)[0] for n, d in spec if n == b"CHNM"]
    check(numbers[:3] == [0, 1, 2], f"metamodule chunk numbering {numbers[:3]}")
    check(
        8 in numbers and 8 + after not in numbers,
        "labels only for attached controllers",
    )
    check(
        spec[spec.index((b"CHNM", struct.pack("<I", 8))) + 1] == (b"CHDT", b"first\0"),
        "label payload",
    )


# --------------------------------------------------------------------------
# 8. public surface: names, constants and defaults stay where they were
# --------------------------------------------------------------------------


def public_surface():
    import rv.modules.metamodule as metamodule_py
    import rv.modules.module as module_py
    import rv.modules.sampler as sampler_py
    import rv.project as project_py
    import rv.synth as synth_py

    for mod, names in (
        (sampler_py, ["Sampler", "Chunk", "BaseSampler", "Synth", "read_sunvox_file"]),
        (
            metamodule_py,
            ["MetaModule", "UserDefined", "UserDefinedProxy", "slugify"]
            + ["MAX_USER_DEFINED_CONTROLLERS", "USER_DEFINED_RE"],
        ),
        (
            module_py,
            [
                "Module",
                "Chunk",
                "ModuleList",
                "Behavior",
                "ModuleFlags",
                "Visualization",
            ],
        ),
        (project_py, ["Project", "PatternLine"]),
        (synth_py, ["Synth"]),
    ):
        for name in names:
            check(hasattr(mod, name), f"{mod.__name__}.{name} is importable")
    check(
        (Sampler.INS_SIGN, Sampler.INS_VERSION, Sampler.XI_ENV_POINTS)
        == (b"PMAS", 6, 12),
        "sampler constants",
    )
    check(
        (Sampler.chnk, Sampler.options_chnm) == (0x10B, 0x101),
        "sampler chunk constants",
    )
    check(
        [
            (e.chnm, e.range)
            for e in (
                Sampler.VolumeEnvelope,
                Sampler.PanningEnvelope,
                Sampler.PitchEnvelope,
            )
        ]
        == [
            (0x102, (0, 0x8000)),
            (0x103, (-0x4000, 0x4000)),
            (0x104, (-0x4000, 0x4000)),
        ],
        "envelope class constants",
    )
    check(
        [e.chnm for e in Sampler().effect_control_envelopes]
        == [0x105, 0x106, 0x107, 0x108],
        "effect control envelope numbers",
    )
    meta = metamodule_py.MetaModule()
    check(type(meta.chnk) is int and meta.chnk == 104, "metamodule chnk")
    check(
        metamodule_py.MetaModule.options_chnm == 2
        and type(metamodule_py.MetaModule.options_chnm) is int
        and metamodule_py.MetaModule.MappingArray.chnm == 1,
        "metamodule chunk constants",
    )
    check(module_py.Module.options_chnm == 0, "module options chunk number")
    check(
        Project.MAGIC_CHUNK == (b"SVOX", b"") and Synth.MAGIC_CHUNK == (b"SSYN", b""),
        "magic",
    )
    fresh = Sampler()
    snapshot = module_snapshot(fresh, False)
    record("fresh-sampler", dump(Synth(fresh)))
    check(
        snapshot["sampler"]["volume_envelope"]["points"]
        == [(0, 0x8000), (8, 0), (0x80, 0), (0x100, 0)]
        and snapshot["sampler"]["samples"] == [None] * 128
        and snapshot["sampler"]["version"] == 6
        and snapshot["sampler"]["volume_old"] == 64,
        "fresh sampler defaults",
    )
    default_sample = sample_snapshot(Sampler.Sample())
    check(
        default_sample
        == {
            "data": b"",
            "loop_start": 0,
            "loop_len": 0,
            "volume": 64,
            "finetune": 100,
            "format": Sampler.Format.float32,
            "channels": Sampler.Channels.stereo,
            "rate": 44100,
            "loop_type": Sampler.LoopType.off,
            "loop_sustain": False,
            "panning": 0,
            "relative_note": 16,
            "reserved2": 0,
            "name": b"",
            "start_pos": 0,
        },
        "fresh sample defaults",
    )


EXPECTED_DIGEST = "7479332049972bc663f08062fe297ebf484a11321570be4fc32b2a965f12e02d"


def main():
    fixture_round_trips()
    sampler_edit_round_trips()
    sampler_chunk_layout()
    sampler_writer_edge_cases()
    sampler_error_behaviour()
    crafted_streams()
    built_project()
    option_round_trips()
    loader_details()
    generic_writer_details()
    public_surface()
    digest = DIGEST.hexdigest()
    if "--print-digest" in sys.argv:
        print(digest, COUNTS)
    check(
        digest == EXPECTED_DIGEST,
        f"serialized output digest {digest} != recorded {EXPECTED_DIGEST}",
    )
    if FAILURES:
        print("FAIL")
        for failure in FAILURES[:40]:
            print(" -", failure)
        sys.exit(1)
    print(f"PASS ({COUNTS['checks']} checks, {COUNTS['blobs']} serialized blobs)")


if __name__ == "__main__":
    main()
