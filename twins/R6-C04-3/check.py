import hashlib
import io
import logging
import os
import struct
import sys
import tempfile
from enum import Enum
from pathlib import Path

import rv.api
from rv.readers.reader import read_sunvox_file

ROOT = Path(os.getcwd())
FILES = ROOT / "tests" / "files"
FAILURES = []
N_FIXTURES = 52
logging.getLogger("rv").addHandler(logging.NullHandler())


def check(cond, msg):
    if not cond:
        FAILURES.append(msg)
        print("FAIL:", msg)


# ---------------------------------------------------------------- byte level
def split(raw):
    """Independent flat chunk splitter: [(id, payload), ...]."""
    out, pos = [], 0
    while pos + 8 <= len(raw):
        cid = raw[pos : pos + 4]
        (size,) = struct.unpack_from("<I", raw, pos + 4)
        out.append((cid, raw[pos + 8 : pos + 8 + size]))
        pos += 8 + size
    return out


def join(chunks):
    return b"".join(c + struct.pack("<I", len(d)) + d for c, d in chunks)


# ---------------------------------------------------------------- snapshot
def snap(obj, seen=None, depth=0):
    seen = set() if seen is None else seen
    if obj is None or isinstance(obj, (bool, int, float, str)):
        return obj
    if isinstance(obj, (bytes, bytearray)):
        return ("bytes", hashlib.sha1(bytes(obj)).hexdigest(), len(obj))
    if isinstance(obj, Enum):
        return ("enum", type(obj).__name__, obj.name)
    if isinstance(obj, (list, tuple)):
        return (type(obj).__name__, [snap(x, seen, depth + 1) for x in obj])
    if isinstance(obj, (set, frozenset)):
        return ("set", sorted(repr(snap(x, seen, depth + 1)) for x in obj))
    if isinstance(obj, dict):
        return (
            "dict",
            sorted(
                (repr(snap(k, seen, depth + 1)), snap(v, seen, depth + 1))
                for k, v in obj.items()
            ),
        )
    tname = type(obj).__name__
    if type(obj).__module__.startswith("numpy"):
        return ("numpy", tname, snap(obj.tolist(), seen, depth + 1))
    if id(obj) in seen:
        return ("ref", tname, getattr(obj, "index", None))
    if depth > 12:
        return ("deep", tname)
    seen.add(id(obj))
    try:
        d = vars(obj)
    except TypeError:
        d = {s: getattr(obj, s, None) for s in getattr(type(obj), "__slots__", ())}
    items = []
    for extra in ("name", "mtype", "visualization", "chnk", "data", "source"):
        if extra not in d and hasattr(obj, extra):
            try:
                items.append((extra, snap(getattr(obj, extra), seen, depth + 1)))
            except Exception as e:  # noqa
                items.append((extra, "EXC:" + type(e).__name__))
    for k in sorted(d):
        if k.startswith("_") and k != "_reader_chnk":
            continue
        items.append((k, snap(d[k], seen, depth + 1)))
    seen.discard(id(obj))
    return ("obj", tname, items)


def load(raw):
    return read_sunvox_file(io.BytesIO(raw))


def digest(raw):
    return hashlib.sha256(repr(snap(load(raw))).encode()).hexdigest()


def outcome(raw):
    """Digest of the loaded object, or the exception type name."""
    try:
        return digest(raw)
    except Exception as e:  # noqa
        return "EXC:" + type(e).__name__


def fixtures():
    return sorted(p for p in FILES.rglob("*") if p.suffix in (".sunvox", ".sunsynth"))


class Capture(logging.Handler):
    def __init__(self):
        super().__init__(level=logging.DEBUG)
        self.records = []

    def emit(self, record):
        self.records.append((record.name, record.levelname, record.getMessage()))


def captured(raw, level=logging.DEBUG):
    """(outcome, log records) for loading raw with logging captured on 'rv'."""
    logger = logging.getLogger("rv")
    h = Capture()
    old = logger.level
    logger.addHandler(h)
    logger.setLevel(level)
    try:
        res = outcome(raw)
    finally:
        logger.removeHandler(h)
        logger.setLevel(old)
    return res, h.records


# ---------------------------------------------------------------- generic suite
UNKNOWN = (b"ZzQ9", b"\x01\x02\x03\x04\x05")
HEADER_IDS = {
    b"VERS", b"BVER", b"FLGS", b"SFGS", b"BPM ", b"SPED", b"TGRD", b"TGD2",
    b"GVOL", b"NAME", b"MSCL", b"MZOO", b"MXOF", b"MYOF", b"LMSK", b"CURL",
    b"TIME", b"REPS", b"SELS", b"LGEN", b"PATN", b"PATT", b"PATL",
}
STRUCTURAL = {b"SVOX", b"SSYN", b"SFFF", b"SEND", b"PDTA", b"PEND", b"PPAR",
              b"STYP", b"CHNM", b"PCHN", b"PLIN"}


def generic_suite():
    """Return {section: sha256} over outcomes of all structure-preserving edits."""
    agg = {k: hashlib.sha256() for k in ("base", "drop", "cval", "swap")}
    for p in fixtures():
        raw = p.read_bytes()
        ch = split(raw)
        check(join(ch) == raw, f"{p.name}: splitter round trip")
        base = outcome(raw)
        check(not base.startswith("EXC"), f"{p.name}: loads")
        agg["base"].update((p.name + base).encode())
        # loading by path, by str and by file object agree
        check(
            hashlib.sha256(repr(snap(read_sunvox_file(p))).encode()).hexdigest() == base
            and hashlib.sha256(repr(snap(rv.api.read_sunvox_file(str(p)))).encode()).hexdigest() == base,
            f"{p.name}: path/str/file agree",
        )
        # unknown chunk at every position changes nothing
        for i in range(len(ch) + 1):
            edited = join(ch[:i] + [UNKNOWN] + ch[i:])
            check(outcome(edited) == base, f"{p.name}: unknown chunk at {i}")
        # two unknown chunks (one empty payload) around every section start
        for i, (cid, _) in enumerate(ch):
            if cid in (b"SFFF", b"PDTA", b"PPAR", b"SEND", b"PEND"):
                edited = join(ch[:i] + [(b"Qq  ", b"")] + ch[i : i + 1] + [UNKNOWN] + ch[i + 1 :])
                check(outcome(edited) == base, f"{p.name}: unknown chunks around {i}")
        # drop every non-structural chunk, one at a time
        for i, (cid, _) in enumerate(ch):
            if cid in STRUCTURAL:
                continue
            agg["drop"].update(outcome(join(ch[:i] + ch[i + 1 :])).encode())
        # truncate each run of CVALs from the end
        i = 0
        while i < len(ch):
            if ch[i][0] != b"CVAL":
                i += 1
                continue
            j = i
            while j < len(ch) and ch[j][0] == b"CVAL":
                j += 1
            for keep in range(j - i):
                agg["cval"].update(outcome(join(ch[: i + keep] + ch[j:])).encode())
            i = j
        # swap adjacent independent header chunks
        for i in range(len(ch) - 1):
            if ch[i][0] in HEADER_IDS and ch[i + 1][0] in HEADER_IDS:
                if ch[i][0] == b"VERS" or ch[i + 1][0] == b"VERS":
                    continue
                sw = ch[:i] + [ch[i + 1], ch[i]] + ch[i + 2 :]
                check(outcome(join(sw)) == base, f"{p.name}: header swap at {i}")
                agg["swap"].update(outcome(join(sw)).encode())
    return {k: v.hexdigest() for k, v in agg.items()}


# ---------------------------------------------------------------- tiny independent encoder
def u32(v):
    return struct.pack("<I", v)


def i32(v):
    return struct.pack("<i", v)


def ints(vals):
    return b"".join(i32(v) for v in vals)


def mod_chunks(name=b"m\0", mtype=b"Amplifier\0", flags=0x51, pre=(), cvals=(), post=()):
    """Chunks of one module section; pre/post are extra (id, payload) pairs."""
    ch = [(b"SFFF", u32(flags)), (b"SNAM", name)]
    if mtype is not None:
        ch.append((b"STYP", mtype))
    ch += [(b"SFIN", i32(0)), (b"SREL", i32(0)), (b"SXXX", i32(100)), (b"SYYY", i32(-7))]
    ch += list(pre)
    ch += [(b"CVAL", i32(v)) for v in cvals]
    ch += list(post)
    ch.append((b"SEND", b""))
    return ch


def project(modules, head=(), vers=(2, 0, 0, 0), bver=(2, 0, 0, 0), tail=()):
    ch = [(b"SVOX", b"")]
    if vers is not None:
        ch.append((b"VERS", bytes(reversed(vers))))
    if bver is not None:
        ch.append((b"BVER", bytes(reversed(bver))))
    ch += list(head)
    for m in modules:
        ch += [(b"SEND", b"")] if m is None else m
    ch += list(tail)
    return join(ch)


OUT = mod_chunks(name=b"Output\0", mtype=None, flags=0x43, pre=[(b"SLNK", ints([1]))])
OUT0 = mod_chunks(name=b"Output\0", mtype=None, flags=0x43)


# ---------------------------------------------------------------- patch-specific checks
class LCG:
    """Tiny deterministic generator (independent of the random module)."""

    def __init__(self, seed):
        self.s = seed

    def next(self, n):
        self.s = (self.s * 6364136223846793005 + 1442695040888963407) % 2**64
        return (self.s >> 33) % n


def links_of(proj):
    return [
        None if m is None else (m.index, list(m.in_links), list(m.in_link_slots), list(m.out_links), list(m.out_link_slots))
        for m in proj.modules
    ]


def out_mod(links=None, slots=None):
    pre = []
    if links is not None:
        pre.append((b"SLNK", ints(links)))
    if slots is not None:
        pre.append((b"SLnK", ints(slots)))
    return mod_chunks(name=b"Output\0", mtype=None, flags=0x43, pre=pre)


def amp(name, links=None, slots=None, **kw):
    pre = []
    if links is not None:
        pre.append((b"SLNK", ints(links)))
    if slots is not None:
        pre.append((b"SLnK", ints(slots)))
    return mod_chunks(name=name + b"\0", pre=pre, **kw)


def specific():
    agg = hashlib.sha256()
    import rv.errors

    # --- link fix-ups at end of file: hand-worked cases -------------------------
    proj = load(project([out_mod([1, 2]), amp(b"a", [2]), amp(b"b")]))
    check(links_of(proj) == [
        (0, [1, 2], [0, 1], [], []),
        (1, [2], [0], [0], [0]),
        (2, [], [], [1, 0], [0, 1]),
    ], f"chain without SLnK: {links_of(proj)}")
    # gap (-1) inside a link list, and an empty module slot in the middle
    proj = load(project([out_mod([3, -1, 1]), amp(b"a"), None, amp(b"c", [-1, 1])]))
    check(links_of(proj) == [
        (0, [3, -1, 1], [0, -1, 1], [], []),
        (1, [], [], [3, 0], [1, 2]),
        None,
        (3, [-1, 1], [-1, 0], [0], [0]),
    ], f"gaps and empty slot: {links_of(proj)}")
    # explicit SLnK is taken as is and drives where the out links land
    proj = load(project([out_mod([1], [2]), amp(b"a", [1], [0])]))
    check(links_of(proj) == [
        (0, [1], [2], [], []),
        (1, [1], [0], [1, -1, 0], [0, -1, 0]),
    ], f"explicit slots, self link: {links_of(proj)}")
    # trailing empty slots disappear, inner ones stay
    proj = load(project([out_mod(), None, amp(b"b"), None, None]))
    check([None if m is None else m.name for m in proj.modules] == ["Output", None, "b"], "trailing empties dropped")
    proj = load(project([None, None]))
    check(proj.modules == [], "only empty slots")
    # reference past the end only warns and is left without a slot
    res, recs = captured(project([out_mod(), amp(b"a", [7])]), logging.WARNING)
    check(res == "EXC:IndexError", "dangling link later has no slot to look up")
    check([r[2] for r in recs if r[0] == "rv.readers.sunvox"] == ["Found SLNK on 1 referencing non-existent module 7"], f"dangling link warning {recs}")
    # link to an empty slot
    check(outcome(project([out_mod([1]), None, amp(b"b")])) == "EXC:AttributeError", "link to empty slot, no SLnK")
    check(outcome(project([out_mod([1], [0]), None, amp(b"b")])) == "EXC:RuntimeError", "link to empty slot, with SLnK")
    check(outcome(project([out_mod([1, 1], [0]), amp(b"a")])) == "EXC:IndexError", "fewer slots than links")

    # --- link fix-ups: many generated topologies --------------------------------
    rng = LCG(20240607)
    for case in range(400):
        n = 2 + rng.next(5)
        with_slots_mode = rng.next(4)  # 0: none, 1: all, 2/3: some
        mods = []
        present = [True] + [rng.next(5) != 0 for _ in range(n - 1)]
        for i in range(n):
            if not present[i]:
                mods.append(None)
                continue
            k = rng.next(4)
            links = []
            for _ in range(k):
                r = rng.next(12)
                if r == 0:
                    links.append(-1)
                elif r == 1:
                    links.append(n + rng.next(2))      # past the end
                elif r == 2:
                    links.append(rng.next(n))          # may hit an empty slot or itself
                else:
                    cands = [j for j in range(n) if present[j] and j != i]
                    links.append(cands[rng.next(len(cands))] if cands else -1)
            slots = None
            if with_slots_mode == 1 or (with_slots_mode >= 2 and rng.next(2)):
                slots = [rng.next(4) - (1 if rng.next(6) == 0 else 0) for _ in links]
                if rng.next(10) == 0 and slots:
                    slots = slots[:-1]
            if i == 0:
                mods.append(out_mod(links if k else None, slots))
            else:
                mods.append(amp(b"m%d" % i, links if (k or rng.next(2)) else None, slots))
        raw = project(mods, vers=(1, 9, 6, 0) if case % 2 else (1, 8, 0, 0))
        try:
            res = repr(links_of(load(raw)))
        except Exception as e:  # noqa
            res = "EXC:" + type(e).__name__
        agg.update(res.encode())
        res2, recs = captured(raw, logging.WARNING)
        agg.update((res2 + repr([r for r in recs if r[0] == "rv.readers.sunvox"])).encode())

    # --- legacy high byte of note.module ----------------------------------------
    def note(module):
        return struct.pack("<BBHHH", 5, 6, module, 0x0102, 0x0304)

    mods_in_notes = [0, 1, 0xFF, 0x100, 0x101, 0xABCD, 0xFFFF, 0x8000]
    pat = [(b"PDTA", b"".join(note(m) for m in mods_in_notes)), (b"PCHN", u32(4)), (b"PLIN", u32(2)), (b"PEND", b"")]
    clone = [(b"PPAR", u32(0)), (b"PEND", b"")]
    for vers in [(1, 9, 4, 9), (1, 9, 5, 0), (1, 9, 5, 1), (0, 0, 0, 0), (1, 10, 0, 0), (2, 1, 2, 1), None]:
        proj = load(project([out_mod()], vers=vers, head=pat + [(b"PEND", b"")] + clone))
        legacy = vers is not None and vers < (1, 9, 5, 0)
        got = [n.module for line in proj.patterns[0].data for n in line]
        check(got == [m & 0xFF if legacy else m for m in mods_in_notes], f"high byte {vers}: {got}")
        check(all((n.note, n.vel, n.ctl, n.val) == (5, 6, 0x0102, 0x0304) for line in proj.patterns[0].data for n in line), "other note fields untouched")
        check(proj.patterns[1] is None and type(proj.patterns[2]).__name__ == "PatternClone", "pattern slots")

    # --- CVAL application ---------------------------------------------------------
    for fname in ("amplifier.sunsynth", "filter.sunsynth", "analog-generator.sunsynth", "echo.sunsynth", "metamodule.sunsynth", "fmx.sunsynth"):
        ch = split((FILES / fname).read_bytes())
        idx = [i for i, (c, _) in enumerate(ch) if c == b"CVAL"]
        full = load(join(ch)).module
        fresh = type(full)()
        keys = [k for k, c in fresh.controllers.items() if c.attached(fresh)]
        raws = [struct.unpack("<i", ch[i][1])[0] for i in idx]
        for keep in range(len(idx) + 1):
            drop = set(idx[keep:])
            m = load(join([c for i, c in enumerate(ch) if i not in drop])).module
            agg.update(repr(snap(m)).encode())
            if fname in ("metamodule.sunsynth",):
                continue
            for pos, key in enumerate(keys):
                if pos < keep and pos < len(raws):
                    check(m.get_raw(key) == full.get_raw(key), f"{fname}: {key} loaded with {keep} CVALs")
                elif pos >= keep and fname == "amplifier.sunsynth":
                    check(getattr(m, key) == getattr(fresh, key), f"{fname}: {key} keeps default with {keep} CVALs")
        # surplus values: reported, nothing else changes
        extra = [(b"CVAL", i32(3)), (b"CVAL", i32(-4))]
        if fname != "metamodule.sunsynth":
            res, recs = captured(join(ch[: idx[-1] + 1] + extra + ch[idx[-1] + 1 :]), logging.WARNING)
            check(res == outcome(join(ch)), f"{fname}: surplus CVALs ignored")
            msgs = [r[2] for r in recs if "Unsupported controller" in r[2]]
            n = len(idx)
            check(msgs == [f"Unsupported controller at index {n + 1} with raw value -4",
                           f"Unsupported controller at index {n} with raw value 3"], f"{fname}: surplus warnings {msgs}")
        # order of application is visible in the debug log: last value first
        res, recs = captured(join(ch), logging.DEBUG)
        setting = [r[2] for r in recs if r[0] == "rv.readers.module" and r[2].startswith("Setting ")]
        if fname != "metamodule.sunsynth":
            check(setting == [f"Setting {keys[i]} from raw {raws[i]}" for i in reversed(range(len(raws)))], f"{fname}: application order")
        agg.update(repr(recs).encode())
    # out-of-range values only warn while reading, and the global switch is restored
    before = rv.errors.RAISE_CONTROLLER_VALUE_ERRORS
    res, recs = captured(project([out_mod([1]), amp(b"a", cvals=[99999, -5])]), logging.WARNING)
    check(not res.startswith("EXC"), "out of range CVAL does not fail the load")
    check(any("is not within" in r[2] for r in recs), "out of range CVAL is reported")
    agg.update((res + repr(recs)).encode())
    check(rv.errors.RAISE_CONTROLLER_VALUE_ERRORS is before, "switch restored after load")
    check(outcome(b"SVOX\0\0\0\0BPM \x01\0\0\0x") == "EXC:error", "failing load")
    check(rv.errors.RAISE_CONTROLLER_VALUE_ERRORS is before, "switch restored after failure")

    # --- CHNK groups ----------------------------------------------------------------
    for fname in ("sampler.sunsynth", "metamodule.sunsynth", "analog-generator.sunsynth", "multisynth.sunsynth"):
        ch = split((FILES / fname).read_bytes())
        first = next(i for i, (c, _) in enumerate(ch) if c == b"CHNM")
        send = max(i for i, (c, _) in enumerate(ch) if c == b"SEND")
        variants = [
            ch[:first] + ch[first + 1 :],                       # CHDT without CHNM
            ch[:first] + [ch[first]] + ch[first:],              # CHNM twice
            ch[: first + 1] + [(b"CHFF", u32(9)), (b"CHFR", u32(44100))] + ch[first + 1 :],
            ch[:first] + [(b"CHFF", u32(9))] + ch[first:],      # CHFF before any CHNM
            ch[:first] + [(b"CHFR", u32(9))] + ch[first:],
            ch[:first] + [(b"CHNM", b"\x01")] + ch[first:],     # bad size
            ch[:send] + [(b"CHNM", u32(200))] + ch[send:],      # group without data at the end
            ch[:send] + [(b"CHNM", u32(0)), (b"CHDT", b"")] + ch[send:],
            ch[:first] + ch[send:],                             # no groups at all
        ]
        for v in variants:
            res, recs = captured(join(v), logging.WARNING)
            agg.update((res + repr(recs)).encode())
        check(outcome(join(variants[3])) == "EXC:AttributeError", f"{fname}: CHFF before CHNM")
        check(outcome(join(variants[5])) == "EXC:error", f"{fname}: short CHNM")

    # --- entry point ----------------------------------------------------------------
    p = FILES / "single-fm.sunvox"
    raw = p.read_bytes()
    base = digest(raw)
    f = io.BytesIO(raw)
    obj = read_sunvox_file(f)
    check(not f.closed and f.tell() == len(raw), "caller's file object stays open, fully consumed")
    check(type(obj).__name__ == "Project", "project returned")
    with p.open("rb") as fh:
        obj = rv.api.read_sunvox_file(fh)
        check(not fh.closed and fh.tell() == len(raw), "real file stays open")
    f = io.BytesIO(raw[:700] + b"\xff" * 20)
    try:
        read_sunvox_file(f)
    except Exception:  # noqa
        pass
    check(not f.closed, "file object stays open after a failing load")
    for arg in (p, str(p)):
        check(hashlib.sha256(repr(snap(read_sunvox_file(arg))).encode()).hexdigest() == base, f"load via {type(arg).__name__}")
    with tempfile.TemporaryDirectory() as d:
        missing = Path(d) / "nope.sunvox"
        for arg in (missing, str(missing)):
            try:
                read_sunvox_file(arg)
                check(False, "missing file must raise")
            except FileNotFoundError:
                pass
        check(rv.errors.RAISE_CONTROLLER_VALUE_ERRORS is before, "switch restored after missing file")
        broken = Path(d) / "broken.sunvox"
        broken.write_bytes(b"SVOX\0\0\0\0BPM \x02\0\0\0xy")
        try:
            read_sunvox_file(broken)
            check(False, "broken file must raise")
        except struct.error:
            pass
        broken.unlink()  # would fail on some platforms if the handle leaked
        junk = Path(d) / "junk.bin"
        junk.write_bytes(b"RIFF\x04\0\0\0WAVE")
        check(read_sunvox_file(junk) is None, "no magic chunk: nothing to return")
    check(read_sunvox_file(io.BytesIO(b"")) is None, "empty stream")
    check(read_sunvox_file(io.BytesIO(b"SVO")) is None, "partial header")
    try:
        read_sunvox_file(b"SVOX\0\0\0\0")
        check(False, "raw bytes are not a file")
    except AttributeError:
        pass
    # position after nested sections: rewinding must land on the section's first chunk
    for name in ("issue109/filter_lfo.sunvox", "supertracks.sunvox", "module-multiselect.sunvox", "sampler.sunsynth"):
        raw = (FILES / name).read_bytes()
        f = io.BytesIO(raw)
        read_sunvox_file(f)
        agg.update(str(f.tell()).encode())
        res, recs = captured(raw, logging.DEBUG)
        agg.update((res + repr(recs)).encode())
    from rv.lib.iff import chunks as iff_chunks
    two = join([(b"AAAA", b"12345"), (b"BBBB", b""), (b"CCCC", b"xyz")])
    for cut in range(len(two) + 1):
        agg.update(repr(list(iff_chunks(io.BytesIO(two[:cut])))).encode())
    check(list(iff_chunks(io.BytesIO(two))) == split(two), "iff.chunks")
    g = iff_chunks(io.BytesIO(two))
    check(next(g) == (b"AAAA", b"12345"), "first chunk")
    g.close()
    return agg.hexdigest()


EXPECTED_GENERIC = {
    "base": "722889d4d528ad64c73a6796e7f8e60a81723a7ca28605403938d3b56e5d4284",
    "drop": "9a27b83c1eddabebda828b8ad5338ccf7fcc981d9c624fff568ae9ca17581c5d",
    "cval": "c3e85d1dee22d94515979173144161be08e0f6e28d6f2daacd649227465a80f6",
    "swap": "6e552cea7b9b21a13264c0c12c4ec1780199707b58c47c43c8a4ea4202c68023",
}
EXPECTED_SPECIFIC = "9e3610db62de66b06248dcd2a94b9400f37dcfdc35196742dadf7ffa09d652d0"


def main():
    check(len(fixtures()) == N_FIXTURES, f"{N_FIXTURES} fixture files found (run from the repository root)")
    got = specific()
    if "--print" in sys.argv:
        print("specific:", got)
    check(got == EXPECTED_SPECIFIC, f"specific digest {got}")
    got = generic_suite()
    if "--print" in sys.argv:
        print("generic:", got)
    for k, v in EXPECTED_GENERIC.items():
        check(got[k] == v, f"generic digest {k}: {got[k]}")
    if FAILURES:
        print(f"FAIL ({len(FAILURES)} problems)")
        sys.exit(1)
    print("PASS")


if __name__ == "__main__":
    main()
