"""Behaviour check for refactoring C05-2 (property C05: re-saving is stable).

Run from the repository root:
    PYTHONPATH=<root>/src/python python check.py
"""
import glob
import hashlib
import io
import logging
import os
import random
import struct
import sys

logging.disable(logging.CRITICAL)

from rv.api import read_sunvox_file  # noqa: E402
from rv.lib.iff import chunks, write_chunk  # noqa: E402

ROOT = os.getcwd()
FIXTURES = sorted(
    glob.glob(os.path.join(ROOT, "tests", "files", "**", "*.sun*"), recursive=True)
)
assert len(FIXTURES) >= 50, "run from the repository root (tests/files not found)"

FAILURES = []


def expect(cond, msg):
    if not cond:
        FAILURES.append(msg)


def save(obj):
    f = io.BytesIO()
    obj.write_to(f)
    return f.getvalue()


def load(data):
    return read_sunvox_file(io.BytesIO(data))


def split(data):
    return list(chunks(io.BytesIO(data)))


def join(chunk_list):
    f = io.BytesIO()
    for name, data in chunk_list:
        write_chunk(f, name, data)
    return f.getvalue()


def modules_of(obj):
    if hasattr(obj, "modules"):
        return [m for m in obj.modules if m is not None]
    return [obj.module]


def snapshot(obj):
    out = []
    for m in modules_of(obj):
        out.append(
            (
                m.mtype,
                m.index,
                sorted((k, repr(v)) for k, v in m.controller_values.items()),
                list(m.in_links),
                list(m.in_link_slots),
                list(m.out_links),
                list(m.out_link_slots),
                sorted((k, repr(v)) for k, v in m.option_values.items()),
                sorted(m.controllers_loaded),
            )
        )
    return out


CVALS = [-1, 0, 1, 127, 128, 255, 256, 300, 32768, 32769, 65535, 100000,
         -129, -32768, 2**31 - 1, -(2**31)]


def cval_positions(chunk_list):
    return [i for i, (name, _) in enumerate(chunk_list) if name == b"CVAL"]


def with_cval(chunk_list, pos, value):
    out = list(chunk_list)
    out[pos] = (b"CVAL", struct.pack("<i", value))
    return out


def robust_positions(chunk_list):
    """CVAL positions whose controller tolerates arbitrary stored values on load
    (enum-typed controllers reject unknown values with ValueError)."""
    good = []
    for pos in cval_positions(chunk_list):
        try:
            load(join(with_cval(chunk_list, pos, 99999)))
            load(join(with_cval(chunk_list, pos, -99999)))
        except Exception:  # noqa
            continue
        good.append(pos)
    return good


def mutate_cvals(chunk_list, rng, positions, p=0.5):
    out = list(chunk_list)
    for pos in positions:
        if rng.random() < p:
            out[pos] = (b"CVAL", struct.pack("<i", rng.choice(CVALS)))
    return out


def mutate_links(chunk_list, mode, rng):
    """mode 0: append trailing -1 entries; 1: insert -1 and drop SLnK;
    2: replace links by only -1 entries; 3: zero all SLnK slots (inconsistent
    file: known to need one extra cycle to settle); 4: drop SLnK."""
    out = []
    for name, data in chunk_list:
        if name == b"SLNK":
            if mode == 0:
                data = data + struct.pack("<i", -1) * rng.randrange(1, 4)
            elif mode == 1 and len(data) >= 8:
                data = data[:4] + struct.pack("<i", -1) + data[4:]
            elif mode == 2:
                data = struct.pack("<i", -1) * rng.randrange(0, 3)
        if name == b"SLnK":
            if mode == 0:
                data = data + struct.pack("<i", -1) * rng.randrange(1, 4)
            elif mode == 1:
                continue
            elif mode == 3:
                data = b"\0" * len(data)
            elif mode == 4:
                continue
        out.append((name, data))
    return out


def cycle(x, digest, label, stats, strict=True):
    """Load x, save repeatedly; fold everything observable into digest."""
    try:
        obj = load(x)
    except Exception as e:  # noqa
        digest.update(("EXC:" + type(e).__name__).encode())
        stats["load_exc"] += 1
        return
    before = snapshot(obj)
    try:
        y = save(obj)
    except Exception as e:  # noqa
        digest.update(("SAVEEXC:" + type(e).__name__).encode())
        stats["save_exc"] += 1
        return
    after = snapshot(obj)
    y_again = save(obj)
    expect(before == after, label + ": save changed the object")
    expect(y == y_again, label + ": saving twice gave different bytes")
    digest.update(repr(before).encode())
    digest.update(y)
    prev = y
    for n in range(3):
        try:
            nxt = save(load(prev))
        except Exception as e:  # noqa
            digest.update(("CYCEXC:" + type(e).__name__).encode())
            stats["cycle_exc"] += 1
            return
        if nxt != prev:
            stats["drift"] += 1
            expect(not strict, "%s: drift at cycle %d" % (label, n + 2))
        digest.update(nxt)
        prev = nxt
    stats["ok"] += 1


def generated_projects():
    """Projects built through the API: fan-in/fan-out links (non-zero slots, so
    SLnK is written), disconnected links (-1 in the middle and trailing), fully
    disconnected modules, and a plain chain (SLnK elided)."""
    from rv.api import NOTE, Pattern, Project, m

    out = []
    p = Project()
    g1 = p.new_module(m.Generator)
    g2 = p.new_module(m.AnalogGenerator)
    a = p.new_module(m.Amplifier, dc_offset=-100, balance=-128)
    f = p.new_module(m.Filter)
    e = p.new_module(m.Echo)
    g1 >> a
    g1 >> f
    g2 >> a
    g2 >> f
    a >> e
    f >> e
    e >> p.output
    a >> p.output
    out.append(("gen:fan", p))
    p = Project()
    g1 = p.new_module(m.Generator)
    g2 = p.new_module(m.Generator)
    g3 = p.new_module(m.Generator)
    a = p.new_module(m.Amplifier)
    g1 >> a
    g2 >> a
    g3 >> a
    a >> p.output
    g1 >> p.output
    p.connect(~g3, a)
    p.connect(~g1, a)
    out.append(("gen:disconnected", p))
    p = Project()
    g1 = p.new_module(m.Generator)
    a = p.new_module(m.Amplifier)
    g1 >> a >> p.output
    p.connect(~g1, a)
    p.connect(~a, p.output)
    out.append(("gen:all-disconnected", p))
    p = Project()
    g1 = p.new_module(m.Generator)
    a = p.new_module(m.Amplifier, dc_offset=128)
    g1 >> a >> p.output
    pat = Pattern(tracks=2, lines=4)
    p.attach_pattern(pat)
    pat.data[0][0].note = NOTE.C4
    pat.data[0][0].module = g1.index + 1
    out.append(("gen:chain", p))
    return [(name, save(proj)) for name, proj in out]


def corpus():
    for path in FIXTURES:
        with open(path, "rb") as f:
            yield os.path.relpath(path, ROOT).replace(os.sep, "/"), f.read()
    yield from generated_projects()


def corpus_digest(seeds=(1, 2, 3)):
    digest = hashlib.sha256()
    stats = dict(load_exc=0, save_exc=0, cycle_exc=0, drift=0, ok=0, cvals=0, robust=0)
    for rel, x in corpus():
        cycle(x, digest, rel, stats)
        cl = split(x)
        all_pos = cval_positions(cl)
        good = robust_positions(cl)
        stats["cvals"] += len(all_pos)
        stats["robust"] += len(good)
        for pos in all_pos:
            for v in (300, -7):
                cycle(join(with_cval(cl, pos, v)), digest, "%s @%d=%d" % (rel, pos, v), stats)
        for seed in seeds:
            rng = random.Random("%s/%d" % (rel, seed))
            cycle(join(mutate_cvals(cl, rng, good)), digest, "%s cval#%d" % (rel, seed), stats)
            for mode in range(5):
                cycle(
                    join(mutate_links(cl, mode, rng)),
                    digest,
                    "%s link#%d/%d" % (rel, seed, mode),
                    stats,
                    strict=mode != 3,
                )
            mode = rng.choice((0, 1, 2, 4))
            cycle(
                join(mutate_links(mutate_cvals(cl, rng, good, 1.0), mode, rng)),
                digest,
                "%s both#%d" % (rel, seed),
                stats,
            )
    return digest.hexdigest(), stats


def finish():
    if FAILURES:
        for f in FAILURES[:40]:
            print("FAIL:", f)
        print("FAILED (%d)" % len(FAILURES))
        sys.exit(1)
    print("PASS")


# --------------------------------------------------------------------------
# Specific to this refactoring: ModuleReader.process_SLNK/process_SLnK and the
# per-module part of Project.chunks (SLNK/SLnK/CVAL/CMID/CHNK ... SEND)
# --------------------------------------------------------------------------
def i32(*values):
    return struct.pack("<%di" % len(values), *values)


def check_link_readers():
    from rv.api import m
    from rv.readers.module import ModuleReader

    cases = [
        (b"", []),
        (i32(1), [1]),
        (i32(1, 2, 3), [1, 2, 3]),
        (i32(-1), []),
        (i32(-1, -1, -1), []),
        (i32(1, -1), [1]),
        (i32(1, -1, -1, -1), [1]),
        (i32(-1, 1), [-1, 1]),
        (i32(1, -1, 2, -1), [1, -1, 2]),
        (i32(0, 0, 0), [0, 0, 0]),
        (i32(-2, -1), [-2]),
        (i32(2**31 - 1, -(2**31), -1), [2**31 - 1, -(2**31)]),
        (i32(*range(200)) + i32(-1) * 50, list(range(200))),
    ]
    for attr, method in (("in_links", "process_SLNK"), ("in_link_slots", "process_SLnK")):
        other = "in_link_slots" if attr == "in_links" else "in_links"
        for data, want in cases:
            reader = ModuleReader(io.BytesIO(b""), index=1)
            reader.object = m.Amplifier()
            target = getattr(reader.object, attr)
            result = getattr(reader, method)(data)
            expect(result is None, "%s returns None" % method)
            expect(getattr(reader.object, attr) is target, "%s keeps the list object" % method)
            expect(target == want, "%s(%r) -> %r, wanted %r" % (method, data, target, want))
            expect(getattr(reader.object, other) == [], "%s touched %s" % (method, other))
        # a second chunk extends what is there; trimming looks at the whole list
        reader = ModuleReader(io.BytesIO(b""), index=1)
        reader.object = m.Amplifier()
        getattr(reader, method)(i32(4, -1, 5))
        getattr(reader, method)(i32(6, -1))
        expect(getattr(reader.object, attr) == [4, -1, 5, 6], "%s twice" % method)
        getattr(reader, method)(i32(-1, -1))
        expect(getattr(reader.object, attr) == [4, -1, 5, 6], "%s only -1" % method)
        getattr(reader, method)(b"")
        expect(getattr(reader.object, attr) == [4, -1, 5, 6], "%s empty" % method)
        # pre-existing trailing -1 entries are also dropped by a non-empty chunk,
        # but not by an empty one
        reader = ModuleReader(io.BytesIO(b""), index=1)
        reader.object = m.Amplifier()
        getattr(reader.object, attr).extend([7, -1])
        getattr(reader, method)(b"")
        expect(getattr(reader.object, attr) == [7, -1], "%s empty keeps trailing" % method)
        getattr(reader, method)(i32(-1))
        expect(getattr(reader.object, attr) == [7], "%s trims old trailing" % method)
        # malformed sizes are rejected by struct
        for bad in (b"\x01", b"\x01\x02\x03", b"\0" * 5, b"\0" * 6, b"\0" * 7, b"\0" * 9):
            reader = ModuleReader(io.BytesIO(b""), index=1)
            reader.object = m.Amplifier()
            try:
                getattr(reader, method)(bad)
            except struct.error:
                expect(getattr(reader.object, attr) == [], "%s bad size left data" % method)
            else:
                expect(False, "%s accepted %d bytes" % (method, len(bad)))


def reference_module_chunks(module):
    """What Project.chunks emits for one attached module (independent copy)."""
    yield from module.iff_chunks()
    links = module.in_links
    link_slots = module.in_link_slots
    if len(links) > 0:
        structure = "<" + "i" * len(links)
        links = struct.pack(structure, *links)
        link_slots = struct.pack(structure, *link_slots)
        yield b"SLNK", links
        if any(s not in (-1, 0) for s in module.in_link_slots):
            yield b"SLnK", link_slots
    else:
        yield b"SLNK", b""
    controllers = [n for n, c in module.controllers.items() if c.attached(module)]
    for name in controllers:
        yield b"CVAL", struct.pack("<i", module.get_raw(name))
    if controllers:
        yield (
            b"CMID",
            b"".join(module.controller_midi_maps[name].cmid_data for name in controllers),
        )
    if module.chnk:
        yield b"CHNK", struct.pack("<I", module.chnk)
        yield from module.specialized_iff_chunks()


def module_sections(project):
    """Split list(project.chunks()) into the per-module sections."""
    all_chunks = list(project.chunks())
    names = [c[0] for c in all_chunks]
    n_pat = len(project.patterns)
    # module part starts after the last PEND (or after PATL when no patterns)
    start = (
        max(i for i, n in enumerate(names) if n == b"PEND") + 1
        if n_pat
        else names.index(b"PATL") + 1
    )
    sections, cur = [], []
    for chunk in all_chunks[start:]:
        if chunk == (b"SEND", b""):
            sections.append(cur)
            cur = []
        else:
            cur.append(chunk)
    expect(cur == [], "chunks after the final SEND")
    return sections


def check_project_chunks():
    from rv.api import Project, m

    projects = [load(x) for name, x in corpus() if name.endswith(".sunvox") or name.startswith("gen:")]
    expect(len(projects) >= 10, "too few projects")
    # a project with every module type, chained, plus an empty slot
    p = Project()
    prev = None
    from rv.modules import MODULE_CLASSES

    for mtype, cls in sorted(MODULE_CLASSES.items()):
        if mtype == "Output":
            continue
        mod = p.attach_module(cls())
        if prev is not None:
            prev >> mod
        mod >> p.output
        prev = mod
    p.modules.insert(3, None)
    projects.append(p)
    for proj in projects:
        sections = module_sections(proj)
        expect(len(sections) == len(proj.modules), "one SEND per module slot")
        for module, section in zip(proj.modules, sections):
            if module is None:
                expect(section == [], "empty slot emits only SEND")
                continue
            want = list(reference_module_chunks(module))
            expect(section == want, "chunks of %r differ" % (module,))
            expect(
                [n for n, _ in section if n in (b"SLNK",)] == [b"SLNK"],
                "exactly one SLNK",
            )
    # SLnK is elided exactly when all slots are 0/-1
    p = Project()
    g = [p.new_module(m.Generator) for _ in range(3)]
    a = p.new_module(m.Amplifier)
    for x in g:
        x >> a
    a >> p.output
    for slots, written in [
        ([0, 0, 0], False),
        ([-1, 0, -1], False),
        ([-1, -1, -1], False),
        ([0, 1, 0], True),
        ([0, 0, -2], True),
        ([5, 6, 7], True),
    ]:
        a.in_link_slots[:] = slots
        sec = module_sections(p)[a.index]
        names = [n for n, _ in sec]
        expect((b"SLnK" in names) == written, "SLnK for slots %r" % (slots,))
        expect(dict(sec)[b"SLNK"] == i32(*a.in_links), "SLNK data")
        if written:
            expect(dict(sec)[b"SLnK"] == i32(*slots), "SLnK data")
            expect(names.index(b"SLnK") == names.index(b"SLNK") + 1, "SLnK follows SLNK")
        expect(names[names.index(b"SLNK") + (2 if written else 1)] == b"CVAL", "CVAL follows links")
    # slots of a different length than links: struct.error, raised before SLNK is emitted
    a.in_link_slots[:] = [0, 1]
    seen = []
    try:
        for chunk in p.chunks():
            seen.append(chunk[0])
    except struct.error:
        tail = seen[seen.index(b"SFFF"):]  # first module = Output
        n_send = tail.count(b"SEND")
        expect(n_send == a.index, "error raised in the right module")
        expect(seen[-1] == b"SMIP", "error before SLNK is emitted, last=%r" % seen[-1])
    else:
        expect(False, "mismatched slot count accepted")
    a.in_link_slots[:] = [0, 0, 0]
    # chunk generation is lazy: a controller changed after SLNK was produced
    # is saved with its new value
    gen = p.chunks()
    sends = 0
    for name, data in gen:
        if name == b"SEND":
            sends += 1
        if name == b"SLNK" and sends == a.index:
            a.volume = 777
            break
    rest = list(gen)
    expect(rest[0] == (b"CVAL", struct.pack("<i", 777)), "lazy controller read")
    a.volume = 256
    # no links at all
    p2 = Project()
    sec = module_sections(p2)
    expect(len(sec) == 1 and (b"SLNK", b"") in sec[0], "empty SLNK for Output")
    expect(not any(n in (b"CVAL", b"CMID", b"CHNK", b"SLnK") for n, _ in sec[0]), "bare Output")


EXPECTED_DIGEST = "26e5497b22a7e6cae03c2ac11d1cd573c92d11194277db18d6d0b09dd0b5d1e5"

if __name__ == "__main__":
    check_link_readers()
    check_project_chunks()
    got, stats = corpus_digest()
    expect(stats["ok"] > 2000, "corpus too small: %r" % (stats,))
    expect(got == EXPECTED_DIGEST, "corpus digest changed: %s %r" % (got, stats))
    finish()
