"""Behaviour check for ArrayChunk byte (de)serialisation and MultiCtl mapping encoding."""
import io
import struct
import sys

from rv.api import m
from rv.chunks import ArrayChunk
from rv.readers.reader import read_sunvox_file
from rv.synth import Synth

failures = []


def check(cond, msg):
    if not cond:
        failures.append(msg)


def roundtrip(mod):
    f = io.BytesIO()
    Synth(mod).write_to(f)
    f.seek(0)
    return read_sunvox_file(f).module


# --- plain ArrayChunk subclasses -------------------------------------------
class Bytes4(ArrayChunk):
    chnm = 0
    length = 4
    type = "B"
    element_size = 1


class Shorts3(ArrayChunk):
    chnm = 1
    length = 3
    type = "H"
    element_size = 2
    default = 7


class Floats2(ArrayChunk):
    length = 2
    type = "f"
    element_size = 4
    python_type = float
    default = [0.5, -1.0]


class Pairs(ArrayChunk):
    length = 2
    type = "hB"
    element_size = 3
    python_type = list
    default = None

    @property
    def encoded_values(self):
        return [x for pair in self.values for x in pair]


class Ramp(ArrayChunk):
    length = 6
    type = "H"
    element_size = 2
    min_value = 2
    max_value = 4

    def default(self, x):
        return x


class RampZeroMin(ArrayChunk):
    length = 4
    type = "b"
    element_size = 1
    min_value = 0  # falsy -> no lower clamp
    max_value = 1

    def default(self, x):
        return x - 2


c = Bytes4()
check(c.values == [0, 0, 0, 0], "default None -> zeros")
check(c.bytes == b"\0\0\0\0", "bytes zeros")
check(c.chdt() == c.bytes, "chdt == bytes")
c.bytes = b"\x01\xff\x80\x00"
check(c.values == [1, 255, 128, 0], "B decode")
check(c.bytes == b"\x01\xff\x80\x00", "B encode")
c.bytes = b""
check(c.values == [], "empty data gives empty list")
c.bytes = b"\x05\x06"
check(c.values == [5, 6], "short data gives short list")
try:
    c.bytes
    check(False, "packing short list should fail")
except struct.error:
    pass
check(next(c.chunks()) == (b"CHNM", struct.pack("<I", 0)), "CHNM first")

s = Shorts3()
check(s.values == [7, 7, 7], "scalar default replicated")
check(s.bytes == struct.pack("<HHH", 7, 7, 7), "H encode")
s.bytes = struct.pack("<HHH", 0, 65535, 258) + b"\x09"  # trailing partial element ignored
check(s.values == [0, 65535, 258], "H decode w/ trailing byte: %r" % s.values)
s.bytes = b"\x01"
check(s.values == [], "less than one element -> empty")
s.values = [1, 2, 70000]
try:
    s.bytes
    check(False, "out of range H must fail")
except struct.error:
    pass
old = s.values
try:
    s.bytes = None
    check(False, "None data must raise")
except TypeError:
    pass
check(s.values == [], "values cleared before failure")

fl = Floats2()
check(fl.values == [0.5, -1.0], "list default copied")
check(fl.values is not Floats2.default, "list default is a copy")
check(fl.bytes == struct.pack("<ff", 0.5, -1.0), "f encode")
fl.bytes = struct.pack("<ff", 0.25, 1e10)
check(fl.values == [0.25, struct.unpack("<f", struct.pack("<f", 1e10))[0]], "f decode")
check(all(type(v) is float for v in fl.values), "python_type float")

p = Pairs()
check(p.values == [0, 0], "None default with length 2")
p.bytes = struct.pack("<hBhB", -3, 9, 300, 255)
check(p.values == [[-3, 9], [300, 255]], "multi-field elements passed as tuple: %r" % p.values)
check(p.bytes == struct.pack("<hBhB", -3, 9, 300, 255), "multi-field encode")

r = Ramp()
check(r.values == [2, 2, 2, 3, 4, 4], "callable default clamped: %r" % r.values)
r.set_via_fn(lambda x: 10 - x)
check(r.values == [4, 4, 4, 4, 4, 4], "set_via_fn clamp hi")
r.set_via_fn(lambda x: 3)
check(r.values == [3] * 6, "set_via_fn mid")
before = r.values
try:
    r.set_via_fn(lambda x: 1 // (x - 3))
    check(False, "fn error must propagate")
except ZeroDivisionError:
    pass
check(r.values is before, "values untouched when fn fails")
r.values = [9]
r.reset()
check(r.values == [2, 2, 2, 3, 4, 4], "reset")

z = RampZeroMin()
check(z.values == [-2, -1, 0, 1], "min_value 0 does not clamp: %r" % z.values)

# --- MultiCtl mapping array -------------------------------------------------
mc = m.MultiCtl(
    mappings=[(1, 2, 3, 4, 5, 6, 7, 8), (0x8000, 0, 2, 1, 0, 0, 0, 0xFFFFFFFF)],
    curve=list(range(0, 257 * 100, 100)),
)
check(len(mc.mappings.values) == 16, "16 mappings")
enc = mc.mappings.encoded_values
check(isinstance(enc, list) and len(enc) == 128, "encoded_values is flat list of 128")
check(enc[:8] == [1, 2, 3, 4, 5, 6, 7, 8], "first mapping fields in order")
check(enc[8:16] == [0x8000, 0, 2, 1, 0, 0, 0, 0xFFFFFFFF], "second mapping fields")
check(enc[16:24] == [0, 0x8000, 0, 0, 0, 0, 0, 0], "default mapping")
check(mc.mappings.bytes == struct.pack("<128I", *enc), "mapping bytes")
check(mc.mappings.type == "IIIIIIII" and mc.mappings.element_size == 32, "mapping layout")
check(
    sorted(vars(mc.mappings.values[0])) == sorted(
        ["min", "max", "controller", "flags", "future_use2", "future_use3", "future_use4", "future_use5"]
    ),
    "Mapping instance dict",
)
try:
    m.MultiCtl.Mapping((1, 2, 3))
    check(False, "short mapping tuple must raise")
except ValueError:
    pass
mc2 = roundtrip(mc)
check(type(mc2) is m.MultiCtl, "type")
check([vars(v) for v in mc2.mappings.values] == [vars(v) for v in mc.mappings.values], "mappings roundtrip")
check(mc2.curve.values == mc.curve.values, "curve roundtrip")
mc3 = mc.clone()
check(mc3.mappings.bytes == mc.mappings.bytes and mc3.curve.bytes == mc.curve.bytes, "clone")
mc.mappings.bytes = mc.mappings.bytes[:70]  # two whole records + a fragment
check(len(mc.mappings.values) == 2 and mc.mappings.values[1].future_use5 == 0xFFFFFFFF, "partial record dropped")

# --- real modules that use array chunks ------------------------------------
ms = m.MultiSynth(nv_values=list(range(128)), vv_values=[255 - (i % 256) for i in range(257)])
ms.np_curve.values = [65535 - i for i in range(128)]
ms2 = roundtrip(ms)
check(ms2.nv_curve.values == ms.nv_curve.values, "nv")
check(ms2.vv_curve.values == ms.vv_curve.values, "vv")
check(ms2.np_curve.values == ms.np_curve.values, "np")
ms_def = roundtrip(m.MultiSynth())
check(ms_def.nv_curve.values == [255] * 128, "nv default")
check(ms_def.np_curve.values == ms_def.np_curve.default, "np default")

fx = m.Fmx(custom_waveform_values=[(i - 128) / 128 for i in range(256)])
fx2 = fx.clone()
check(fx2.custom_waveform.values == fx.custom_waveform.values, "fmx waveform")
check(m.Fmx().custom_waveform.values == [0] * 256, "fmx default")

ws = m.WaveShaper(values=[65535 - 255 * i for i in range(256)])
check(ws.clone().curve.values == ws.curve.values, "waveshaper curve")
check(roundtrip(m.WaveShaper()).curve.values == m.WaveShaper().curve.values, "waveshaper default")

sv = m.SpectraVoice(harmonics=[(100 * i, 255 - i, i, m.SpectraVoice.HarmonicType(i % 3)) for i in range(16)])
sv2 = sv.clone()
for a in ("harmonic_freqs", "harmonic_volumes", "harmonic_widths", "harmonic_types"):
    check(getattr(sv2, a).values == getattr(sv, a).values, a)
    check(getattr(sv2, a).bytes == getattr(sv, a).bytes, a + " bytes")
check(all(isinstance(t, m.SpectraVoice.HarmonicType) for t in sv2.harmonic_types.values), "enum python_type")
t = sv2.harmonic_types
try:
    t.bytes = b"\x00\x01\xfe\x02"
    check(False, "invalid harmonic type must raise")
except ValueError:
    pass
check([int(v) for v in t.values] == [0, 1], "elements before malformed one are kept: %r" % t.values)

if failures:
    print("FAIL")
    for f_ in failures:
        print(" -", f_)
    sys.exit(1)
print("PASS")
