"""C17-2: Module.__init__ (per-instance containers, controller/option init).

Run from the repository root with PYTHONPATH=<root>/src/python.
"""
import hashlib
import logging
import sys
from enum import Enum
from io import BytesIO

from rv.api import Project, Synth, m, read_sunvox_file
from rv.controller import DependentRange, Range
from rv.modules import MODULE_CLASSES

failures = []
warnings = []


class _Collect(logging.Handler):
    def emit(self, record):
        warnings.append(record.getMessage())


logging.getLogger().addHandler(_Collect())


def check(cond, msg):
    if not cond:
        failures.append(msg)


CONTAINERS = (
    "controller_values",
    "controllers_loaded",
    "controller_midi_maps",
    "option_values",
    "in_links",
    "in_link_slots",
    "out_links",
    "out_link_slots",
)
SCALARS = (
    "index parent mod_finetune mod_relative_note x y layer mod_scale color "
    "midi_in_always midi_in_channel midi_out_name midi_out_channel midi_out_bank "
    "midi_out_program name flags"
).split()


def snapshot(mod):
    # serializing fills the controller_midi_maps defaultdict, so do it first
    data = Synth(mod).read()
    snap = {k: getattr(mod, k) for k in SCALARS}
    snap["controller_values"] = dict(mod.controller_values)
    snap["controllers_loaded"] = set(mod.controllers_loaded)
    snap["controller_midi_maps"] = {
        k: dict(vars(v)) for k, v in mod.controller_midi_maps.items()
    }
    snap["option_values"] = dict(mod.option_values)
    for k in CONTAINERS[4:]:
        snap[k] = list(getattr(mod, k))
    snap["parent"] = id(mod.parent)
    snap["visualization"] = int(mod.visualization)
    snap["bytes"] = data
    return snap


def other_value(mod, name, ctl):
    cur = mod.controller_values[name]
    t = ctl.instance_value_type(mod)
    if isinstance(t, Range):
        return t.min if cur != t.min else t.max
    if t is bool:
        return not cur
    if isinstance(t, type) and issubclass(t, Enum):
        return [e for e in t if e != cur][0]
    return None


classes = sorted(MODULE_CLASSES.items())
check(len(classes) >= 40, "module registry size")
digest = hashlib.sha256()
for mtype, cls in classes:
    a, b = cls(), cls()
    for k in CONTAINERS:
        check(getattr(a, k) is not getattr(b, k), f"{mtype}: {k} shared")
    check(type(a.controller_values) is dict, f"{mtype}: controller_values type")
    check(type(a.controllers_loaded) is set, f"{mtype}: controllers_loaded type")
    check(type(a.option_values) is dict, f"{mtype}: option_values type")
    check(
        list(a.controller_values) == [
            k for k, c in cls.controllers.items()
            if not isinstance(c.value_type, DependentRange)
        ] + [
            k for k, c in cls.controllers.items()
            if isinstance(c.value_type, DependentRange)
        ],
        f"{mtype}: controller init order",
    )
    check(a.controllers_loaded == set(cls.controllers), f"{mtype}: loaded set")
    if cls is m.MetaModule:  # has an inverted alias option which is re-inserted
        check(set(a.option_values) == set(cls.options), f"{mtype}: option set")
        check(
            list(a.option_values) == list(b.option_values), f"{mtype}: option order"
        )
    else:
        check(list(a.option_values) == list(cls.options), f"{mtype}: option order")
    for k, c in cls.controllers.items():
        if c.instance_value_type(a) is not None and not k.startswith("user_defined"):
            check(a.controller_values[k] == c.default, f"{mtype}.{k}: default")
    for k, o in cls.options.items():
        check(getattr(a, k) == o.default, f"{mtype}.{k}: option default")
    check((a.x, a.y, a.layer, a.mod_scale) == (512, 512, 0, 256), f"{mtype}: xy")
    check(a.color == (255, 255, 255) and a.name == (cls.name if isinstance(cls.name, str) else "Output"), f"{mtype}: color/name")
    check(a.index is None and a.parent is None, f"{mtype}: index/parent")
    check(a.in_links == a.in_link_slots == a.out_links == a.out_link_slots == [],
          f"{mtype}: link tables")
    check(len(a.controller_midi_maps) == 0, f"{mtype}: midi maps empty")
    check(a.midi_out_bank == -1 and a.midi_out_program == -1, f"{mtype}: midi out")
    check(int(a.visualization) == 0x000C0101, f"{mtype}: visualization")
    before = snapshot(b)
    digest.update(before["bytes"])
    check(snapshot(a) == {**before, "bytes": snapshot(a)["bytes"]} and
          snapshot(a)["bytes"] == before["bytes"], f"{mtype}: two fresh instances differ")
    # mutate every controller, option, link table and scalar of A
    changed = 0
    for k, c in cls.controllers.items():
        if k.startswith("user_defined"):
            continue
        v = other_value(a, k, c)
        if v is None:
            continue
        setattr(a, k, v)
        changed += 1
        check(a.controller_values[k] == v, f"{mtype}.{k}: set")
    for k, o in cls.options.items():
        cur = getattr(a, k)
        if isinstance(cur, bool):
            setattr(a, k, not cur)
    a.controller_midi_maps["x"].channel = 3
    a.controllers_loaded.clear()
    a.in_links.append(1)
    a.in_link_slots.append(0)
    a.out_links += [2, 3]
    a.out_link_slots += [0, 0]
    a.name, a.x, a.y, a.color, a.mod_scale = "zz", 1, 2, (1, 2, 3), 99
    check(snapshot(b) == before, f"{mtype}: B changed after mutating A")
    c2 = cls()
    check(snapshot(c2) == before, f"{mtype}: later instance differs")
    if changed:
        check(Synth(a).read() != before["bytes"], f"{mtype}: A mutation invisible")

check(
    digest.hexdigest() == "159717de7c5c84ce578bce2ea15f3be90e12386e778460392862c6c6863442b4",
    "default synth digest: " + digest.hexdigest(),
)

# ---- keyword arguments ------------------------------------------------------
kw = dict(
    index=7, name="Foo", x=10, y=-20, layer=3, mod_scale=300, color=(1, 2, 3),
    finetune=-5, relative_note=4, midi_in_always=True, midi_in_channel=2,
    midi_out_name="dev", midi_out_channel=5, midi_out_bank=1, midi_out_program=9,
    visualization=0x01020304,
)
g = m.Generator(volume=10, waveform="square", polyphony=3, **kw)
check(g.volume == 10 and g.waveform is m.Generator.Waveform.square, "ctl kwargs")
check(g.polyphony == 3, "ctl kwarg 2")
check(
    (g.index, g.name, g.x, g.y, g.layer, g.mod_scale, g.color)
    == (7, "Foo", 10, -20, 3, 300, (1, 2, 3)),
    "scalar kwargs",
)
check((g.mod_finetune, g.mod_relative_note) == (-5, 4), "finetune kwargs")
check(
    (g.midi_in_always, g.midi_in_channel, g.midi_out_name, g.midi_out_channel,
     g.midi_out_bank, g.midi_out_program, int(g.visualization))
    == (True, 2, "dev", 5, 1, 9, 0x01020304),
    "midi kwargs",
)
check(m.Generator().volume == 128 and m.Generator().name == "Generator", "defaults after")
# "scale" is an alias for mod_scale only when the module has no scale controller
check(m.Amplifier(scale=123).mod_scale == 123, "scale alias")
check(m.Amplifier(scale=123, mod_scale=5).mod_scale == 123, "scale alias wins")
with_scale = [c for c in MODULE_CLASSES.values() if "scale" in c.controllers]
for cls in with_scale:
    rng = cls.controllers["scale"].value_type
    o = cls(scale=rng.max)
    check(o.mod_scale == 256 and o.scale == rng.max, f"{cls.__name__}: scale controller")
check(m.Amplifier(name=None).name == "Amplifier", "name None -> class name")
check(m.Amplifier(name="").name == "", "empty name kept")
p = Project()
check(m.Amplifier(parent=p).parent is p, "parent kwarg")
# options by keyword
ms = m.MultiSynth(use_static_note_C5=True, trigger=True)
check(ms.use_static_note_C5 is True and ms.trigger is True, "option kwargs")
check(m.MultiSynth().use_static_note_C5 is False, "option default after")
# bad value -> same error type
try:
    m.Generator(volume=100000)
except Exception as e:
    check(type(e).__name__ == "ControllerValueError", f"error type {type(e).__name__}")
else:
    check(False, "out-of-range controller kwarg must raise")
try:
    m.Generator(waveform="nope")
except KeyError:
    pass
else:
    check(False, "bad enum name must raise KeyError")

# ---- dependent ranges: resolved after the controller they depend on ---------
del warnings[:]
FU = m.Lfo.FrequencyUnit
lfo = m.Lfo(freq=10000, frequency_unit=FU.hz)
check(lfo.freq == 10000 and lfo.frequency_unit is FU.hz, "lfo dependent kwargs")
check(not warnings, f"no warning expected for in-range dependent value: {warnings}")
check(list(lfo.controller_values)[-1] == "freq" or
      list(lfo.controller_values).index("freq")
      > list(lfo.controller_values).index("frequency_unit"), "dependent set last")
lfo2 = m.Lfo(freq=10000)  # default unit hz/64: 1..2048 -> warning only
check(lfo2.freq == 10000, "warn-only range keeps the value")
check(len(warnings) == 1, f"exactly one warning expected: {warnings}")
del warnings[:]
for cls in MODULE_CLASSES.values():
    dep = [k for k, c in cls.controllers.items()
           if isinstance(c.value_type, DependentRange)]
    for k in dep:
        c = cls.controllers[k]
        parent = c.value_type.ctl_name
        for unit, rng in c.value_type.range_map.items():
            o = cls(**{k: rng.max, parent: unit})
            check(getattr(o, k) == rng.max and getattr(o, parent) == unit,
                  f"{cls.__name__}.{k} with {unit}")
            check(c.instance_value_type(o) == rng, f"{cls.__name__}.{k} range {unit}")
            other = cls()
            check(getattr(other, parent) == cls.controllers[parent].default,
                  f"{cls.__name__}: parent default leaked")
check(not warnings, f"unexpected warnings: {warnings}")

# ---- projects, clones and loads ---------------------------------------------
def pbytes(p):
    f = BytesIO()
    p.write_to(f)
    return f.getvalue()


def build():
    p = Project()
    gen = p.new_module(m.Generator, volume=50)
    amp = p.new_module(m.Amplifier, name="amp", x=100)
    lf = p.new_module(m.Lfo, frequency_unit=FU.hz, freq=9000)
    gen >> amp >> lf >> p.output
    return p


A, B = build(), build()
ref = pbytes(B)
check(pbytes(A) == ref, "identical projects")
clone = A.clone()
cref = pbytes(clone)
A.modules[1].volume = 1
A.modules[2].name = "changed"
A.modules[2].gain = 0 if hasattr(A.modules[2], "gain") else None
A.modules[1].controller_midi_maps["volume"].channel = 4
A.connect(A.modules[1], A.output)
A.modules[3].out_links.append(0)
check(pbytes(B) == ref, "B changed after mutating A")
check(pbytes(clone) == cref, "clone changed after mutating original")
c3 = build()
check(pbytes(c3) == ref, "fresh project differs")
clone.modules[1].volume = 2
clone.modules[1].in_links.append(9)
A2 = pbytes(A)
check(pbytes(A) == A2 and A.modules[1].volume == 1, "original changed after mutating clone")
for mod_a, mod_b in zip(A.modules, B.modules):
    for k in CONTAINERS:
        check(getattr(mod_a, k) is not getattr(mod_b, k), f"project modules share {k}")
for fn in ("lfo", "echo", "delay", "loop", "vibrato", "generator", "amplifier"):
    path = f"tests/files/{fn}.sunsynth"
    s1, s2 = read_sunvox_file(path), read_sunvox_file(path)
    r = s2.read()
    check(s1.read() == r, f"{fn}: load twice")
    for k, c in type(s1.module).controllers.items():
        v = other_value(s1.module, k, c)
        if v is not None:
            setattr(s1.module, k, v)
    s1.module.name = "other"
    check(s2.read() == r, f"{fn}: B changed")
    check(s1.read() != r, f"{fn}: A unchanged?")
    check(read_sunvox_file(path).read() == r, f"{fn}: reload")

if failures:
    print("FAIL")
    for f_ in failures:
        print(" -", f_)
    sys.exit(1)
print("PASS")
