"""Behaviour check for Pattern.raw_data and the SMII / SFGS packed chunks."""
import random
import struct
import sys
from io import BytesIO
from struct import pack, unpack

import rv.api
from rv.api import NOTECMD, Note, Pattern, Project, read_sunvox_file
from rv.modules.amplifier import Amplifier
from rv.readers.module import ModuleReader
from rv.readers.sunvox import SunVoxReader

failures = []


def check(cond, msg):
    if not cond:
        failures.append(msg)


def outcome(fn):
    try:
        return ("ok", fn())
    except Exception as e:  # noqa: BLE001
        return ("err", type(e))


rng = random.Random(123)
CMDS = list(NOTECMD)


def random_cell():
    return pack(
        "<BBHHH",
        rng.choice(CMDS),
        rng.randrange(130),
        rng.randrange(0x10000),
        rng.randrange(0x10000),
        rng.randrange(0x10000),
    )


# ---------------------------------------------------------------- Pattern.raw_data
shapes = [(t, l) for t in (1, 2, 3, 4, 7, 16, 32) for l in (1, 2, 3, 5, 32, 33)]
for tracks, lines in shapes:
    p = Pattern(tracks=tracks, lines=lines)
    empty = p.raw_data
    check(empty == b"\0" * (8 * tracks * lines), f"empty image {tracks}x{lines}")
    image = b"".join(random_cell() for _ in range(tracks * lines))
    p.raw_data = image
    check(p.raw_data == image, f"roundtrip {tracks}x{lines}")
    check(type(p.raw_data) is bytes, "bytes type")
    # row-major placement of every cell
    for line_no in range(lines):
        for track_no in range(tracks):
            i = line_no * tracks + track_no
            note = p.data[line_no][track_no]
            check(note.raw_data == image[i * 8 : i * 8 + 8], f"cell {line_no},{track_no}")
            check(note.pattern is p, "notes keep their pattern")
    # data is the cells in row-major order
    flat = [n for row in p.data for n in row]
    check(b"".join(n.raw_data for n in flat) == image, "row-major order")
    check(len(p.data) == lines and all(len(r) == tracks for r in p.data), "shape kept")
    # bytearray and memoryview images load the same way
    q = Pattern(tracks=tracks, lines=lines)
    q.raw_data = bytearray(image)
    check(q.raw_data == image, "bytearray image")
    q = Pattern(tracks=tracks, lines=lines)
    q.raw_data = memoryview(image)
    check(q.raw_data == image, "memoryview image")
    # longer input: the tail is ignored
    q = Pattern(tracks=tracks, lines=lines)
    q.raw_data = image + b"\xff" * 11
    check(q.raw_data == image, "extra bytes ignored")
    # an edit of one note shows up at exactly its 8 bytes
    line_no, track_no = rng.randrange(lines), rng.randrange(tracks)
    p.data[line_no][track_no].raw_data = b"\x01\x02\x03\x04\x05\x06\x07\x08"
    i = (line_no * tracks + track_no) * 8
    want = image[:i] + b"\x01\x02\x03\x04\x05\x06\x07\x08" + image[i + 8 :]
    check(p.raw_data == want, "single cell edit")

# short input: struct.error after the complete leading cells were stored
for tracks, lines, keep in ((4, 4, 0), (4, 4, 8), (4, 4, 37), (3, 5, 3 * 8 * 2 + 4), (1, 3, 23)):
    p = Pattern(tracks=tracks, lines=lines)
    before = b"".join(random_cell() for _ in range(tracks * lines))
    p.raw_data = before
    image = b"".join(random_cell() for _ in range(tracks * lines))
    got = outcome(lambda: setattr(p, "raw_data", image[:keep]))
    check(got == ("err", struct.error), f"short image {keep}: {got}")
    whole = keep // 8 * 8
    check(p.raw_data == image[:whole] + before[whole:], f"partial load {keep}")

# non-bytes input
p = Pattern(tracks=2, lines=2)
check(outcome(lambda: setattr(p, "raw_data", None)) == ("err", TypeError), "None image")
check(outcome(lambda: setattr(p, "raw_data", 5)) == ("err", TypeError), "int image")

# shape attributes changed after the cells were allocated
p = Pattern(tracks=2, lines=2)
p.data
p.lines = 3
check(
    outcome(lambda: setattr(p, "raw_data", b"\x01" * 48)) == ("err", IndexError),
    "more lines than rows",
)
check(p.raw_data == b"\x01" * 32, "rows that exist were loaded")
p = Pattern(tracks=2, lines=3)
p.data
p.lines = 2
p.raw_data = b"\x02" * 48
check(p.raw_data == b"\x02" * 32 + b"\0" * 16, "fewer lines than rows")
p = Pattern(tracks=3, lines=2)
p.data
p.tracks = 2
image = bytes(range(32))
p.raw_data = image
check(
    p.raw_data == image[0:16] + b"\0" * 8 + image[16:32] + b"\0" * 8,
    "fewer tracks than columns",
)
p = Pattern(tracks=2, lines=2)
p.data
p.tracks = 3
check(
    outcome(lambda: setattr(p, "raw_data", bytes(48))) == ("err", IndexError),
    "more tracks than columns",
)

# raw_data allocates the cells lazily, and PDTA is the first chunk
p = Pattern(tracks=3, lines=2)
check(not hasattr(p, "_data"), "no cells yet")
chunks = list(p.iff_chunks())
check(chunks[0] == (b"PDTA", b"\0" * 48), "PDTA chunk")
check(hasattr(p, "_data"), "cells allocated on read")

# set_via_fn then raw_data
p = Pattern(tracks=2, lines=3)
p.set_via_fn(lambda pat, line, track: Note(note=NOTECMD.C4, vel=line + 1, val=track))
want = b"".join(
    pack("<BBHHH", NOTECMD.C4, line + 1, 0, 0, track)
    for line in range(3)
    for track in range(2)
)
check(p.raw_data == want, "set_via_fn image")


# ---------------------------------------------------------------- SMII
def chunk_of(chunks, name):
    found = [data for n, data in chunks if n == name]
    check(len(found) == 1, f"exactly one {name!r} chunk")
    return found[0]


for always in (False, True, 0, 1):
    for channel in list(range(0, 18)) + [31, 0x7FFF, 0x7FFFFFFF]:
        m = Amplifier(midi_in_always=always, midi_in_channel=channel)
        for in_project in (False, True):
            data = chunk_of(list(m.iff_chunks(in_project=in_project)), b"SMII")
            check(data == pack("<I", int(always) + channel * 2), f"SMII {always} {channel}")
        r = ModuleReader(BytesIO(), 1)
        r.object = Amplifier()
        r.process_SMII(data)
        check(r.object.midi_in_always is bool(always), "always decoded as bool")
        check(r.object.midi_in_channel == channel, "channel decoded")
        check(type(r.object.midi_in_channel) is int, "channel is int")

for word in [0, 1, 2, 3, 0xFFFFFFFF, 0xFFFFFFFE, 0x80000000, 0x80000001] + [
    rng.randrange(1 << 32) for _ in range(300)
]:
    r = ModuleReader(BytesIO(), 1)
    r.object = Amplifier()
    r.process_SMII(pack("<I", word))
    check(r.object.midi_in_always is bool(word & 1), f"SMII always {word:#x}")
    check(r.object.midi_in_channel == word >> 1, f"SMII channel {word:#x}")
    data = chunk_of(list(r.object.iff_chunks()), b"SMII")
    check(data == pack("<I", word), f"SMII rewrite {word:#x}")

r = ModuleReader(BytesIO(), 1)
r.object = Amplifier()
for bad in (b"", b"\0\0\0", b"\0" * 5):
    check(outcome(lambda: r.process_SMII(bad)) == ("err", struct.error), "SMII size")

# chunk position: SMII directly follows SCOL
names = [n for n, _ in Amplifier().iff_chunks(in_project=True)]
check(names[names.index(b"SCOL") + 1] == b"SMII", "SMII after SCOL")
# values that cannot be packed
m = Amplifier(midi_in_channel=0x80000000)
check(outcome(lambda: list(m.iff_chunks())) == ("err", struct.error), "channel too wide")
m = Amplifier(midi_in_channel=-1)
check(outcome(lambda: list(m.iff_chunks())) == ("err", struct.error), "negative channel")
m = Amplifier(midi_in_channel=None)
check(outcome(lambda: list(m.iff_chunks())) == ("err", TypeError), "channel None")
m = Amplifier(midi_in_channel=1.0)
check(outcome(lambda: list(m.iff_chunks())) == ("err", TypeError), "channel float")
m = Amplifier(midi_in_always="x")
check(outcome(lambda: list(m.iff_chunks())) == ("err", ValueError), "always not int-able")

# ---------------------------------------------------------------- SFGS
Sync = Project.SyncCommand
check(list(Sync) == [Sync.start_stop, Sync.tempo, Sync.position], "SyncCommand members")
for midi in range(8):
    for other in range(8):
        proj = Project()
        proj.receive_sync_midi = midi
        proj.receive_sync_other = other
        chunks = list(proj.chunks())
        data = chunk_of(chunks, b"SFGS")
        check(data == pack("<I", midi | other << 3), f"SFGS {midi} {other}")
        names = [n for n, _ in chunks]
        check(names[names.index(b"SFGS") - 1] == b"FLGS", "SFGS after FLGS")
        check(names[names.index(b"SFGS") + 1] == b"BPM ", "SFGS before BPM")
        # full file round trip
        f = BytesIO()
        proj.write_to(f)
        f.seek(0)
        back = read_sunvox_file(f)
        check(back.receive_sync_midi == midi, "file roundtrip midi")
        check(back.receive_sync_other == other, "file roundtrip other")
        check(type(back.receive_sync_midi) is int, "plain int after load")
        check(type(back.receive_sync_other) is int, "plain int after load")

proj = Project()
check(chunk_of(list(proj.chunks()), b"SFGS") == pack("<I", 0b001001), "default SFGS")
proj.receive_sync_midi = Sync.start_stop | Sync.position
proj.receive_sync_other = Sync.tempo
check(chunk_of(list(proj.chunks()), b"SFGS") == pack("<I", 0b010101), "enum SFGS")
# the writer does not mask: out-of-domain values spill over as before
proj.receive_sync_midi = 0b1000
proj.receive_sync_other = 0b1001
check(chunk_of(list(proj.chunks()), b"SFGS") == pack("<I", 0b1001000 | 0b1000), "no mask")
proj.receive_sync_other = None
check(outcome(lambda: list(proj.chunks())) == ("err", TypeError), "SFGS None")

for word in [0, 0x3F, 0x40, 0xFFFFFFFF, 0xFFFFFFC0] + [rng.randrange(1 << 32) for _ in range(300)]:
    r = SunVoxReader(BytesIO())
    r.object = Project()
    r.process_SFGS(pack("<I", word))
    check(r.object.receive_sync_midi == word & 7, f"SFGS midi {word:#x}")
    check(r.object.receive_sync_other == (word >> 3) & 7, f"SFGS other {word:#x}")
    data = chunk_of(list(r.object.chunks()), b"SFGS")
    check(data == pack("<I", word & 0x3F), "SFGS rewrite keeps the six defined bits")
r = SunVoxReader(BytesIO())
r.object = Project()
for bad in (b"", b"\0\0", b"\0" * 8):
    check(outcome(lambda: r.process_SFGS(bad)) == ("err", struct.error), "SFGS size")

# ---------------------------------------------------------------- whole project
proj = Project()
amp = proj.new_module(Amplifier, midi_in_always=True, midi_in_channel=9)
pat = Pattern(tracks=3, lines=4)
image = b"".join(random_cell() for _ in range(12))
pat.raw_data = image
proj.attach_pattern(pat)
proj.receive_sync_midi = 5
proj.receive_sync_other = 2
f = BytesIO()
proj.write_to(f)
first = f.getvalue()
back = read_sunvox_file(BytesIO(first))
check(back.patterns[0].raw_data == image, "pattern image survives the file")
check(back.modules[amp.index].midi_in_always is True, "midi_in_always survives")
check(back.modules[amp.index].midi_in_channel == 9, "midi_in_channel survives")
check((back.receive_sync_midi, back.receive_sync_other) == (5, 2), "sync survives")
g = BytesIO()
back.write_to(g)
check(g.getvalue() == first, "second save is byte-identical")

if failures:
    print("FAIL", len(failures), failures[:10])
    sys.exit(1)
print("PASS")
