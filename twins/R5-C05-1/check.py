"""Behaviour check for C05-1: raw <-> user controller value conversion.

Exercises Range/NoOffsetRange/CompactRange/WarnOnlyRange raw conversion,
Controller.set_initial, Module.get_raw/set_raw (in-range, out-of-range, in both
"raise" and "warn" modes, including the exact messages, logger names and
exception chaining), and the C05 property itself (load/save idempotence with
out-of-range CVALs, purity of saving) on every fixture.

Run as: cd <root> && PYTHONPATH=<root>/src/python /venv/bin/python check.py
"""
import hashlib
from collections import defaultdict
import logging
import random
import struct
import sys
from enum import Enum
from io import BytesIO
from pathlib import Path

import rv
import rv.api  # noqa: F401  (registers all module classes)
from rv import errors
from rv.controller import (
    CompactRange,
    Controller,
    DependentRange,
    NoOffsetRange,
    Range,
    WarnOnlyRange,
)
from rv.errors import (
    ControllerValueError,
    RangeValidationError,
    override_raise_controller_value_errors,
)
from rv.modules import MODULE_CLASSES
from rv.readers.reader import read_sunvox_file

ROOT = Path(rv.__file__).resolve().parents[3]
FILES = ROOT / "tests" / "files"

failures = []


def check(cond, msg):
    if not cond:
        failures.append(msg)
        print("FAIL:", msg)


class Capture(logging.Handler):
    def __init__(self):
        super().__init__(level=logging.WARNING)
        self.records = []

    def emit(self, record):
        exc = record.exc_info[1] if record.exc_info else None
        self.records.append(
            (record.name, record.levelname, record.getMessage(), repr(exc))
        )


capture = Capture()
logging.getLogger().addHandler(capture)
logging.getLogger().setLevel(logging.WARNING)


# --------------------------------------------------------------------------
# 1. Range conversions
# --------------------------------------------------------------------------
def test_ranges():
    values = [-70000, -32768, -600, -129, -128, -1, 0, 1, 127, 128, 300, 428, 65535]
    for cls in (Range, CompactRange, WarnOnlyRange):
        for lo, hi in [(-128, 128), (-16384, 16384), (-1, 1), (0, 256), (1, 2048)]:
            r = cls(lo, hi)
            for v in values:
                off = -lo if lo < 0 else 0
                check(r.to_raw_value(v) == v + off, f"{r!r}.to_raw_value({v})")
                check(r.from_raw_value(v) == v - off, f"{r!r}.from_raw_value({v})")
                check(
                    r.from_raw_value(r.to_raw_value(v)) == v,
                    f"{r!r} raw roundtrip {v}",
                )
                check(type(r.to_raw_value(v)) is int, "int stays int")
    # non-negative minimum returns the very same object (no arithmetic at all)
    r = Range(0, 10)
    for v in (True, 3.5, 7):
        check(r.to_raw_value(v) is v, "to_raw identity for min >= 0")
        check(r.from_raw_value(v) is v, "from_raw identity for min >= 0")
    check(Range(-4, 4).to_raw_value(1.5) == 5.5, "float offset")
    check(Range(-4, 4).from_raw_value(5.5) == 1.5, "float offset back")
    n = NoOffsetRange(-128, 128)
    for v in values + [True, 2.5]:
        check(n.to_raw_value(v) is v, f"NoOffsetRange.to_raw_value({v})")
        check(n.from_raw_value(v) is v, f"NoOffsetRange.from_raw_value({v})")
    check(isinstance(n, Range), "NoOffsetRange is a Range")
    check(repr(n) == "<NoOffsetRange -128..128>", "repr")
    check(Range(-1, 1) == Range(-1, 1) and Range(-1, 1) != NoOffsetRange(-1, 1), "eq")
    # validation
    check(Range(-2, 2)(2) == 2 and Range(-2, 2)(-2) == -2, "bounds inclusive")
    for bad in (-3, 3):
        try:
            Range(-2, 2)(bad)
        except RangeValidationError as e:
            check(e.args == (bad, -2, 2), "RangeValidationError args")
        else:
            check(False, "Range did not raise")
    del capture.records[:]
    check(WarnOnlyRange(1, 4)(9) == 9, "WarnOnlyRange returns value")
    check(
        capture.records == [("rv.controller", "WARNING", "(9, 1, 4)", "None")],
        f"WarnOnlyRange log {capture.records}",
    )


# --------------------------------------------------------------------------
# 2. Controller.set_initial / Module.get_raw / Module.set_raw
# --------------------------------------------------------------------------
def expect_cve(fn, message, cause_args):
    try:
        fn()
    except ControllerValueError as e:
        check(isinstance(e, ValueError), "ControllerValueError is ValueError")
        check(e.args == (message,), f"message {e.args!r} != {message!r}")
        check(
            isinstance(e.__cause__, RangeValidationError)
            and e.__cause__.args == cause_args,
            f"cause {e.__cause__!r}",
        )
    else:
        check(False, f"no ControllerValueError for {message}")


def test_set_initial_and_raw():
    m = rv.api.m
    amp = m.Amplifier()
    check(amp.get_raw("balance") == 128, "amp default balance raw")
    check(amp.get_raw("volume") == 256, "amp default volume raw")
    check(amp.get_raw("inverse") == 0, "bool raw")
    amp.balance = -128
    check(amp.get_raw("balance") == 0, "min -> 0")
    amp.balance = 128
    check(amp.get_raw("balance") == 256, "max -> 256")
    # raise mode (default): user facing
    check(errors.RAISE_CONTROLLER_VALUE_ERRORS is True, "default raise mode")
    expect_cve(
        lambda: setattr(amp, "balance", 300),
        "0(Amplifier).balance=300 is not within [-128, 128]",
        (300, -128, 128),
    )
    check(amp.balance == 128, "rejected value not stored")
    expect_cve(
        lambda: amp.set_raw("balance", 428),
        "0(Amplifier).balance=300 is not within [-128, 128]",
        (300, -128, 128),
    )
    check(amp.balance == 128, "rejected raw value not stored")
    expect_cve(
        lambda: m.Amplifier(volume=5000),
        "0(Amplifier).volume=5000 is not within [0, 1024]",
        (5000, 0, 1024),
    )
    p = rv.api.Project()
    mods = [p.new_module(m.Amplifier) for _ in range(11)]
    expect_cve(
        lambda: mods[-1].set_raw("dc_offset", -5),
        "b(Amplifier).dc_offset=-133 is not within [-128, 128]",
        (-133, -128, 128),
    )
    for name in ("nope",):
        for fn in (lambda: amp.get_raw(name), lambda: amp.set_raw(name, 1)):
            try:
                fn()
            except KeyError as e:
                check(e.args == (name,), "KeyError for unknown controller")
            else:
                check(False, "unknown controller accepted")

    # warn mode: what reading a file uses
    with override_raise_controller_value_errors(False):
        del capture.records[:]
        amp.set_raw("balance", 428)
        check(amp.balance == 300, "out-of-range raw kept as user value 300")
        check(amp.get_raw("balance") == 428, "and written back as 428")
        check(
            capture.records
            == [
                (
                    "rv.modules.module",
                    "WARNING",
                    "0(Amplifier).balance=300 is not within [-128, 128]",
                    "RangeValidationError(300, -128, 128)",
                )
            ],
            f"set_raw warning {capture.records}",
        )
        del capture.records[:]
        amp.balance = -999
        check(amp.balance == -999 and amp.get_raw("balance") == -871, "warn set")
        check(
            capture.records
            == [
                (
                    "rv.controller",
                    "WARNING",
                    "0(Amplifier).balance=-999 is not within [-128, 128]",
                    "RangeValidationError(-999, -128, 128)",
                )
            ],
            f"set_initial warning {capture.records}",
        )
        for raw in (-(2**31), -1, 0, 1, 128, 256, 257, 300, 428, 556, 2**31 - 1):
            for name in ("volume", "balance", "dc_offset", "bipolar_dc_offset"):
                amp.set_raw(name, raw)
                check(amp.get_raw(name) == raw, f"raw stable {name} {raw}")
    check(errors.RAISE_CONTROLLER_VALUE_ERRORS is True, "raise mode restored")

    # enum controllers, by member, by name, by raw
    gen = m.AnalogGenerator()
    wf = type(gen.waveform)
    check(isinstance(gen.waveform, Enum), "enum controller")
    gen.waveform = "saw"
    check(gen.waveform is wf.saw and gen.get_raw("waveform") == wf.saw.value, "by name")
    gen.set_raw("waveform", wf.square.value)
    check(gen.waveform is wf.square, "enum from raw")
    try:
        gen.set_raw("waveform", 9999)
    except ValueError as e:
        check(not isinstance(e, ControllerValueError), "bad enum raw is a plain ValueError")
    else:
        check(False, "bad enum raw accepted")
    try:
        gen.waveform = "no_such_waveform"
    except KeyError:
        pass
    else:
        check(False, "bad enum name accepted")
    gen.set_raw("osc2", 0)
    check(gen.osc2 == -1000, "osc2 raw 0")
    gen.set_raw("filter", 1)
    check(gen.get_raw("filter") == 1, "filter raw")

    # bool controllers keep bools
    amp.set_raw("inverse", 1)
    check(amp.inverse is True and amp.get_raw("inverse") == 1, "bool from raw")
    amp.set_raw("inverse", 0)
    check(amp.inverse is False, "bool false from raw")

    # NoOffsetRange
    vp = m.VorbisPlayer()
    vp.set_raw("finetune", -5)
    check(vp.finetune == -5 and vp.get_raw("finetune") == -5, "vorbis finetune")
    vp.set_raw("transpose", 5)
    check(vp.transpose == -123 and vp.get_raw("transpose") == 5, "vorbis transpose")
    with override_raise_controller_value_errors(False):
        vp.set_raw("finetune", 300)
        check(vp.finetune == 300 and vp.get_raw("finetune") == 300, "vorbis oor")

    # CompactRange
    ms = m.MultiSynth()
    ms.set_raw("transpose", 126)
    check(ms.transpose == -2 and ms.get_raw("transpose") == 126, "multisynth")

    # dependent ranges (LFO freq depends on frequency_unit)
    lfo = m.Lfo()
    check(isinstance(type(lfo).freq.value_type, DependentRange), "dependent")
    del capture.records[:]
    lfo.set_raw("freq", 2049)
    check(lfo.freq == 2049 and lfo.get_raw("freq") == 2049, "warn-only keeps value")
    check(
        capture.records == [("rv.controller", "WARNING", "(2049, 1, 2048)", "None")],
        f"lfo warn-only {capture.records}",
    )

    # MetaModule user defined controllers go through the proxy
    mm = m.MetaModule()
    mm.user_defined_controllers = 3
    mm.set_raw("user_defined_2", 1234)
    check(mm.user_defined_2 == 1234, "metamodule set_raw")
    check(mm.get_raw("user_defined_2") == 1234, "metamodule get_raw")
    check(mm.get_raw("user_defined_90") == 0, "detached user defined raw")
    expect_cve(
        lambda: mm.set_raw("user_defined_1", 50000),
        "0(MetaModule).user_defined_1=50000 is not within [0, 44100]",
        (50000, 0, 44100),
    )

    # None-typed values are saved as 0
    class FakeRange(Range):
        pass

    ctl = Controller((0, 5), 2)
    check(isinstance(ctl.value_type, Range), "tuple -> Range")

    # every controller of every module class: default get_raw / set_raw roundtrip
    digest = hashlib.sha256()
    with override_raise_controller_value_errors(False):
        for mtype in sorted(MODULE_CLASSES):
            mod = MODULE_CLASSES[mtype]()
            for name in mod.controllers:
                raw = mod.get_raw(name)
                check(isinstance(raw, int), f"{mtype}.{name} raw is int")
                before = mod.controller_values[name]
                mod.set_raw(name, raw)
                after = mod.controller_values[name]
                check(
                    before == after and type(before) is type(after),
                    f"{mtype}.{name} default survives raw roundtrip",
                )
                digest.update(f"{mtype}.{name}={raw};".encode())
    return digest.hexdigest()


# --------------------------------------------------------------------------
# 3. The property: idempotent load/save, pure save, with mutated CVALs
# --------------------------------------------------------------------------
def iter_chunks(data):
    pos = 0
    while pos + 8 <= len(data):
        name = data[pos : pos + 4]
        (size,) = struct.unpack("<I", data[pos + 4 : pos + 8])
        yield name, data[pos + 8 : pos + 8 + size]
        pos += 8 + size


def build(chunks):
    return b"".join(n + struct.pack("<I", len(d)) + d for n, d in chunks)


INTERESTING = [-(2**31), -70000, -1, 0, 1, 127, 128, 255, 256, 300, 428, 556, 32768, 70000, 2**31 - 1]


def load(data):
    return read_sunvox_file(BytesIO(data))


def loadable(data):
    try:
        load(data)
    except Exception:
        return False
    return True


def set_cvals(data, values):
    """Replace the top-level CVAL chunks whose ordinal is in ``values``."""
    out = []
    ordinal = 0
    for name, payload in iter_chunks(data):
        if name == b"CVAL":
            if ordinal in values:
                payload = struct.pack("<i", values[ordinal])
            ordinal += 1
        out.append((name, payload))
    return build(out)


def free_cvals(data, limit=60):
    """Ordinals of CVALs that accept arbitrary values (ranges, not enums)."""
    count = sum(1 for name, _ in iter_chunks(data) if name == b"CVAL")
    return [
        i
        for i in range(min(count, limit))
        if loadable(set_cvals(data, {i: 70000}))
        and loadable(set_cvals(data, {i: -70000}))
    ]


def mutate_cvals(data, free, rng):
    values = {}
    for i in free:
        if rng.random() < 0.7:
            if rng.random() < 0.6:
                values[i] = rng.choice(INTERESTING)
            else:
                values[i] = rng.randint(-2000, 70000)
    return set_cvals(data, values)


def snap(obj, memo=None, depth=0):
    memo = {} if memo is None else memo
    if isinstance(obj, (int, float, str, bytes, bool, type(None), Enum)):
        return repr(obj)
    if isinstance(obj, type) or callable(obj) and not hasattr(obj, "__dict__"):
        return getattr(obj, "__qualname__", type(obj).__name__)
    if isinstance(obj, type(snap)):
        return obj.__qualname__
    if id(obj) in memo:
        return f"<ref {type(obj).__name__}>"
    memo[id(obj)] = len(memo)
    if isinstance(obj, defaultdict):
        # reading a missing key creates it; only non-default entries are state
        blank = snap(obj.default_factory())
        items = {repr(k): snap(v, memo, depth + 1) for k, v in obj.items()}
        return {k: v for k, v in items.items() if v != blank}
    if isinstance(obj, dict):
        return {repr(k): snap(v, memo, depth + 1) for k, v in obj.items()}
    if isinstance(obj, (list, tuple)):
        return [snap(v, memo, depth + 1) for v in obj]
    if isinstance(obj, (set, frozenset)):
        return sorted(repr(v) for v in obj)
    if isinstance(obj, bytearray):
        return repr(bytes(obj))
    state = {}
    if hasattr(obj, "__dict__"):
        state.update(vars(obj))
    for klass in type(obj).__mro__:
        for slot in getattr(klass, "__slots__", ()):
            if hasattr(obj, slot):
                state[slot] = getattr(obj, slot)
    if not state:
        return repr(obj) if type(obj).__repr__ is not object.__repr__ else type(obj).__name__
    return {
        "__class__": type(obj).__name__,
        **{k: snap(v, memo, depth + 1) for k, v in sorted(state.items())},
    }


def test_property():
    rng = random.Random(50501)
    digest = hashlib.sha256()
    paths = sorted(
        p for p in FILES.rglob("*") if p.suffix in (".sunvox", ".sunsynth")
    )
    check(len(paths) >= 50, f"found only {len(paths)} fixtures")
    cases = 0
    for path in paths:
        original = path.read_bytes()
        free = free_cvals(original)
        variants = [original] + [mutate_cvals(original, free, rng) for _ in range(3)]
        for i, x in enumerate(variants):
            tag = f"{path.name}#{i}"
            del capture.records[:]
            try:
                obj = load(x)
            except Exception as e:  # not loadable: outside the property
                digest.update(f"{tag}:ERR:{type(e).__name__}:{e};".encode())
                continue
            for rec in capture.records:
                digest.update(repr(rec).encode())
            before = snap(obj)
            y = obj.read()
            y_again = obj.read()
            check(y == y_again, f"{tag}: saving twice differs")
            check(snap(obj) == before, f"{tag}: saving changed the object")
            cur = y
            for n in range(3):
                nxt = load(cur).read()
                check(nxt == y, f"{tag}: drift at cycle {n + 2}")
                cur = nxt
            # the CVALs we wrote are the CVALs that come back (top level)
            if i:
                xin = [d for n, d in iter_chunks(x) if n == b"CVAL"]
                yout = [d for n, d in iter_chunks(y) if n == b"CVAL"]
                if len(xin) == len(yout):
                    digest.update(bytes([a == b for a, b in zip(xin, yout)]))
            digest.update(hashlib.sha256(y).digest())
            cases += 1
    check(cases >= 150, f"only {cases} loadable cases")
    # the snapshot really sees controller state
    probe = load((FILES / "amplifier.sunsynth").read_bytes())
    s0 = snap(probe)
    probe.module.controller_values["balance"] += 1
    check(snap(probe) != s0, "snapshot is blind to controller values")
    if "--print" in sys.argv:
        print("cases", cases)
    return digest.hexdigest()


EXPECTED_RAW_DIGEST = "beebb1e93ec7b5802f9ee7bdaffbec3fd679639a254c4e22dbf0d3c23f6fa5a0"
EXPECTED_PROPERTY_DIGEST = "c9384315139c40c7d7d2baf95f9b8a761cf17cbddd3a25adad358231903d9f26"


def main():
    test_ranges()
    raw_digest = test_set_initial_and_raw()
    prop_digest = test_property()
    if "--print" in sys.argv:
        print("raw", raw_digest)
        print("prop", prop_digest)
    else:
        check(raw_digest == EXPECTED_RAW_DIGEST, f"raw digest {raw_digest}")
        check(prop_digest == EXPECTED_PROPERTY_DIGEST, f"property digest {prop_digest}")
    if failures:
        print(f"{len(failures)} failure(s)")
        sys.exit(1)
    print("PASS")


if __name__ == "__main__":
    main()
