"""Behaviour check for Module construction (index/parent back-references,
controller initialisation order, keyword settings), Module.__repr__/__int__/
__hash__ and the `>>` / `<<` operators of Module and ModuleList.

Run from the repository root with PYTHONPATH=<root>/src/python.
"""
import glob
import os
import sys
import warnings
from io import BytesIO

from rv.api import Note, Pattern, Project, m, read_sunvox_file
from rv.controller import DependentRange
from rv.errors import ControllerValueError, ModuleOwnershipError
from rv.modules import MODULE_CLASSES
from rv.modules.module import DisconnectingModule, Module, ModuleList
from rv.modules.output import Output

CHECKS = 0


def ok(cond, msg):
    global CHECKS
    CHECKS += 1
    if not cond:
        print("FAIL:", msg)
        sys.exit(1)


def raises(exc, fn, *a, **kw):
    try:
        fn(*a, **kw)
    except exc as e:
        return e
    except Exception as e:
        ok(False, f"expected {exc.__name__}, got {type(e).__name__}: {e}")
    ok(False, f"expected {exc.__name__}, nothing raised")


def roundtrip(p):
    f = BytesIO()
    p.write_to(f)
    f.seek(0)
    return read_sunvox_file(f)


def coherent(p, label):
    ok(p.modules[0] is p.output, f"{label}: output at 0")
    for i, mod in enumerate(p.modules):
        if mod is not None:
            ok(mod.index == i and mod.parent is p and int(mod) == i + 1, f"{label}: slot {i}")
            ok(hash(mod) == hash((id(p), i)), f"{label}: hash {i}")


SETTINGS = {
    "mod_finetune": ("finetune", 0, -17),
    "mod_relative_note": ("relative_note", 0, 12),
    "x": ("x", 512, 100),
    "y": ("y", 512, -40),
    "layer": ("layer", 0, 3),
    "mod_scale": ("mod_scale", 256, 300),
    "color": ("color", (255, 255, 255), (1, 2, 3)),
    "midi_in_always": ("midi_in_always", False, True),
    "midi_in_channel": ("midi_in_channel", 0, 5),
    "midi_out_name": ("midi_out_name", None, "dev"),
    "midi_out_channel": ("midi_out_channel", 0, 7),
    "midi_out_bank": ("midi_out_bank", -1, 2),
    "midi_out_program": ("midi_out_program", -1, 9),
}

# --- every registered module type: defaults and bookkeeping ---------------
classes = sorted(set(MODULE_CLASSES.values()), key=lambda c: c.__name__)
ok(len(classes) > 30, "module classes registered")
for cls in classes:
    if cls is Output or cls.__name__ == "Output":
        mod = Output()
    else:
        mod = cls()
    ok(mod.index is None or (isinstance(mod, Output) and mod.index is None), f"{cls.__name__}: index default")
    ok(mod.parent is None, f"{cls.__name__}: parent default")
    for attr_name, (key, default, _) in SETTINGS.items():
        ok(getattr(mod, attr_name) == default, f"{cls.__name__}.{attr_name} default")
    ok(int(mod.visualization) == 0x000C0101 or mod.visualization is not None, "visualization set")
    ok(mod._visualization == 0x000C0101, "visualization raw default")
    ok((mod.in_links, mod.in_link_slots, mod.out_links, mod.out_link_slots) == ([], [], [], []), "links empty")
    ok(len({id(mod.in_links), id(mod.in_link_slots), id(mod.out_links), id(mod.out_link_slots)}) == 4, "distinct lists")
    names = list(cls.controllers)
    plain = [k for k in names if not isinstance(cls.controllers[k].value_type, DependentRange)]
    dep = [k for k in names if isinstance(cls.controllers[k].value_type, DependentRange)]
    ok(list(mod.controller_values) == plain + dep, f"{cls.__name__}: controller init order")
    ok(mod.controllers_loaded == set(names), f"{cls.__name__}: controllers loaded")
    for k in names:
        c = cls.controllers[k]
        got = mod.controller_values[k]
        if c.default is None or got is None:
            continue
        ok(got == c.default or int(got) == int(c.default), f"{cls.__name__}.{k} default value")
    for k, opt in cls.options.items():
        ok(getattr(mod, k) == opt.default, f"{cls.__name__}.{k} option default")
    ok("name" in vars(mod) or isinstance(mod, Output), "name copied to instance")
    expect = f"<{cls.__name__}>" if mod.name == mod.mtype else f"<{cls.__name__} name={mod.name}>"
    ok(repr(mod) == expect, f"repr {repr(mod)} vs {expect}")
    raises(TypeError, int, mod)  # index None + 1

# --- keyword arguments ----------------------------------------------------
kw = {key: value for (key, _, value) in SETTINGS.values()}
amp = m.Amplifier(index=4, parent=None, name="boost", volume=300, visualization=7, **kw)
for attr_name, (key, default, value) in SETTINGS.items():
    ok(getattr(amp, attr_name) == value, f"kw {key}")
ok(amp.index == 4 and amp.name == "boost" and amp.volume == 300, "index/name/controller kw")
ok(amp._visualization == 7, "visualization kw")
ok(repr(amp) == "<Amplifier index=4 name=boost>", repr(amp))
ok(int(amp) == 5, "int")
ok(hash(amp) == hash((id(None), 4)), "hash unattached")
ok(repr(m.Amplifier(index=0)) == "<Amplifier index=0>", "index 0 shown")
ok(repr(m.Amplifier(name="")) == "<Amplifier name=>", "empty name shown")
ok(repr(Module()) == "<Module>" and repr(Module(index=3)) == "<Module index=3>", "base repr")
ok(Module(name="zz").name == "zz" and Module().name == "", "base name")
# scale keyword: alias for mod_scale unless the module has a `scale` controller
ok(m.Amplifier(scale=111).mod_scale == 111, "scale alias")
ok(m.Amplifier(scale=111, mod_scale=222).mod_scale == 111, "scale wins over mod_scale")
ok(m.Amplifier(mod_scale=222).scale == 222, "scale property")
sm = m.Smooth(scale=222)
ok(sm.mod_scale == 256 and sm.controller_values["scale"] == 222, "Smooth.scale is a controller")
ok(m.Smooth(scale=5, mod_scale=99).mod_scale == 99, "Smooth mod_scale kw")
# options
ok(m.Sampler().option_values is not None, "option values dict")
mm = m.MetaModule(user_defined_controllers=3) if "user_defined_controllers" in m.MetaModule.options else m.MetaModule()
ok(mm.parent is None, "metamodule constructs")
# Output ignores names
o = Output(name="nope")
ok(o.name == "Output" and repr(o) == "<Output>", "Output name fixed")
ok(Output.index == 0 and Output().index is None, "Output index class attr vs instance")

# --- dependent-range controllers see the unit given in the same call -------
lf = m.Lfo(frequency_unit=m.Lfo.FrequencyUnit.ms, freq=3000)
ok(lf.freq == 3000 and list(lf.controller_values)[-1] == "freq", "Lfo freq initialised last")
ec = m.Echo(delay_unit=m.Echo.DelayUnit.hz, delay=8000)
ok(ec.delay == 8000 and list(ec.controller_values)[-1] == "delay", "Echo delay initialised last")
with warnings.catch_warnings():
    warnings.simplefilter("ignore")
    try:
        hi = m.Lfo(freq=3000)  # default unit: out of the warn-only range
        ok(hi.freq == 3000, "warn-only range keeps value")
    except ControllerValueError:
        ok(True, "or raises consistently")
raises(ControllerValueError, m.Amplifier, volume=100000)
raises(Exception, m.Lfo, frequency_unit="bogus")

# --- operators ------------------------------------------------------------
p = Project()
g, f1, f2, a = (p.new_module(c) for c in (m.Generator, m.Filter, m.Filter, m.Amplifier))
r = g >> f1
ok(r is f1 and f1.in_links == [g.index] and g.out_links == [f1.index], ">> module")
r = g >> [f1, f2]
ok(type(r) is ModuleList and list(r) == [f1, f2] and r.parent is p, ">> list gives ModuleList")
ok(f2.in_links == [g.index] and f1.in_links == [g.index], "no duplicate link")
r2 = r >> a
ok(r2 is a and a.in_links == [f1.index, f2.index], "ModuleList >> module")
r3 = a >> p.output
ok(r3 is p.output and p.output.in_links == [a.index], ">> output")
r4 = p.output << a
ok(r4 is a and p.output.in_links == [a.index], "<< already connected")
h = p.new_module(m.Reverb)
r5 = h << [f1, f2]
ok(type(r5) is ModuleList and h.in_links == [f1.index, f2.index], "<< list")
r6 = r5 << g
ok(r6 is g, "ModuleList << module")
r7 = ModuleList(p, [f1]) >> [h, a]
ok(type(r7) is ModuleList and list(r7) == [h, a] and a.in_links == [f1.index, f2.index], "ModuleList >> list")
r8 = ModuleList(p, [h]) << ModuleList(p, [a])
ok(type(r8) is ModuleList and h.in_links[-1] == a.index, "ModuleList << ModuleList rewrapped")
tup = g >> (f1,)
ok(tup == (f1,) and type(tup) is tuple, "tuple passes through unchanged")
d = g >> ~f1
ok(isinstance(d, DisconnectingModule) and f1.in_links == [-1] and g.out_links[0] == -1, "disconnect")
ok((~d) is f1 and (~~f1) is f1, "invert twice")
free = m.Amplifier()
raises(AttributeError, lambda: free >> g)  # no parent yet
raises(AttributeError, lambda: free << [g])
snapshot = (list(g.out_links), list(a.in_links))
raises(ModuleOwnershipError, lambda: g >> free)
raises(ModuleOwnershipError, lambda: g >> [free])
q = Project()
qa = q.new_module(m.Amplifier)
raises(ModuleOwnershipError, lambda: g >> qa)
raises(ModuleOwnershipError, lambda: ModuleList(p, [g]) << qa)
ok(snapshot == (list(g.out_links), list(a.in_links)) and qa.in_links == [], "failed connects change nothing")
coherent(p, "after operators")

# --- index/parent follow attachment, also across holes and save/load -------
p = Project()
keep = [p.new_module(m.Amplifier, name=f"k{i}") for i in range(5)]
keep[4] >> p.output
pre = m.Amplifier(index=42, parent=p)
ok(hash(pre) == hash((id(p), 42)), "hash of preset")
p.attach_module(pre)
ok(pre.index == len(p.modules) - 1 and pre.parent is p, "index corrected on attach")
p.modules[2] = None
nm = p.new_module(m.Delay, name="gapfill", x=7)
ok(nm.index == 2 and nm.x == 7 and repr(nm) == "<Delay index=2 name=gapfill>", "gap fill + repr")
pat = Pattern(tracks=1, lines=1)
p += pat
pat.data[0][0].mod = nm
ok(pat.data[0][0].module == int(nm) == 3, "note number from int(module)")
coherent(p, "after gap")
p.modules[4] = None
loaded = roundtrip(p)
coherent(loaded, "loaded")
ok(loaded.modules[4] is None and loaded.modules[2].name == "gapfill", "hole kept")
ok(loaded.patterns[0].data[0][0].mod is loaded.modules[2], "note resolves after load")
ok(loaded.modules[2].x == 7 and loaded.modules[2].in_links == [], "settings roundtrip")
ok(repr(loaded.modules[2]) == "<Delay index=2 name=gapfill>", "loaded repr")
ok(loaded.new_module(m.Amplifier).index == 4, "loaded gap filled")
cl = loaded.modules[2].clone()
ok(cl.parent is None and cl.name == "gapfill" and cl is not loaded.modules[2], "clone detached")

files = sorted(glob.glob(os.path.join("tests", "files", "**", "*.sunvox"), recursive=True))
files += sorted(glob.glob(os.path.join("tests", "files", "*.sunsynth")))
ok(len(files) > 5, "found sample files (run from repository root)")
for path in files:
    obj = read_sunvox_file(path)
    if isinstance(obj, Project):
        coherent(obj, path)
        coherent(roundtrip(obj), path + " rt")
        for mod in obj.modules:
            if mod is not None:
                ok(repr(mod).startswith(f"<{type(mod).__name__} index={mod.index}"), "file repr")
    else:
        mod = obj.module
        ok(mod.parent is None, "synth module unowned")
        ok(set(mod.controllers) == mod.controllers_loaded or mod.controllers_loaded <= set(mod.controllers), "loaded set")

print(f"PASS ({CHECKS} checks)")
