"""Behaviour check for Range / NoOffsetRange / CompactRange / WarnOnlyRange
raw-value conversions (to_raw_value / from_raw_value), directly and through
Module.get_raw / Module.set_raw.

Run as: cd <root> && PYTHONPATH=<root>/src/python /venv/bin/python check.py
"""
import sys

from rv.controller import (
    CompactRange,
    Controller,
    DependentRange,
    NoOffsetRange,
    Range,
    WarnOnlyRange,
)
from rv.modules import MODULE_CLASSES

failures = []


def expect(cond, msg):
    if not cond:
        failures.append(msg)
        if len(failures) > 20:
            finish()


def finish():
    if failures:
        for f in failures:
            print("FAIL:", f)
        sys.exit(1)
    print("PASS")
    sys.exit(0)


def same(a, b):
    """Equal in value and in exact type (bool is not int here)."""
    return type(a) is type(b) and a == b


def ref_to_raw(t, v):
    if isinstance(t, NoOffsetRange):
        return v
    return v - t.min if t.min < 0 else v


def ref_from_raw(t, raw):
    if isinstance(t, NoOffsetRange):
        return raw
    return raw + t.min if t.min < 0 else raw


# --- 1. hand-written ranges, all four kinds, every value ------------------
specs = [(-128, 128), (-1, 1), (-1, 0), (0, 0), (0, 1), (0, 256), (1, 2048),
         (-32768, 32767), (-100, -50), (5, 9), (-7, 300)]
for kind in (Range, WarnOnlyRange, CompactRange, NoOffsetRange):
    for lo, hi in specs:
        t = kind(lo, hi)
        seen = set()
        for v in range(lo, hi + 1):
            raw = t.to_raw_value(v)
            expect(same(raw, ref_to_raw(t, v)), f"{t!r}.to_raw_value({v}) = {raw!r}")
            back = t.from_raw_value(raw)
            expect(same(back, v), f"{t!r} roundtrip {v} -> {raw} -> {back!r}")
            expect(same(t.from_raw_value(v), ref_from_raw(t, v)),
                   f"{t!r}.from_raw_value({v})")
            seen.add(raw)
            if kind is not NoOffsetRange:
                expect(raw >= 0 or lo >= 0, f"{t!r} negative raw for {v}")
                if lo < 0:
                    expect(raw == v - lo, f"{t!r} offset {v}")
            else:
                expect(raw == v, f"{t!r} no-offset {v}")
        expect(len(seen) == hi - lo + 1, f"{t!r} collisions")
        # out-of-range inputs are converted the same way (no validation here)
        for v in (lo - 3, hi + 3, 10 ** 6, -(10 ** 6)):
            expect(same(t.to_raw_value(v), ref_to_raw(t, v)), f"{t!r} oor to {v}")
            expect(same(t.from_raw_value(v), ref_from_raw(t, v)), f"{t!r} oor from {v}")

# exact result types for non-int inputs are preserved (no arithmetic is done
# on values of ranges that are not shifted)
for t in (Range(0, 1), NoOffsetRange(-128, 128), CompactRange(0, 10), WarnOnlyRange(1, 5)):
    for v in (True, False, 1.5):
        expect(same(t.to_raw_value(v), v), f"{t!r}.to_raw_value({v!r}) type")
        expect(same(t.from_raw_value(v), v), f"{t!r}.from_raw_value({v!r}) type")
t = Range(-2, 2)
expect(same(t.to_raw_value(True), 3), "Range(-2,2).to_raw_value(True)")
expect(same(t.from_raw_value(True), -1), "Range(-2,2).from_raw_value(True)")
expect(same(t.to_raw_value(0.5), 2.5), "Range(-2,2).to_raw_value(0.5)")

# public surface unchanged
for kind in (Range, WarnOnlyRange, CompactRange, NoOffsetRange):
    expect(callable(getattr(kind, "to_raw_value")), f"{kind.__name__}.to_raw_value")
    expect(callable(getattr(kind, "from_raw_value")), f"{kind.__name__}.from_raw_value")
expect(issubclass(NoOffsetRange, Range) and issubclass(CompactRange, Range)
       and issubclass(WarnOnlyRange, Range), "class hierarchy")
expect(Range(-1, 1) == Range(-1, 1) and Range(-1, 1) != NoOffsetRange(-1, 1), "__eq__")
expect(repr(NoOffsetRange(-128, 128)) == "<NoOffsetRange -128..128>", "__repr__")
expect(Controller((-5, 5), 0).value_type == Range(-5, 5), "tuple -> Range")

# --- 2. every distinct range used by the library, every value -------------
ranges = {}
for cls in MODULE_CLASSES.values():
    for ctl in cls.controllers.values():
        vt = ctl.value_type
        cands = []
        if isinstance(vt, Range):
            cands = [vt]
        elif isinstance(vt, DependentRange):
            cands = list(vt.range_map.values()) + [vt.default]
        for r in cands:
            ranges[(type(r), r.min, r.max)] = r
expect(len(ranges) > 30, "expected many distinct ranges")
for (kind, lo, hi), r in ranges.items():
    seen = set()
    for v in range(lo, hi + 1):
        raw = r.to_raw_value(v)
        if raw != ref_to_raw(r, v) or r.from_raw_value(raw) != v:
            expect(False, f"{r!r} value {v}: raw {raw}")
        seen.add(raw)
    expect(len(seen) == hi - lo + 1, f"{r!r} collisions")
    if kind is not NoOffsetRange:
        expect(min(seen) >= 0, f"{r!r} negative raw")
        if lo < 0:
            expect(min(seen) == 0 and max(seen) == hi - lo, f"{r!r} bounds")

# --- 3. through Module.get_raw / set_raw ----------------------------------
def probe_values(lo, hi):
    vals = {lo, lo + 1, hi - 1, hi, (lo + hi) // 2, 0, 1, -1}
    vals.update(range(lo, hi + 1, max(1, (hi - lo) // 37)))
    return sorted(v for v in vals if lo <= v <= hi)


def assign(mod, name, v):
    # MetaModule user-defined controllers need a project for propagation;
    # store those directly (get_raw only reads the stored value).
    if name.startswith("user_defined_"):
        mod.controller_values[name] = v
    else:
        setattr(mod, name, v)


n_pairs = 0
for mtype, cls in sorted(MODULE_CLASSES.items()):
    for name, ctl in cls.controllers.items():
        if not isinstance(ctl.value_type, Range):
            continue
        mod = cls()
        t = ctl.instance_value_type(mod)
        for v in probe_values(t.min, t.max):
            assign(mod, name, v)
            raw = mod.get_raw(name)
            expect(same(raw, ref_to_raw(t, v)), f"{mtype}.{name} get_raw {v} -> {raw!r}")
            mod2 = cls()
            mod2.set_raw(name, raw)
            expect(same(getattr(mod2, name), v), f"{mtype}.{name} set_raw {raw} -> {getattr(mod2, name)!r}")
            expect(mod2.get_raw(name) == raw, f"{mtype}.{name} raw roundtrip {raw}")
            n_pairs += 1
expect(n_pairs > 5000, f"too few pairs probed: {n_pairs}")

vp = MODULE_CLASSES["Vorbis player"]()
for v in range(-128, 129):
    vp.finetune = v
    expect(same(vp.get_raw("finetune"), v), f"VorbisPlayer.finetune raw {v}")
    vp.set_raw("finetune", v)
    expect(same(vp.finetune, v), f"VorbisPlayer.finetune set_raw {v}")
ms = MODULE_CLASSES["MultiSynth"]()
for v in range(-128, 129):
    ms.transpose = v
    expect(same(ms.get_raw("transpose"), v + 128), f"MultiSynth.transpose raw {v}")
    ms.set_raw("transpose", v + 128)
    expect(same(ms.transpose, v), f"MultiSynth.transpose set_raw {v}")

finish()
