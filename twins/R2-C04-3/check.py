import hashlib
import io
import logging
import os
import struct
import sys

from rv.api import read_sunvox_file

ROOT = os.getcwd()
FIXTURES = os.path.join(ROOT, "tests", "files")

FAILURES = []

# keep un-captured library warnings off stderr
logging.getLogger("rv").addHandler(logging.NullHandler())


def check(cond, msg):
    if not cond:
        FAILURES.append(msg)
        print("FAIL:", msg)


def fixture_paths():
    out = []
    for dirpath, _, names in os.walk(FIXTURES):
        for n in names:
            if n.endswith(".sunvox") or n.endswith(".sunsynth"):
                out.append(os.path.join(dirpath, n))
    return sorted(out)


# ---- independent chunk codec (does not use rv) ----
def enc(name, data=b""):
    name = name if isinstance(name, bytes) else name.encode("ascii")
    name = name.ljust(4, b" ")
    return name + struct.pack("<I", len(data)) + data


def u32(v):
    return struct.pack("<I", v)


def i32(v):
    return struct.pack("<i", v)


def split_chunks(blob):
    pos = 0
    out = []
    while pos + 8 <= len(blob):
        name = blob[pos : pos + 4]
        (size,) = struct.unpack("<I", blob[pos + 4 : pos + 8])
        out.append((name, blob[pos + 8 : pos + 8 + size]))
        pos += 8 + size
    return out


def join_chunks(chs):
    return b"".join(enc(n, d) for n, d in chs)


# ---- snapshot of public state ----
def snap_module(m):
    if m is None:
        return None
    d = {
        "cls": type(m).__name__,
        "mtype": getattr(m, "mtype", None),
        "index": m.index,
        "name": m.name,
        "flags": m.flags,
        "fin": m.mod_finetune,
        "rel": m.mod_relative_note,
        "xy": (m.x, m.y, m.layer),
        "scale": m.mod_scale,
        "vis": int(m.visualization),
        "color": tuple(m.color),
        "midi": (
            m.midi_in_always,
            m.midi_in_channel,
            m.midi_out_name,
            m.midi_out_channel,
            m.midi_out_bank,
            m.midi_out_program,
        ),
        "in": (list(m.in_links), list(m.in_link_slots)),
        "out": (list(m.out_links), list(m.out_link_slots)),
        "cv": sorted((k, repr(v)) for k, v in m.controller_values.items()),
        "loaded": sorted(m.controllers_loaded),
        "opts": sorted((k, repr(v)) for k, v in m.option_values.items()),
        "cmid": sorted(
            (k, bytes(v.cmid_data)) for k, v in m.controller_midi_maps.items()
        ),
        "chnk": getattr(m, "_reader_chnk", None),
    }
    proj = getattr(m, "project", None)
    if type(m).__name__ == "MetaModule" and proj is not None:
        d["inner"] = snap_project(proj)
    return d


def snap_pattern(p):
    if p is None:
        return None
    if type(p).__name__ == "PatternClone":
        return ("clone", p.source, p.flags_PFFF, p.x, p.y)
    return (
        "pattern",
        p.name,
        p.tracks,
        p.lines,
        p.y_size,
        p.flags_PFLG,
        bytes(p.icon),
        tuple(p.fg_color),
        tuple(p.bg_color),
        p.flags_PFFF,
        p.x,
        p.y,
        bytes(p.raw_data),
        [[n.module for n in line] for line in p.data],
    )


PROJECT_FIELDS = [
    "loaded_sunvox_version",
    "based_on_version",
    "flags",
    "receive_sync_midi",
    "receive_sync_other",
    "initial_bpm",
    "initial_tpl",
    "time_grid",
    "time_grid2",
    "global_volume",
    "name",
    "modules_scale",
    "modules_zoom",
    "modules_x_offset",
    "modules_y_offset",
    "modules_layer_mask",
    "modules_current_layer",
    "timeline_position",
    "restart_position",
    "selected_module",
    "selected_generator",
    "current_pattern",
    "current_track",
    "current_line",
]


def snap_project(p):
    d = {f: repr(getattr(p, f)) for f in PROJECT_FIELDS}
    d["modules"] = [snap_module(m) for m in p.modules]
    d["patterns"] = [snap_pattern(x) for x in p.patterns]
    d["output_is_0"] = bool(p.modules) and p.output is p.modules[0]
    return d


def snap(obj):
    if obj is None:
        return None
    if type(obj).__name__ == "Synth":
        return {
            "synth_version": obj.loaded_sunsynth_version,
            "module": snap_module(obj.module),
        }
    return snap_project(obj)


def canon(x):
    if isinstance(x, dict):
        return "{" + ",".join(f"{k!r}:{canon(v)}" for k, v in sorted(x.items())) + "}"
    if isinstance(x, (list, tuple)):
        return "[" + ",".join(canon(v) for v in x) + "]"
    return repr(x)


class Capture(logging.Handler):
    def __init__(self):
        super().__init__(level=logging.DEBUG)
        self.records = []

    def emit(self, record):
        self.records.append((record.name, record.levelname, record.getMessage()))


def load(blob_or_path, capture=None):
    """Load and return (snapshot, log-records)."""
    root = logging.getLogger("rv")
    cap = Capture()
    old_level = root.level
    root.addHandler(cap)
    root.setLevel(logging.DEBUG)
    try:
        if isinstance(blob_or_path, bytes):
            obj = read_sunvox_file(io.BytesIO(blob_or_path))
        else:
            obj = read_sunvox_file(blob_or_path)
    finally:
        root.removeHandler(cap)
        root.setLevel(old_level)
    return snap(obj), cap.records


def warnings_of(records, logger=None):
    return [
        (n, m) for n, lvl, m in records if lvl == "WARNING" and (not logger or n == logger)
    ]


def expect_raises(exc_type, fn, msg):
    try:
        fn()
    except exc_type as e:
        if type(e) is not exc_type and exc_type is not Exception:
            # subclass allowed only when asked for the exact type elsewhere
            pass
        return e
    except BaseException as e:  # noqa
        check(False, f"{msg}: expected {exc_type.__name__}, got {type(e).__name__}: {e}")
        return None
    check(False, f"{msg}: expected {exc_type.__name__}, nothing raised")
    return None


def fixtures_digest():
    h = hashlib.sha256()
    for p in fixture_paths():
        s, recs = load(p)
        h.update(os.path.relpath(p, FIXTURES).encode())
        h.update(canon(s).encode("utf8", "backslashreplace"))
        h.update(canon([r for r in recs if r[1] != "DEBUG"]).encode())
    return h.hexdigest()


def finish():
    if FAILURES:
        print(f"{len(FAILURES)} FAILURES")
        sys.exit(1)
    print("PASS")
    sys.exit(0)


# ======================= checks specific to refactoring 3 =======================
# readers/module.py (ModuleReader: strings, numbers, SMII, SLNK/SLnK, CVAL, CHNM.., SEND),
# readers/pattern.py (PatternReader, PatternCloneReader), readers/sunsynth.py.
import rv.modules.amplifier
from rv.modules.module import Module
from rv.modules.output import Output
from rv.pattern import Pattern, PatternClone
from rv.readers.module import ModuleReader
from rv.readers.pattern import PatternCloneReader, PatternReader
from rv.readers.reader import Reader
from rv.readers.sunsynth import SunSynthReader

EXPECTED_FIXTURES_DIGEST = "abca901a929c785208eed1cfc3a4c807e73ed2831d3d968018cb6bfa82061163"
EXPECTED_EDIT_DIGEST = "50d07f90ec09a5aee412147b8e94f16e8a5dd416b6c557430d171b8b294ad525"

AMP_KEYS = ["volume", "balance", "dc_offset", "inverse", "stereo_width", "absolute", "fine_volume", "gain", "bipolar_dc_offset"]
AMP_DEFAULTS = {"volume": 256, "balance": 0, "dc_offset": 0, "inverse": False, "stereo_width": 128, "absolute": False, "fine_volume": 32768, "gain": 1, "bipolar_dc_offset": 0}
AMP_RAW = [300, 28, 200, 1, 7, 1, 100, 5, 16390]
AMP_DECODED = {"volume": 300, "balance": -100, "dc_offset": 72, "inverse": True, "stereo_width": 7, "absolute": True, "fine_volume": 100, "gain": 5, "bipolar_dc_offset": 6}


def cstr(s, width=None):
    b = s.encode("utf8") + b"\0"
    return b.ljust(width, b"\0") if width else b


def synth_blob(body, vers=(2, 1, 2, 1)):
    head = [(b"SSYN", b"")]
    if vers is not None:
        head.append((b"VERS", bytes(reversed(vers))))
    return join_chunks(head + list(body))


def amp_body(extra=(), cvals=(), name="amp", flags=0x51, mtype="Amplifier", tail=()):
    chs = [(b"SFFF", u32(flags)), (b"SNAM", cstr(name, 32))]
    if mtype is not None:
        chs.append((b"STYP", cstr(mtype)))
    chs += list(extra)
    chs += [(b"CVAL", i32(v)) for v in cvals]
    chs += list(tail)
    chs.append((b"SEND", b""))
    return chs


def open_synth(body, **kw):
    return read_sunvox_file(io.BytesIO(synth_blob(body, **kw)))


def logged(fn):
    cap = Capture()
    lg = logging.getLogger("rv")
    old = lg.level
    lg.addHandler(cap)
    lg.setLevel(logging.DEBUG)
    try:
        result = fn()
    finally:
        lg.removeHandler(cap)
        lg.setLevel(old)
    return result, cap.records


def test_handlers_exist():
    for cid in "SFFF SNAM STYP SFIN SREL SXXX SYYY SZZZ SSCL SVPR SCOL SMII SMIN SMIC SMIB SMIP SLNK SLnK CVAL CHNK CHNM CHDT CHFF CHFR CMID SEND PAMD".split():
        check(callable(getattr(ModuleReader(io.BytesIO(b""), 1), "process_" + cid, None)), f"ModuleReader.process_{cid}")
    for cid in "PDTA PNME PCHN PLIN PYSZ PFLG PICO PFGC PBGC PFFF PXXX PYYY PSYN PCTL PEND PAMD".split():
        check(callable(getattr(PatternReader(io.BytesIO(b"")), "process_" + cid, None)), f"PatternReader.process_{cid}")
    for cid in "PPAR PFFF PXXX PYYY PEND PAMD".split():
        check(callable(getattr(PatternCloneReader(io.BytesIO(b"")), "process_" + cid, None)), f"PatternCloneReader.process_{cid}")
    for cid in "PNME PCHN PSYN PDTA".split():
        check(not hasattr(PatternCloneReader, "process_" + cid), f"PatternCloneReader has no process_{cid}")
    for cid in "VERS SFFF end_of_file".split():
        check(callable(getattr(SunSynthReader, "process_" + cid, None)), f"SunSynthReader.process_{cid}")
    for cls in (ModuleReader, PatternReader, PatternCloneReader, SunSynthReader):
        check(issubclass(cls, Reader), f"{cls.__name__} is a Reader")


def test_module_fields():
    extra = [
        (b"SFIN", i32(-7)),
        (b"SREL", i32(12)),
        (b"SXXX", i32(-100)),
        (b"SYYY", i32(0x7FFFFFFF)),
        (b"SZZZ", u32(0xFFFFFFFF)),
        (b"SSCL", u32(477)),
        (b"SVPR", u32(0x9A3202C2)),
        (b"SCOL", bytes([1, 200, 255])),
        (b"SMII", u32(0b10111)),
        (b"SMIN", cstr("midi dev") + b"trailing junk"),
        (b"SMIC", i32(5)),
        (b"SMIB", i32(-1)),
        (b"SMIP", i32(127)),
    ]
    s = open_synth(amp_body(extra, cvals=AMP_RAW, name="naïve ♫"))
    check(s.loaded_sunsynth_version == (2, 1, 2, 1) and type(s.loaded_sunsynth_version) is tuple, "synth version")
    m = s.module
    check(type(m) is rv.modules.amplifier.Amplifier and m.mtype == "Amplifier", "module class")
    check(m.name == "naïve ♫", f"name {m.name!r}")
    check(m.flags == 0x51, "flags")
    got = (m.mod_finetune, m.mod_relative_note, m.x, m.y, m.layer, m.mod_scale, int(m.visualization), m.color)
    check(got == (-7, 12, -100, 0x7FFFFFFF, 0xFFFFFFFF, 477, 0x9A3202C2, (1, 200, 255)), f"numeric fields {got}")
    check(m.midi_in_always is True and m.midi_in_channel == 0b1011, f"SMII {m.midi_in_always!r} {m.midi_in_channel!r}")
    check((m.midi_out_name, m.midi_out_channel, m.midi_out_bank, m.midi_out_program) == ("midi dev", 5, -1, 127), "midi out")
    for k in AMP_KEYS:
        check(getattr(m, k) == AMP_DECODED[k], f"controller {k} = {getattr(m, k)!r}")
    check(m.parent is None and m.index is None, "synth module is unattached")
    # absent optional chunks leave documented defaults
    m = open_synth(amp_body()).module
    got = (m.mod_finetune, m.mod_relative_note, m.x, m.y, m.layer, m.mod_scale, int(m.visualization), m.color)
    check(got == (0, 0, 512, 512, 0, 256, 0x000C0101, (255, 255, 255)), f"default numeric fields {got}")
    check((m.midi_in_always, m.midi_in_channel, m.midi_out_name, m.midi_out_channel, m.midi_out_bank, m.midi_out_program) == (False, 0, None, 0, -1, -1), "default midi")
    check((m.in_links, m.in_link_slots, m.out_links, m.out_link_slots) == ([], [], [], []), "default links")
    for k in AMP_KEYS:
        check(getattr(m, k) == AMP_DEFAULTS[k], f"default controller {k}")
    # SMII variants
    for x in [0, 1, 2, 3, 32, 33, 0xFFFFFFFE, 0xFFFFFFFF]:
        m = open_synth(amp_body([(b"SMII", u32(x))])).module
        check(m.midi_in_always is bool(x & 1) and m.midi_in_channel == x >> 1 and type(m.midi_in_channel) is int, f"SMII {x:#x}")
    # flags are OR-ed with the type's defaults; the name given before STYP survives
    m = open_synth(amp_body(flags=0x100002, name="")).module
    check(m.flags == 0x100053 and m.name == "", f"flags {m.flags:#x} name {m.name!r}")
    # STYP before SFFF is not possible (SFFF starts the module), but SNAM after STYP overrides
    m = open_synth(amp_body([(b"SNAM", b"late")])).module
    check(m.name == "late", "SNAM without terminator after STYP")
    # text decoding
    for raw, exp in [(b"abc\0def\0", "abc"), (b"\0abc", ""), (b"", ""), (b"xyz", "xyz")]:
        m = open_synth(amp_body([(b"SNAM", raw), (b"SMIN", raw)])).module
        check(m.name == exp and m.midi_out_name == exp, f"text {raw!r} -> {m.name!r} {m.midi_out_name!r}")
    expect_raises(UnicodeDecodeError, lambda: open_synth(amp_body([(b"SNAM", b"\xff\0")])), "bad utf8 name")
    expect_raises(KeyError, lambda: open_synth(amp_body(mtype="No Such Module")), "unknown module type")
    expect_raises(KeyError, lambda: open_synth(amp_body(mtype="")), "empty module type")
    # no STYP: placeholder classes
    m = open_synth(amp_body(mtype=None, name="x")).module
    check(type(m) is Module and m.name == "x", f"synth module without STYP is a bare Module: {type(m)}")
    r = ModuleReader(io.BytesIO(join_chunks(amp_body(mtype=None, name="Out"))), index=0)
    check(type(r.object) is Output and r.object.name == "Output", "index 0 without STYP is an Output")
    r = ModuleReader(io.BytesIO(join_chunks(amp_body(mtype=None))), index=3)
    check(type(r.object) is Module, "index 3 without STYP is a bare Module")
    # wrong payload sizes
    for cid in [b"SFFF", b"SFIN", b"SREL", b"SXXX", b"SYYY", b"SZZZ", b"SSCL", b"SVPR", b"SMII", b"SMIC", b"SMIB", b"SMIP", b"CVAL", b"CHNK", b"CHNM"]:
        for payload in (b"", b"\1\2\3", b"\1\2\3\4\5"):
            expect_raises(struct.error, lambda: open_synth(amp_body([(cid, payload)])), f"{cid} with {len(payload)} bytes")
    for payload in (b"", b"\1\2", b"\1\2\3\4"):
        expect_raises(struct.error, lambda: open_synth(amp_body([(b"SCOL", payload)])), f"SCOL {len(payload)} bytes")
    expect_raises(struct.error, lambda: open_synth(amp_body(), vers=(1, 2, 3)), "short VERS")
    s = open_synth(amp_body(), vers=(9, 8, 7, 6))
    check(s.loaded_sunsynth_version == (9, 8, 7, 6), "VERS decoding")
    s = open_synth(amp_body(), vers=None)
    check(s.loaded_sunsynth_version == (2, 1, 2, 1), "VERS default")
    check(read_sunvox_file(io.BytesIO(synth_blob([]))).module is None, "synth without module")
    # two modules in a synth stream: the last one is kept
    s = open_synth(amp_body(name="one") + amp_body(name="two"))
    check(s.module.name == "two", "last module wins")


def test_links():
    L = lambda *v: b"".join(i32(x) for x in v)  # noqa
    cases = [
        ([(b"SLNK", L(1, 2, 3))], [1, 2, 3], []),
        ([(b"SLNK", L(1, -1, 3, -1, -1))], [1, -1, 3], []),
        ([(b"SLNK", L(-1, -1))], [], []),
        ([(b"SLNK", b"")], [], []),
        ([(b"SLNK", L(-1))], [], []),
        ([(b"SLNK", L(5)), (b"SLnK", L(0))], [5], [0]),
        ([(b"SLNK", L(5, 6, -1)), (b"SLnK", L(2, -1, -1))], [5, 6], [2]),
        ([(b"SLnK", L(0, 0, 7))], [], [0, 0, 7]),
        ([(b"SLnK", b"")], [], []),
        # repeated chunks accumulate; trimming happens after each one
        ([(b"SLNK", L(1, -1)), (b"SLNK", L(2))], [1, 2], []),
        ([(b"SLNK", L(1)), (b"SLNK", b""), (b"SLNK", L(-1, 4, -1))], [1, -1, 4], []),
        ([(b"SLNK", L(1, 2)), (b"SLNK", L(-1, -1))], [1, 2], []),
        ([(b"SLNK", L(-2, 0x7FFFFFFF, -0x80000000))], [-2, 0x7FFFFFFF, -0x80000000], []),
        ([(b"SLNK", L(*range(100)))], list(range(100)), []),
    ]
    for extra, links, slots in cases:
        m = open_synth(amp_body(extra)).module
        check(m.in_links == links and m.in_link_slots == slots, f"links {extra!r}: {m.in_links} {m.in_link_slots}")
        check(type(m.in_links) is list and type(m.in_link_slots) is list, "link containers are lists")
        check(all(type(x) is int for x in m.in_links + m.in_link_slots), "link entries are ints")
    for cid in (b"SLNK", b"SLnK"):
        for n in (1, 2, 3, 5, 6, 7, 9):
            expect_raises(struct.error, lambda: open_synth(amp_body([(cid, b"\1" * n)])), f"{cid} of {n} bytes")
    # links given before STYP belong to the placeholder and are not carried over
    body = [(b"SFFF", u32(0x51)), (b"SLNK", L(4)), (b"STYP", cstr("Amplifier")), (b"SEND", b"")]
    check(open_synth(body).module.in_links == [], "links before STYP are dropped with the placeholder")


def test_cvals():
    # fewer values than controllers: the rest keep their defaults
    for n in range(len(AMP_KEYS) + 1):
        (s, recs) = logged(lambda: open_synth(amp_body(cvals=AMP_RAW[:n])))
        m = s.module
        for i, k in enumerate(AMP_KEYS):
            exp = AMP_DECODED[k] if i < n else AMP_DEFAULTS[k]
            check(getattr(m, k) == exp, f"{n} CVALs: {k} = {getattr(m, k)!r}, expected {exp!r}")
        dbg = [msg for name, lvl, msg in recs if name == "rv.readers.module" and lvl == "DEBUG"]
        exp_dbg = [f"Setting {AMP_KEYS[i]} from raw {AMP_RAW[i]}" for i in reversed(range(n))]
        check(dbg == exp_dbg, f"{n} CVALs: order of application {dbg}")
        check(warnings_of(recs) == [], f"{n} CVALs: no warnings")
    # more values than controllers: extra ones are reported (highest first) and ignored
    (s, recs) = logged(lambda: open_synth(amp_body(cvals=AMP_RAW + [77, -78, 0])))
    msgs = [(lvl, msg) for name, lvl, msg in recs if name == "rv.readers.module"]
    exp = [
        ("WARNING", "Unsupported controller at index 11 with raw value 0"),
        ("WARNING", "Unsupported controller at index 10 with raw value -78"),
        ("WARNING", "Unsupported controller at index 9 with raw value 77"),
    ] + [("DEBUG", f"Setting {AMP_KEYS[i]} from raw {AMP_RAW[i]}") for i in reversed(range(9))]
    check(msgs == exp, f"extra CVALs messages {msgs}")
    for k in AMP_KEYS:
        check(getattr(s.module, k) == AMP_DECODED[k], f"extra CVALs: {k}")
    # module without STYP has no controllers: every CVAL is unsupported
    (s, recs) = logged(lambda: open_synth(amp_body(mtype=None, cvals=[1, 2])))
    w = [m for _, m in warnings_of(recs, "rv.readers.module")]
    check(w == ["Unsupported controller at index 1 with raw value 2", "Unsupported controller at index 0 with raw value 1"], f"CVALs without type {w}")
    # CVALs before STYP still count (they are applied at SEND)
    body = [(b"SFFF", u32(0x51)), (b"CVAL", i32(300)), (b"STYP", cstr("Amplifier")), (b"CVAL", i32(28)), (b"SEND", b"")]
    m = open_synth(body).module
    check(m.volume == 300 and m.balance == -100, "CVAL position relative to STYP")
    # out-of-range raw values are tolerated on read (warning, raw value kept)
    (s, recs) = logged(lambda: open_synth(amp_body(cvals=[5000])))
    check(s.module.volume == 5000, f"out of range volume kept: {s.module.volume!r}")
    w = warnings_of(recs)
    check(len(w) == 1 and "volume=5000 is not within [0, 1024]" in w[0][1], f"range warning {w}")
    # MetaModule: user defined controller slots follow the built-in ones
    blob = open(os.path.join(FIXTURES, "metamodule.sunsynth"), "rb").read()
    chs = split_chunks(blob)
    send = max(i for i, (n, _) in enumerate(chs) if n == b"SEND")
    ncv = sum(1 for n, _ in chs if n == b"CVAL")
    more = chs[:send] + [(b"CVAL", i32(1000 + i)) for i in range(120)] + chs[send:]
    (s, recs) = logged(lambda: read_sunvox_file(io.BytesIO(join_chunks(more))))
    w = [m for _, m in warnings_of(recs, "rv.readers.module") if m.startswith("Unsupported controller")]
    check(len(w) > 0 and len(w) < 120, f"MetaModule accepts some user defined CVALs ({len(w)} unsupported)")
    first_bad = ncv + 120 - len(w)
    check(w[-1] == f"Unsupported controller at index {first_bad} with raw value {1000 + first_bad - ncv}", f"first unsupported metamodule controller: {w[-1]}")
    check(w[0] == f"Unsupported controller at index {ncv + 119} with raw value 1119", f"last unsupported: {w[0]}")
    h = hashlib.sha256(canon(snap(s)).encode("utf8", "backslashreplace")).hexdigest()
    return h


def test_data_chunks():
    seen = []
    cls = rv.modules.amplifier.Amplifier
    original = cls.__dict__.get("load_chunk")

    def recording_load_chunk(self, chunk):
        seen.append((chunk.chnm, chunk.chdt, chunk.chff, chunk.chfr))

    cls.load_chunk = recording_load_chunk
    try:
        tail = [
            (b"CHNK", u32(16)),
            (b"CHNM", u32(0)),
            (b"CHDT", b"zero"),
            (b"CHFF", u32(3)),
            (b"CHFR", u32(44100)),
            (b"CHNM", u32(7)),
            (b"CHNM", u32(8)),
            (b"CHFR", u32(8000)),
            (b"CHNM", u32(0xFFFFFFFF)),
            (b"CHDT", b""),
        ]
        m = open_synth(amp_body(tail=tail)).module
        check(seen == [(0, b"zero", 3, 44100), (7, None, 0, 44100), (8, None, 0, 8000), (0xFFFFFFFF, b"", 0, 44100)], f"data chunks {seen}")
        check(m._reader_chnk == 16, "CHNK count")
        del seen[:]
        open_synth(amp_body())
        check(seen == [], "no data chunks")
        open_synth(amp_body(tail=[(b"CHNM", u32(1)), (b"WHAT", b"??"), (b"CHDT", b"d")]))
        check(seen == [(1, b"d", 0, 44100)], f"unknown chunk inside data chunk group {seen}")
        for cid in (b"CHDT", b"CHFF", b"CHFR"):
            expect_raises(AttributeError, lambda: open_synth(amp_body(tail=[(cid, u32(1))])), f"{cid} before CHNM")
    finally:
        if original is None:
            del cls.load_chunk
        else:
            cls.load_chunk = original
    (s, recs) = logged(lambda: open_synth(amp_body(tail=[(b"CHNM", u32(1)), (b"CHNM", u32(2))])))
    w = [m for _, m in warnings_of(recs)]
    check(w == ["load_chunk not implemented for Amplifier"] * 2, f"default load_chunk {w}")
    # CMID is handed to the module
    cm = struct.pack("<BBBBHBB", 3, 5, 2, 0, 74, 0, 0xC8) + struct.pack("<BBBBHBB", 8, 15, 5, 0, 0, 0, 0xC8) + b"\1\2\3"
    m = open_synth(amp_body(tail=[(b"CMID", cm)])).module
    check(m.controller_midi_maps["volume"].cmid_data == cm[:8] and m.controller_midi_maps["balance"].cmid_data == cm[8:16], "CMID")
    check(m.controller_midi_maps["dc_offset"].cmid_data == struct.pack("<BBBBHBB", 0, 0, 0, 0, 0, 0, 0xFF), "CMID partial entry ignored")


def note(n, vel, module, ctl, val):
    return struct.pack("<BBHHH", n, vel, module, ctl, val)


def project_with(patterns, vers=None):
    chs = [(b"SVOX", b"")]
    if vers:
        chs.append((b"VERS", bytes(reversed(vers))))
    for p in patterns:
        chs += p
    chs += [(b"SFFF", u32(0x43)), (b"SNAM", cstr("Output", 32)), (b"SEND", b"")]
    return join_chunks(chs)


def test_patterns():
    raw = b"".join(note(i, i + 1, i + 2, i + 3, i + 4) for i in range(6))
    full = [
        (b"PDTA", raw),
        (b"PNME", cstr("intro") + b"zz"),
        (b"PCHN", u32(3)),
        (b"PLIN", u32(2)),
        (b"PYSZ", u32(24)),
        (b"PFLG", u32(2)),
        (b"PICO", bytes(range(100, 132))),
        (b"PFGC", b"\1\2\3"),
        (b"PBGC", b"\xff\xfe\xfd"),
        (b"PFFF", u32(0x18)),
        (b"PXXX", i32(-64)),
        (b"PYYY", i32(0x7FFFFFFF)),
        (b"PSYN", b"ignored"),
        (b"PCTL", b""),
        (b"PAMD", b"x"),
        (b"PEND", b""),
    ]
    (p, recs) = logged(lambda: read_sunvox_file(io.BytesIO(project_with([full]))))
    check(warnings_of(recs) == [], f"pattern chunks all known: {warnings_of(recs)}")
    a = p.patterns[0]
    check(type(a) is Pattern, "pattern type")
    got = (a.name, a.tracks, a.lines, a.y_size, a.flags_PFLG, a.icon, a.fg_color, a.bg_color, a.flags_PFFF, a.x, a.y)
    check(got == ("intro", 3, 2, 24, 2, bytes(range(100, 132)), (1, 2, 3), (255, 254, 253), 0x18, -64, 0x7FFFFFFF), f"pattern fields {got}")
    check(a.raw_data == raw, "pattern data")
    check([[(int(n.note), n.vel, n.module, n.ctl, n.val) for n in line] for line in a.data] == [[(i, i + 1, i + 2, i + 3, i + 4) for i in (0, 1, 2)], [(i, i + 1, i + 2, i + 3, i + 4) for i in (3, 4, 5)]], "notes")
    # header chunks in another order, optional ones missing
    minimal = [(b"PDTA", raw[:16]), (b"PLIN", u32(1)), (b"PCHN", u32(2)), (b"PEND", b"")]
    a = read_sunvox_file(io.BytesIO(project_with([minimal]))).patterns[0]
    got = (a.name, a.tracks, a.lines, a.y_size, a.flags_PFLG, a.icon, a.fg_color, a.bg_color, a.flags_PFFF, a.x, a.y)
    check(got == (None, 2, 1, 32, 0, b"\0" * 32, (0, 0, 0), (255, 255, 255), 0, 0, 0), f"pattern defaults {got}")
    check(a.raw_data == raw[:16], "minimal pattern data")
    # defaults for tracks/lines (4 x 32) when PCHN/PLIN are missing
    big = bytes(4 * 32 * 8)
    a = read_sunvox_file(io.BytesIO(project_with([[(b"PDTA", big), (b"PEND", b"")]]))).patterns[0]
    check((a.tracks, a.lines) == (4, 32) and a.raw_data == big, "default dimensions")
    # unknown chunk inside a pattern
    (p, recs) = logged(lambda: read_sunvox_file(io.BytesIO(project_with([full[:5] + [(b"PZZZ", b"??")] + full[5:]]))))
    check([m for _, m in warnings_of(recs)] == ["no PatternReader.process_PZZZ method"], f"unknown pattern chunk {warnings_of(recs)}")
    check(p.patterns[0].y_size == 24 and p.patterns[0].x == -64, "fields around the unknown chunk")
    # text
    for rawname, exp in [(b"a\0b", "a"), (b"", ""), (b"nul-less", "nul-less"), ("é".encode() + b"\0", "é")]:
        a = read_sunvox_file(io.BytesIO(project_with([[(b"PDTA", raw[:16]), (b"PNME", rawname), (b"PLIN", u32(1)), (b"PCHN", u32(2)), (b"PEND", b"")]]))).patterns[0]
        check(a.name == exp, f"PNME {rawname!r} -> {a.name!r}")
    # size errors
    for cid in (b"PCHN", b"PLIN", b"PYSZ", b"PFLG", b"PFFF", b"PXXX", b"PYYY"):
        for payload in (b"", b"\1\2\3", b"\1\2\3\4\5"):
            expect_raises(struct.error, lambda: read_sunvox_file(io.BytesIO(project_with([[(b"PDTA", raw), (cid, payload), (b"PEND", b"")]]))), f"{cid} {len(payload)} bytes")
    for cid in (b"PFGC", b"PBGC"):
        for payload in (b"", b"\1\2", b"\1\2\3\4"):
            expect_raises(struct.error, lambda: read_sunvox_file(io.BytesIO(project_with([[(b"PDTA", raw), (cid, payload), (b"PEND", b"")]]))), f"{cid} {len(payload)} bytes")
    # clones
    clone = [(b"PPAR", u32(5)), (b"PFFF", u32(0x1B)), (b"PXXX", i32(-4)), (b"PYYY", i32(96)), (b"PEND", b"")]
    p = read_sunvox_file(io.BytesIO(project_with([full, clone, [(b"PPAR", u32(0)), (b"PEND", b"")], [(b"PEND", b"")]])))
    c, d = p.patterns[1], p.patterns[2]
    check(type(c) is PatternClone and (c.source, c.flags_PFFF, c.x, c.y) == (5, 0x1B, -4, 96), "clone fields")
    check(type(d) is PatternClone and (d.source, d.flags_PFFF, d.x, d.y) == (0, PatternClone(source=0).flags_PFFF, PatternClone(source=0).x, PatternClone(source=0).y), "clone defaults")
    check(p.patterns[3] is None and len(p.patterns) == 4, "empty pattern slot kept")
    (p, recs) = logged(lambda: read_sunvox_file(io.BytesIO(project_with([[(b"PPAR", u32(1)), (b"PCHN", u32(3)), (b"PEND", b"")]]))))
    check([m for _, m in warnings_of(recs)] == ["no PatternCloneReader.process_PCHN method"], "PCHN is unknown to the clone reader")
    for payload in (b"", b"\1\2\3"):
        expect_raises(struct.error, lambda: read_sunvox_file(io.BytesIO(project_with([[(b"PPAR", payload), (b"PEND", b"")]]))), "short PPAR")
    # the readers used on their own leave the stream right after PEND
    f = io.BytesIO(join_chunks(clone + full))
    c = PatternCloneReader(f).object
    pos = f.tell()
    check(pos == len(join_chunks(clone)) and c.source == 5, "clone reader stops after PEND")
    a = PatternReader(f).object
    check(f.tell() == len(f.getvalue()) and a.name == "intro", "pattern reader stops after PEND")


def edit_digest():
    """Structure-preserving edits of fixture files (drop optional chunk / truncate CVAL list)."""
    h = hashlib.sha256()
    for n in ["analog-generator.sunsynth", "fmx.sunsynth", "multictl.sunsynth", "metamodule-option-78.sunsynth", "module-multiselect.sunvox", "supertracks.sunvox"]:
        blob = open(os.path.join(FIXTURES, n), "rb").read()
        chs = split_chunks(blob)
        droppable = [i for i, (c, _) in enumerate(chs) if c in (b"SFIN", b"SREL", b"SXXX", b"SYYY", b"SZZZ", b"SSCL", b"SVPR", b"SCOL", b"SMII", b"SMIN", b"SMIC", b"SMIB", b"SMIP", b"SLNK", b"SLnK", b"CMID", b"PNME", b"PYSZ", b"PFLG", b"PICO", b"PFGC", b"PBGC", b"PFFF", b"PXXX", b"PYYY")]
        cvals = [i for i, (c, _) in enumerate(chs) if c == b"CVAL"]
        edits = [chs[:i] + chs[i + 1 :] for i in droppable[:: max(1, len(droppable) // 40)]]
        # drop the last k CVALs of the last module
        for k in range(1, min(len(cvals), 12) + 1):
            last_run = []
            for i in reversed(cvals):
                if last_run and last_run[-1] != i + 1:
                    break
                last_run.append(i)
            drop = set(last_run[:k])
            edits.append([c for i, c in enumerate(chs) if i not in drop])
        for e, edited in enumerate(edits):
            try:
                s, recs = load(join_chunks(edited))
                out = canon(s) + canon([r for r in recs if r[1] != "DEBUG"])
            except Exception as exc:  # noqa
                out = "EXC:" + type(exc).__name__
            h.update(f"{n}:{e}:".encode())
            h.update(out.encode("utf8", "backslashreplace"))
    return h.hexdigest()


EXPECTED_META_DIGEST = "809b9f42b8a73e7c4726d5f77a668a689ab6e2f1ad86ff7bb0a438282dadd2e5"

test_handlers_exist()
test_module_fields()
test_links()
d = test_cvals()
check(d == EXPECTED_META_DIGEST, f"metamodule digest {d}")
test_data_chunks()
test_patterns()
d = edit_digest()
check(d == EXPECTED_EDIT_DIGEST, f"edit digest {d}")
d = fixtures_digest()
check(d == EXPECTED_FIXTURES_DIGEST, f"fixtures digest {d}")
finish()
