"""Behaviour check for Sampler envelopes, the note map and the legacy upgrade.

Exercises Sampler.Envelope (bitmask, point_bytes, chunks, load_chdt),
Sampler.NoteSampleMap (construction, bytes getter/setter),
Sampler._upgrade_envelopes / finalize_load, the default envelopes built by
Sampler.__init__ and the order of chunks out of specialized_iff_chunks:

* envelope chunks are compared with an independent reference encoder and
  decoded again, for all flag combinations and a range of point lists,
* envelope data is truncated at every length to pin down partial state,
* instrument records without envelope chunks are upgraded for 0..13 stored
  points, with broken records rejected without touching the points,
* note maps of all lengths are assigned and read back,
* whole files are written, digested and decoded again.

Run as:  cd <root> && PYTHONPATH=<root>/src/python python check.py
"""

import hashlib
import logging
import os
import random
import struct
import sys
from io import BytesIO

from rv.api import NOTE, Synth, m, read_sunvox_file
from rv.chunks.chunk import Chunk
from rv.modules import sampler as sampler_mod

logging.disable(logging.CRITICAL)

Sampler = m.Sampler
FAILURES = []


def expect(cond, label):
    if not cond:
        FAILURES.append(label)
        print("FAIL:", label)


def outcome(fn, *args, **kw):
    try:
        return ("ok", fn(*args, **kw))
    except Exception as e:  # noqa
        return ("err", type(e).__name__, str(e))


# --------------------------------------------------------------------------
# building / dumping samplers
# --------------------------------------------------------------------------

FORMATS = [Sampler.Format.int8, Sampler.Format.int16, Sampler.Format.float32]
CHANNELS = [Sampler.Channels.mono, Sampler.Channels.stereo]


def random_points(rnd, env, max_points):
    lo = env.range[0]
    n = rnd.choice([0, 1, 2, 4, 11, 12, 13, max_points])
    xs = sorted(rnd.randrange(0, 0x10000) for _ in range(n))
    return [(x, lo + rnd.randrange(0, 0x8001)) for x in xs]


def fill_envelope(rnd, env, small):
    env.points = random_points(rnd, env, 40)
    top = 255 if small else 0xFFFF
    env.sustain_point = rnd.randrange(0, top + 1)
    env.loop_start_point = rnd.randrange(0, top + 1)
    env.loop_end_point = rnd.randrange(0, top + 1)
    env.enable = rnd.random() < 0.5
    env.sustain = rnd.random() < 0.5
    env.loop = rnd.random() < 0.5
    env.ctl_index = rnd.randrange(256)
    env.gain_pct = rnd.randrange(256)
    env.velocity = rnd.randrange(256)


def build_sampler(seed):
    rnd = random.Random(seed)
    s = Sampler()
    slots = {
        0: [],
        1: [0],
        2: [127],
        3: [0, 127],
        4: [5, 6, 90],
        5: list(range(128)),
    }.get(seed % 8)
    if slots is None:
        slots = sorted(rnd.sample(range(128), rnd.randrange(1, 9)))
    for i in slots:
        smp = s.Sample()
        smp.format = rnd.choice(FORMATS)
        smp.channels = rnd.choice(CHANNELS)
        frames = rnd.choice([0, 1, 3, 17])
        smp.data = bytes(rnd.randrange(256) for _ in range(frames * smp.frame_size))
        smp.rate = rnd.choice([8000, 44100, 48000, 0xFFFFFFFF, 0])
        smp.loop_start = rnd.randrange(0, 2**32)
        smp.loop_len = rnd.randrange(0, 2**32)
        smp.loop_type = rnd.choice(list(Sampler.LoopType))
        smp.loop_sustain = rnd.random() < 0.5
        smp.volume = rnd.randrange(256)
        smp.finetune = rnd.randrange(-128, 128)
        smp.panning = rnd.randrange(-128, 128)
        smp.relative_note = rnd.randrange(-128, 128)
        smp.reserved2 = rnd.randrange(256)
        smp.name = bytes(rnd.randrange(1, 256) for _ in range(rnd.choice([0, 5, 22])))
        smp.start_pos = rnd.randrange(0, 2**32)
        s.samples[i] = smp
    fill_envelope(rnd, s.volume_envelope, True)
    fill_envelope(rnd, s.panning_envelope, True)
    fill_envelope(rnd, s.pitch_envelope, False)
    for env in s.effect_control_envelopes:
        fill_envelope(rnd, env, False)
    s.note_samples.bytes = bytes(rnd.randrange(256) for _ in range(119))
    s.vibrato_type = rnd.choice(list(Sampler.VibratoType))
    s.vibrato_attack = rnd.randrange(256)
    s.vibrato_depth = rnd.randrange(256)
    s.vibrato_rate = rnd.randrange(64)
    s.volume_fadeout = rnd.randrange(8193)
    s.instrument_name = bytes(
        rnd.randrange(1, 256) for _ in range(rnd.choice([0, 3, 22]))
    )
    s.unused1 = rnd.randrange(2**32)
    s.unused2 = rnd.randrange(2**16)
    s.unused3 = rnd.randrange(2**16)
    s.unused4 = rnd.randrange(2**32)
    s.unused5 = rnd.randrange(256)
    s.unused6 = rnd.randrange(2**32)
    s.volume_old = rnd.randrange(256)
    s.ins_finetune = rnd.randrange(-128, 128)
    s.ins_relative_note = rnd.randrange(-128, 128)
    s.editor_cursor = rnd.randrange(-(2**31), 2**31)
    s.editor_selected_size = rnd.randrange(-(2**31), 2**31)
    if seed % 3 == 0:
        s.effect = Synth(m.Reverb())
    return s


def dump_env(env):
    return dict(
        points=list(env.points),
        sustain_point=env.sustain_point,
        loop_start_point=env.loop_start_point,
        loop_end_point=env.loop_end_point,
        enable=env.enable,
        sustain=env.sustain,
        loop=env.loop,
        ctl_index=env.ctl_index,
        gain_pct=env.gain_pct,
        velocity=env.velocity,
        legacy=(
            env._legacy_point_bytes,
            env._legacy_active_points,
            env._legacy_sustain_point,
            env._legacy_loop_start_point,
            env._legacy_loop_end_point,
            env._legacy_bitmask,
        ),
    )


def dump_sample(smp):
    if smp is None:
        return None
    return dict(
        data=smp.data,
        format=smp.format,
        channels=smp.channels,
        rate=smp.rate,
        loop_start=smp.loop_start,
        loop_len=smp.loop_len,
        loop_type=smp.loop_type,
        loop_sustain=smp.loop_sustain,
        volume=smp.volume,
        finetune=smp.finetune,
        panning=smp.panning,
        relative_note=smp.relative_note,
        reserved2=smp.reserved2,
        name=smp.name,
        start_pos=smp.start_pos,
    )


def dump(s, with_legacy_fields=False):
    envs = [s.volume_envelope, s.panning_envelope, s.pitch_envelope]
    envs += s.effect_control_envelopes
    d = dict(
        samples=[dump_sample(x) for x in s.samples],
        envelopes=[dump_env(e) for e in envs],
        note_samples=dict(s.note_samples),
        vibrato=(
            s.vibrato_type,
            s.vibrato_attack,
            s.vibrato_depth,
            s.vibrato_rate,
            s.volume_fadeout,
        ),
        instrument_name=s.instrument_name,
        unused=(s.unused1, s.unused2, s.unused3, s.unused4, s.unused5, s.unused6),
        volume_old=s.volume_old,
        ins_finetune=s.ins_finetune,
        ins_relative_note=s.ins_relative_note,
        editor=(s.editor_cursor, s.editor_selected_size),
        version=(s.version, s.max_version),
        effect=None if s.effect is None else type(s.effect.module).__name__,
    )
    if not with_legacy_fields:
        for e in d["envelopes"]:
            del e["legacy"]
    return d


def write(s):
    f = BytesIO()
    Synth(s).write_to(f)
    return f.getvalue()


def read(data):
    return read_sunvox_file(BytesIO(data)).module


def make_chunk(chnm, chdt):
    c = Chunk()
    c.chnm = chnm
    c.chdt = chdt
    return c


def instrument_record(s):
    chunks = list(s.global_config_chunks())
    expect([k for k, _ in chunks] == [b"CHNM", b"CHDT"], "record chunk types")
    expect(chunks[0][1] == b"\0\0\0\0", "record chnm is 0")
    return chunks[1][1]


# --------------------------------------------------------------------------
# helpers specific to this check
# --------------------------------------------------------------------------


def drain(gen):
    items = []
    try:
        for item in gen:
            items.append(item)
    except Exception as e:  # noqa
        return items, type(e).__name__
    return items, None


def all_envelopes(s):
    return [s.volume_envelope, s.panning_envelope, s.pitch_envelope] + list(
        s.effect_control_envelopes
    )


def reference_chdt(env):
    """Envelope CHDT written out by hand, field by field."""
    out = bytearray()
    mask = (1 if env.enable else 0) + (2 if env.sustain else 0) + (4 if env.loop else 0)
    out += mask.to_bytes(2, "little")
    out += bytes([env.ctl_index, env.gain_pct, env.velocity, 0, 0, 0])
    for v in (
        len(env.points),
        env.sustain_point,
        env.loop_start_point,
        env.loop_end_point,
    ):
        out += v.to_bytes(2, "little")
    out += bytes(4)
    for x, y in env.points:
        out += x.to_bytes(2, "little") + (y - env.range[0]).to_bytes(2, "little")
    return bytes(out)


def reference_point_bytes(env):
    """The old 12 point table; unused entries get y == 0 *before* the range shift."""
    low = env.range[0] // 0x200
    pts = [(x, y // 0x200) for x, y in list(env.points)[:12]]
    pts += [(0, 0)] * (12 - len(pts))
    return b"".join(
        x.to_bytes(2, "little") + (y - low).to_bytes(2, "little") for x, y in pts
    )


POINT_LISTS = [
    [],
    [(0, 0)],
    [(0, 0x8000)],
    [(5, 0x200), (6, 0x3FF), (7, 0x400)],
    [(i * 100, (i * 0x777) % 0x8001) for i in range(11)],
    [(i * 100, (i * 0x777) % 0x8001) for i in range(12)],
    [(i * 100, (i * 0x777) % 0x8001) for i in range(13)],
    [(0xFFFF - i, 0x8000 - i) for i in range(40)],
    [(i, 0x7FFF) for i in range(255)],
]


def shifted(points, env):
    """Move a 0..0x8000 based point list into the envelope's own y range."""
    return [(x, y + env.range[0]) for x, y in points]


# --------------------------------------------------------------------------
# 1. note map
# --------------------------------------------------------------------------


def check_note_map():
    h = hashlib.sha256()
    nm = Sampler.NoteSampleMap()
    expect(isinstance(nm, dict) and len(nm) == 119, "119 notes")
    keys = list(nm)
    expect(keys[0] is NOTE.C0 and keys[-1] is NOTE.a9, "first and last note")
    expect([k.value for k in keys] == list(range(1, 120)), "ascending note values")
    expect(all(type(k) is NOTE for k in keys), "keys are NOTE members")
    expect(set(nm.values()) == {0}, "all notes map to sample 0")
    expect(nm.bytes == bytes(119), "bytes of a fresh map")
    expect(
        Sampler.NoteSampleMap() == nm and Sampler.NoteSampleMap() is not nm,
        "fresh maps equal",
    )
    h.update(repr(list(nm.items())).encode())

    class Other(Sampler.NoteSampleMap):
        start_note = NOTE.C4
        end_note = NOTE.C5
        default_sample = 7

    o = Other()
    expect(
        list(o) == [NOTE(v) for v in range(NOTE.C4.value, NOTE.C5.value + 1)],
        "subclass range",
    )
    expect(o.bytes == bytes([7] * 13), "subclass default")

    for n in (0, 1, 95, 96, 118, 119, 120, 128, 300):
        nm = Sampler.NoteSampleMap()
        nm.bytes = bytes([9] * 119)
        value = bytes((i * 5 + 1) % 256 for i in range(n))
        nm.bytes = value
        want = (value + bytes([9] * 119))[: max(n, 0)][:119] + bytes(
            [9] * max(0, 119 - n)
        )
        expect(nm.bytes == want, f"assign {n} bytes")
        expect(len(nm) == 119 and list(nm) == keys, f"assign {n} bytes: keys stable")
        h.update(nm.bytes)
    # any iterable of anything is taken
    nm = Sampler.NoteSampleMap()
    nm.bytes = [3, 4, 5]
    expect(nm.bytes[:4] == b"\3\4\5\0", "list value")
    nm.bytes = (i for i in range(200))
    expect(nm.bytes == bytes(range(119)), "generator value")
    nm.bytes = iter([])
    expect(nm.bytes == bytes(range(119)), "empty iterator changes nothing")
    nm.bytes = "ab"
    expect(nm[NOTE.C0] == "a" and nm[NOTE.c0] == "b", "characters stored as they are")
    expect(outcome(lambda: nm.bytes)[:2] == ("err", "TypeError"), "getter then fails")
    nm.bytes = [300]
    expect(outcome(lambda: nm.bytes)[:2] == ("err", "ValueError"), "300 comes first")
    nm.bytes = [300, 1]
    expect(outcome(lambda: nm.bytes)[:2] == ("err", "ValueError"), "300 is no byte")
    nm.bytes = nm.values()
    expect(nm[NOTE.C0] == 300, "own values")
    nm.bytes = list(nm.keys())
    expect(nm[NOTE.D0] is NOTE.D0, "own keys")
    for bad in (None, 5, 1.5):
        nm = Sampler.NoteSampleMap()
        r = outcome(setattr, nm, "bytes", bad)
        expect(r[:2] == ("err", "TypeError"), f"bytes = {bad!r}: {r[:2]}")
        expect(nm.bytes == bytes(119), f"bytes = {bad!r}: untouched")

    def failing():
        yield 1
        yield 2
        raise KeyError("boom")

    nm = Sampler.NoteSampleMap()
    r = outcome(setattr, nm, "bytes", failing())
    expect(r[:2] == ("err", "KeyError"), "source errors pass through")
    expect(nm.bytes[:3] == b"\1\2\0", "values before the error are kept")
    # extra keys added by hand take part, in insertion order
    nm = Sampler.NoteSampleMap()
    nm[200] = 1
    nm.bytes = bytes([8] * 121)
    expect(
        len(nm) == 120 and nm[200] == 8 and nm.bytes == bytes([8] * 120), "extra key"
    )
    # each sampler has its own map
    a, b = Sampler(), Sampler()
    a.note_samples.bytes = b"\1\2\3"
    expect(b.note_samples.bytes == bytes(119), "maps are per sampler")
    expect(type(a.note_samples) is Sampler.NoteSampleMap, "map type")
    return h.hexdigest()


# --------------------------------------------------------------------------
# 2. envelope flags
# --------------------------------------------------------------------------


def check_bitmask():
    env = Sampler.VolumeEnvelope()
    for e in (False, True):
        for su in (False, True):
            for lo in (False, True):
                env.enable, env.sustain, env.loop = e, su, lo
                want = int(e) + 2 * int(su) + 4 * int(lo)
                got = env.bitmask
                expect(got == want, f"bitmask {e},{su},{lo}: {got}")
                expect(type(got) is int, f"bitmask {e},{su},{lo}: type {type(got)}")
    for value in list(range(256)) + [0x100, 0x107, 0xFFFF, -1, -8, 2**40 + 5]:
        env.bitmask = value
        flags = (env.enable, env.sustain, env.loop)
        want = (bool(value & 1), bool(value & 2), bool(value & 4))
        expect(
            flags == want and all(type(f) is bool for f in flags),
            f"set bitmask {value}",
        )
        expect(env.bitmask == value & 7, f"bitmask after set {value}")
    env.bitmask = True
    expect(
        (env.enable, env.sustain, env.loop) == (True, False, False), "bitmask = True"
    )
    # flags given as numbers are combined as they are
    env.enable, env.sustain, env.loop = 1, 1, 0
    expect(env.bitmask == 3, "int flags")
    env.enable, env.sustain, env.loop = 0, 3, 1
    expect(env.bitmask == 6, "wide int flags")
    env.enable, env.sustain, env.loop = 8, 0, 0
    expect(env.bitmask == 8, "stray bits pass through")
    for combo in (
        (None, False, False),
        (False, None, False),
        (False, False, None),
        (True, 1.0, False),
        (True, False, 1.5),
        ("x", False, False),
        (True, "x", False),
    ):
        env.enable, env.sustain, env.loop = combo
        r = outcome(lambda: env.bitmask)
        expect(r[:2] == ("err", "TypeError"), f"bitmask of {combo}: {r[:2]}")
    for bad in (None, 1.5, "7", b"\7"):
        env.enable, env.sustain, env.loop = True, False, True
        r = outcome(setattr, env, "bitmask", bad)
        expect(r[:2] == ("err", "TypeError"), f"bitmask = {bad!r}: {r[:2]}")
        expect(
            (env.enable, env.sustain, env.loop) == (True, False, True),
            f"bitmask = {bad!r}: kept",
        )


# --------------------------------------------------------------------------
# 3. defaults created by Sampler()
# --------------------------------------------------------------------------


def check_defaults():
    s = Sampler()
    envs = all_envelopes(s)
    expect(
        [e.chnm for e in envs] == [0x102, 0x103, 0x104, 0x105, 0x106, 0x107, 0x108],
        "chnm",
    )
    expect(
        [type(e).__name__ for e in envs]
        == ["VolumeEnvelope", "PanningEnvelope", "PitchEnvelope"]
        + ["EffectControlEnvelope"] * 4,
        "envelope types",
    )
    expect(
        len(s.effect_control_envelopes) == 4
        and type(s.effect_control_envelopes) is list,
        "four effect envelopes",
    )
    expect(len({id(e) for e in envs}) == 7, "distinct envelopes")
    expect(len({id(e.points) for e in envs}) == 7, "distinct point lists")
    expect(
        s.volume_envelope.points is not Sampler.VolumeEnvelope.initial_points,
        "points copied",
    )
    state = [dump_env(e) for e in envs]
    expect(not any(e.loaded for e in envs), "nothing loaded yet")
    expect(Sampler.EffectControlEnvelope.chnm is None, "class attribute untouched")
    return hashlib.sha256(repr(state).encode()).hexdigest()


# --------------------------------------------------------------------------
# 4. envelope chunks against the reference encoder, and back
# --------------------------------------------------------------------------


def check_envelope_codec():
    h = hashlib.sha256()
    rnd = random.Random(1234)
    s = Sampler()
    for env in all_envelopes(s):
        for k, base in enumerate(POINT_LISTS):
            env.points = shifted(base, env)
            env.bitmask = k
            env.ctl_index = rnd.randrange(256)
            env.gain_pct = rnd.randrange(256)
            env.velocity = rnd.randrange(256)
            env.sustain_point = rnd.randrange(0x10000)
            env.loop_start_point = rnd.randrange(0x10000)
            env.loop_end_point = rnd.randrange(0x10000)
            g = env.chunks()
            expect(iter(g) is g and hasattr(g, "send"), "chunks() is a generator")
            pairs = list(g)
            label = f"{type(env).__name__}/{env.chnm:#x} points#{k}"
            expect([p[0] for p in pairs] == [b"CHNM", b"CHDT"], f"{label}: kinds")
            expect(pairs[0][1] == struct.pack("<I", env.chnm), f"{label}: chnm")
            chdt = pairs[1][1]
            expect(type(chdt) is bytes, f"{label}: bytes")
            expect(chdt == reference_chdt(env), f"{label}: matches reference")
            expect(len(chdt) == 0x14 + 4 * len(base), f"{label}: length")
            h.update(chdt)
            # old fixed-size table
            pb = env.point_bytes
            expect(
                len(pb) == 48 and pb == reference_point_bytes(env),
                f"{label}: point_bytes",
            )
            xs, ys = env._x_values, env._y_values
            expect(len(xs) == 12 and len(ys) == 12, f"{label}: twelve columns")
            expect(xs == ([x for x, _ in env.points] + [0] * 12)[:12], f"{label}: xs")
            expect(
                ys == ([y // 0x200 for _, y in env.points] + [0] * 12)[:12],
                f"{label}: ys",
            )
            h.update(pb)
            # decode into a fresh envelope of the same kind
            t = Sampler()
            target = all_envelopes(t)[all_envelopes(s).index(env)]
            expect(target.load_chdt(chdt) is None, f"{label}: load returns None")
            a, b = dump_env(target), dump_env(env)
            expect(a == b, f"{label}: decode")
            expect(target.loaded is True, f"{label}: loaded flag")
            expect(all(type(p) is tuple for p in target.points), f"{label}: tuples")
            # trailing junk and a missing final pad are both fine
            target.load_chdt(chdt + b"junk")
            expect(dump_env(target) == b, f"{label}: trailing junk ignored")
    return h.hexdigest()


def check_envelope_truncation():
    h = hashlib.sha256()
    s = Sampler()
    env = s.panning_envelope
    env.points = [(10, -0x4000), (20, 0), (30, 0x4000), (40, 123)]
    env.bitmask, env.ctl_index, env.gain_pct, env.velocity = 5, 1, 2, 3
    env.sustain_point, env.loop_start_point, env.loop_end_point = 7, 8, 9
    chdt = list(env.chunks())[1][1]
    for n in range(len(chdt) + 1):
        t = Sampler.PanningEnvelope()
        before = dump_env(t)
        r = outcome(t.load_chdt, chdt[:n])
        after = dump_env(t)
        h.update(repr((n, r[:2], after, t.loaded)).encode())
        if n < 0x10:
            expect(r[:2] == ("err", "error"), f"cut {n}: {r[:2]}")
            expect(after == before and t.loaded is False, f"cut {n}: untouched")
        else:
            whole = max(0, (n - 0x14) // 4)
            if whole < 4:
                expect(r[:2] == ("err", "error"), f"cut {n}: {r[:2]}")
                expect(t.loaded is False, f"cut {n}: not marked loaded")
                expect(t.points == env.points[:whole], f"cut {n}: points read so far")
                expect(
                    (t.enable, t.sustain, t.loop, t.sustain_point)
                    == (True, False, True, 7),
                    f"cut {n}: header applied",
                )
            else:
                expect(
                    r == ("ok", None) and after == dump_env(env), f"cut {n}: complete"
                )
    # header only (16 bytes, no padding) with zero points is enough
    t = Sampler.VolumeEnvelope()
    r = outcome(
        t.load_chdt, struct.pack("<HBBBBBBHHHH", 0xFFFA, 1, 2, 3, 9, 9, 9, 0, 4, 5, 6)
    )
    expect(r == ("ok", None), f"bare header: {r[:2]}")
    expect(t.points == [] and t.loaded, "bare header: no points")
    expect(
        (t.enable, t.sustain, t.loop) == (False, True, False), "high flag bits ignored"
    )
    expect(
        (
            t.ctl_index,
            t.gain_pct,
            t.velocity,
            t.sustain_point,
            t.loop_start_point,
            t.loop_end_point,
        )
        == (1, 2, 3, 4, 5, 6),
        "bare header fields",
    )
    # more points announced than present
    t = Sampler.PitchEnvelope()
    data = struct.pack("<HBBB3xHHHH4x", 1, 0, 0, 0, 3, 0, 0, 0) + struct.pack(
        "<HHHH", 1, 2, 3, 4
    )
    r = outcome(t.load_chdt, data)
    expect(r[:2] == ("err", "error"), f"too few points: {r[:2]}")
    expect(
        t.points == [(1, 2 - 0x4000), (3, 4 - 0x4000)] and not t.loaded,
        "too few points: partial",
    )
    for bad in (None, 5):
        r = outcome(Sampler.VolumeEnvelope().load_chdt, bad)
        expect(r[:2] == ("err", "TypeError"), f"load_chdt({bad!r}): {r[:2]}")
    r = outcome(Sampler.VolumeEnvelope().load_chdt, bytearray(chdt))
    expect(r == ("ok", None), "bytearray accepted")
    return h.hexdigest()


def check_envelope_errors():
    h = hashlib.sha256()
    cases = [
        ("ctl_index", 256),
        ("gain_pct", -1),
        ("velocity", 256),
        ("velocity", 1.5),
        ("sustain_point", 0x10000),
        ("loop_start_point", -1),
        ("loop_end_point", 0x10000),
        ("sustain_point", None),
        ("points", [(0x10000, 0)]),
        ("points", [(0, 0x10000)]),
        ("points", [(0, -1)]),
        ("points", [(0, 0), (1, 1.0)]),
        ("points", [(0, 0), (1,)]),
        ("points", [(0, 0), (1, 2, 3)]),
        ("points", None),
        ("points", [(0, None)]),
        ("points", [None]),
        ("points", ((1, 2), (3, 4))),
        ("points", [[1, 2], [3, 4]]),
        ("enable", None),
        ("loop", 1.0),
        ("enable", 0x10000),
        ("chnm", None),
        ("chnm", -1),
        ("chnm", 2**32),
    ]
    for attr, value in cases:
        env = Sampler.VolumeEnvelope()
        setattr(env, attr, value)
        items, err = drain(env.chunks())
        pb = outcome(lambda: env.point_bytes)
        h.update(repr((attr, value, items, err, pb[:2])).encode())
        label = f"{attr}={value!r}"
        if attr == "chnm":
            want = "error"  # also for None: struct complains, not Python
            expect((len(items), err) == (0, want), f"{label}: {len(items)}, {err}")
        elif attr == "points" and value in (((1, 2), (3, 4)), [[1, 2], [3, 4]]):
            expect(err is None and len(items) == 2, f"{label}: {err}")
            expect(
                items[1][1][0x14:] == struct.pack("<HHHH", 1, 2, 3, 4), f"{label}: body"
            )
            expect(
                pb[0] == "ok",
                f"{label}: point_bytes {pb[:2]}",
            )
        else:
            expect(len(items) == 1 and err is not None, f"{label}: {len(items)}, {err}")

    # which error exactly
    def err_of(attr, value, what="chunks"):
        env = Sampler.VolumeEnvelope()
        setattr(env, attr, value)
        if what == "chunks":
            return drain(env.chunks())[1]
        r = outcome(lambda: env.point_bytes)
        return None if r[0] == "ok" else r[1]

    expect(err_of("ctl_index", 256) == "error", "ctl_index 256")
    expect(err_of("velocity", 1.5) == "error", "velocity 1.5")
    expect(err_of("sustain_point", None) == "error", "sustain None")
    expect(err_of("points", [(0, 0), (1, 1.0)]) == "error", "float y in chunks")
    expect(
        err_of("points", [(0, 0), (1, 1.0)], "pb") == "error", "float y in point_bytes"
    )
    expect(
        err_of("points", [(0, 0), (1.0, 1)], "pb") == "error", "float x in point_bytes"
    )
    expect(err_of("points", [(0, 0), (1,)]) == "ValueError", "short pair")
    expect(
        err_of("points", [(0, 0), (1,)], "pb") == "ValueError",
        "short pair in point_bytes",
    )
    expect(err_of("points", [(0, 0), (1, 2, 3)]) == "ValueError", "long pair")
    expect(err_of("points", None) == "TypeError", "points None")
    expect(err_of("points", None, "pb") == "TypeError", "points None in point_bytes")
    expect(err_of("points", [(0, None)]) == "TypeError", "y None")
    expect(err_of("points", [(0, None)], "pb") == "TypeError", "y None in point_bytes")
    expect(err_of("points", [None]) == "TypeError", "point None")
    expect(err_of("points", [(0, 2**25)], "pb") == "error", "y too big for point_bytes")
    expect(err_of("points", [(0, -1)], "pb") == "error", "y below range in point_bytes")
    expect(
        err_of("points", [(i, 0) for i in range(12)] + [(0, None)], "pb")
        == "TypeError",
        "13th point still looked at",
    )
    expect(
        err_of("points", [(i, 0) for i in range(12)] + [(2**20, 0)], "pb") is None,
        "13th x not packed",
    )
    expect(err_of("enable", None) == "TypeError", "enable None")
    expect(err_of("loop", 1.0) == "TypeError", "loop float")
    expect(err_of("enable", 0x10000) == "error", "enable too wide")
    expect(err_of("chnm", None) == "error", "chnm None")
    # a base Envelope cannot be built
    expect(outcome(Sampler.Envelope)[:2] == ("err", "TypeError"), "bare Envelope()")
    return h.hexdigest()


# --------------------------------------------------------------------------
# 5. upgrading records that carry the envelopes themselves
# --------------------------------------------------------------------------


def legacy_record(
    vol_pts,
    pan_pts,
    vol_n,
    pan_n,
    vol_marks=(1, 2, 3),
    pan_marks=(4, 5, 6),
    vol_mask=3,
    pan_mask=5,
):
    """A current instrument record with hand-made old envelope fields."""
    rec = bytearray(instrument_record(Sampler()))

    def table(pts):
        out = b"".join(struct.pack("<HH", x, y) for x, y in pts)
        return out.ljust(48, b"\0")[:48]

    rec[0x84:0xB4] = table(vol_pts)
    rec[0xB4:0xE4] = table(pan_pts)
    rec[0xE4:0xEE] = bytes([vol_n, pan_n, *vol_marks, *pan_marks, vol_mask, pan_mask])
    return bytes(rec)


def upgrade(rec, index=None):
    s = Sampler()
    if index is not None:
        s.index = index
    s.load_chunk(make_chunk(0, rec))
    before = (dump_env(s.volume_envelope), dump_env(s.panning_envelope))
    r = outcome(s.finalize_load)
    return r, s, before


def check_upgrade():
    h = hashlib.sha256()
    pts = [(i * 3 + 1, (i * 5) % 65) for i in range(12)]
    for vol_n in range(0, 14):
        for pan_n in (0, 1, 5, 12, 13, 200):
            rec = legacy_record(
                pts,
                list(reversed(pts)),
                vol_n,
                pan_n,
                vol_mask=vol_n % 8,
                pan_mask=(vol_n + 3) % 8,
            )
            r, s, before = upgrade(rec)
            vol, pan = s.volume_envelope, s.panning_envelope
            h.update(repr((vol_n, pan_n, r[:2], dump_env(vol), dump_env(pan))).encode())
            label = f"upgrade {vol_n}/{pan_n}"
            # flags and markers are applied in any case
            expect(
                (vol.sustain_point, vol.loop_start_point, vol.loop_end_point)
                == (1, 2, 3),
                f"{label}: vol marks",
            )
            expect(
                (pan.sustain_point, pan.loop_start_point, pan.loop_end_point)
                == (4, 5, 6),
                f"{label}: pan marks",
            )
            expect(
                vol.bitmask == vol_n % 8 and pan.bitmask == (vol_n + 3) % 8,
                f"{label}: masks",
            )
            if vol_n > 12 or pan_n > 12:
                expect(r[:2] == ("err", "error"), f"{label}: {r[:2]}")
                expect(
                    vol.points == before[0]["points"], f"{label}: vol points untouched"
                )
                expect(
                    pan.points == before[1]["points"], f"{label}: pan points untouched"
                )
            else:
                expect(r == ("ok", None), f"{label}: {r[:2]}")
                expect(
                    vol.points == [(x, y * 0x200) for x, y in pts[:vol_n]],
                    f"{label}: vol points",
                )
                expect(
                    pan.points
                    == [
                        (x, y * 0x200 - 0x4000) for x, y in list(reversed(pts))[:pan_n]
                    ],
                    f"{label}: pan points",
                )
                expect(
                    all(type(p) is tuple for p in vol.points + pan.points),
                    f"{label}: tuples",
                )
            expect(not vol.loaded and not pan.loaded, f"{label}: still not 'loaded'")
            # the other envelopes keep their defaults
            fresh = Sampler()
            expect(
                [dump_env(e) for e in all_envelopes(s)[2:]]
                == [dump_env(e) for e in all_envelopes(fresh)[2:]],
                f"{label}: other envelopes",
            )
    # full 16 bit values in the old table
    r, s, _ = upgrade(legacy_record([(0xFFFF, 0xFFFF)], [(0xFFFF, 0xFFFF)], 1, 1))
    expect(s.volume_envelope.points == [(0xFFFF, 0xFFFF * 0x200)], "wide vol point")
    expect(
        s.panning_envelope.points == [(0xFFFF, 0xFFFF * 0x200 - 0x4000)],
        "wide pan point",
    )
    # an envelope chunk for volume switches the upgrade off, whatever else is there
    s = Sampler()
    s.load_chunk(make_chunk(0, legacy_record(pts, pts, 13, 13)))
    s.load_chunk(make_chunk(0x102, list(Sampler.VolumeEnvelope().chunks())[1][1]))
    expect(
        outcome(s.finalize_load) == ("ok", None),
        "no upgrade when volume envelope was loaded",
    )
    expect(
        s.panning_envelope.points == Sampler.PanningEnvelope.initial_points,
        "pan left alone",
    )
    # only a panning envelope chunk: upgrade still runs and overwrites it
    s = Sampler()
    s.load_chunk(make_chunk(0, legacy_record(pts, pts, 2, 3)))
    s.load_chunk(make_chunk(0x103, list(Sampler.PanningEnvelope().chunks())[1][1]))
    s.finalize_load()
    expect(
        len(s.panning_envelope.points) == 3 and s.panning_envelope.loaded,
        "pan overwritten by upgrade",
    )
    # no instrument record at all
    s = Sampler()
    r = outcome(s.finalize_load)
    expect(r[:2] == ("err", "TypeError"), f"upgrade without record: {r[:2]}")
    expect(
        dump_env(s.volume_envelope) == dump_env(Sampler().volume_envelope),
        "nothing applied",
    )
    # record cut inside the old tables: flags fail first / tables too short
    full = legacy_record(pts, pts, 4, 4)
    for n in (0x84, 0x90, 0xB4, 0xC0, 0xE4, 0xE6, 0xED):
        s = Sampler()
        r1 = outcome(s.load_chunk, make_chunk(0, full[:n]))
        r2 = outcome(s.finalize_load)
        h.update(
            repr(
                (
                    n,
                    r1[:2],
                    r2[:2],
                    dump_env(s.volume_envelope),
                    dump_env(s.panning_envelope),
                )
            ).encode()
        )
        expect(r1[:2] == ("err", "RuntimeError"), f"cut record {n}: load {r1[:2]}")
        expect(r2[:2] == ("err", "TypeError"), f"cut record {n}: upgrade {r2[:2]}")
    # the log line
    records = []

    class Grab(logging.Handler):
        def emit(self, record):
            records.append(record)

    logger = logging.getLogger("rv.modules.sampler")
    grab = Grab()
    old_level = logger.level
    logger.addHandler(grab)
    logger.setLevel(logging.INFO)
    logging.disable(logging.NOTSET)
    try:
        upgrade(legacy_record(pts, pts, 1, 1))
        upgrade(legacy_record(pts, pts, 1, 1), index=3)
        upgrade(legacy_record(pts, pts, 1, 1), index=0)
    finally:
        logging.disable(logging.CRITICAL)
        logger.removeHandler(grab)
        logger.setLevel(old_level)
    texts = [(r.levelname, r.getMessage()) for r in records]
    expect(
        texts
        == [
            ("INFO", "Upgrading Sampler to infinite envelope format"),
            ("INFO", "Upgrading Sampler[3] to infinite envelope format"),
            ("INFO", "Upgrading Sampler[0] to infinite envelope format"),
        ],
        f"log lines: {texts}",
    )
    return h.hexdigest()


# --------------------------------------------------------------------------
# 6. whole chunk stream and files
# --------------------------------------------------------------------------


def check_stream_and_files():
    h = hashlib.sha256()
    for seed in range(24):
        s = build_sampler(seed)
        before = dump(s)
        g = s.specialized_iff_chunks()
        expect(
            iter(g) is g and hasattr(g, "send"), "specialized_iff_chunks is a generator"
        )
        pairs = list(g)
        numbers = [struct.unpack("<I", v)[0] for k, v in pairs if k == b"CHNM"]
        slots = [i for i, x in enumerate(s.samples) if x is not None]
        want = (
            [0]
            + [n for i in slots for n in (2 * i + 1, 2 * i + 2)]
            + list(range(0x101, 0x109))
        )
        if s.effect:
            want.append(0x10A)
        expect(numbers == want, f"seed {seed}: chunk numbers {numbers[-10:]}")
        by_number = {}
        current = None
        for k, v in pairs:
            if k == b"CHNM":
                current = struct.unpack("<I", v)[0]
            elif k == b"CHDT":
                by_number[current] = v
        for env in all_envelopes(s):
            expect(
                by_number[env.chnm] == reference_chdt(env),
                f"seed {seed}: envelope {env.chnm:#x}",
            )
        if s.effect:
            f = BytesIO()
            s.effect.write_to(f)
            expect(
                by_number[0x10A] == f.getvalue(), f"seed {seed}: embedded effect bytes"
            )
            expect(pairs[-2] == (b"CHNM", b"\x0a\x01\0\0"), f"seed {seed}: effect chnm")
        data = write(s)
        h.update(data)
        t = read(data)
        expect(dump(t) == before, f"seed {seed}: round trip")
        expect(
            all(e.loaded for e in all_envelopes(t)), f"seed {seed}: envelopes loaded"
        )
        expect(write(t) == data, f"seed {seed}: second write")
        expect(dump(s.clone()) == before, f"seed {seed}: clone")
        # same file without its envelope chunks: the upgrade path rebuilds two of them
        u = Sampler()
        kept = [(k, v) for k, v in pairs]
        current = None
        for k, v in kept:
            if k == b"CHNM":
                current = struct.unpack("<I", v)[0]
            elif k == b"CHDT" and (current == 0 or current == 0x101):
                u.load_chunk(make_chunk(current, v))
        r = outcome(u.finalize_load)
        vol, pan = s.volume_envelope, s.panning_envelope
        h.update(
            repr(
                (seed, r[:2], dump_env(u.volume_envelope), dump_env(u.panning_envelope))
            ).encode()
        )
        if len(vol.points) > 12 or len(pan.points) > 12:
            expect(
                r[:2] == ("err", "error"), f"seed {seed}: too many old points {r[:2]}"
            )
        else:
            expect(r == ("ok", None), f"seed {seed}: upgrade {r[:2]}")
            expect(
                u.volume_envelope.points
                == [(x, y // 0x200 * 0x200) for x, y in vol.points],
                f"seed {seed}: upgraded vol",
            )
            expect(
                u.panning_envelope.points
                == [(x, (y + 0x4000) // 0x200 * 0x200 - 0x4000) for x, y in pan.points],
                f"seed {seed}: upgraded pan",
            )
            expect(
                u.volume_envelope.bitmask == vol.bitmask
                and u.panning_envelope.bitmask == pan.bitmask,
                f"seed {seed}: upgraded flags",
            )
    # effect envelopes list of the wrong size
    s = Sampler()
    s.effect_control_envelopes = s.effect_control_envelopes[:3]
    items, err = drain(s.specialized_iff_chunks())
    expect(
        (items, err) == ([], "IndexError"),
        f"three effect envelopes: {len(items)}, {err}",
    )
    s = Sampler()
    s.effect_control_envelopes.append(Sampler.EffectControlEnvelope(0x109))
    numbers = [
        struct.unpack("<I", v)[0] for k, v in s.specialized_iff_chunks() if k == b"CHNM"
    ]
    expect(
        numbers == [0] + list(range(0x101, 0x109)),
        "fifth effect envelope is not written",
    )
    # a broken envelope shows up only when the stream reaches it
    s = Sampler()
    s.pitch_envelope.gain_pct = 999
    items, err = drain(s.specialized_iff_chunks())
    numbers = [struct.unpack("<I", v)[0] for k, v in items if k == b"CHNM"]
    expect(
        err == "error" and numbers == [0, 0x101, 0x102, 0x103, 0x104],
        f"broken pitch envelope: {numbers}, {err}",
    )
    expect(len(items) == 9, f"broken pitch envelope: {len(items)} items")
    # legacy samplers replay what they were given
    s = Sampler()
    s.is_legacy = True

    class Raw(Chunk):
        chnm = 77

        def chdt(self):
            return b"raw"

    s.legacy_chunks = [Raw(), Raw()]
    expect(
        list(s.specialized_iff_chunks())
        == [(b"CHNM", struct.pack("<I", 77)), (b"CHDT", b"raw")] * 2,
        "legacy replay",
    )
    # fixture
    with open(os.path.join("tests", "files", "sampler.sunsynth"), "rb") as f:
        mod = read(f.read())
    data = write(mod)
    h.update(data)
    expect(dump(read(data)) == dump(mod), "fixture round trip")
    expect(
        mod.volume_envelope.points
        == [(0, 32768), (33, 9728), (98, 14848), (133, 4096), (256, 0)],
        "fixture vol points",
    )
    expect(mod.note_samples[NOTE.G5 - 1] == 2, "fixture map")
    return h.hexdigest()


EXPECTED = {
    "note_map": "5af8d356b8811623e70e2bec8e5a3c7522556132f5247c80622a18b2f797aaa5",
    "defaults": "8c50cc0409bc4f1805bf1ee02e8fde98b047dad28332f68103daa229cc6e32d6",
    "codec": "52580070c2ceaec3076d941273496b36a211d8ccaed683c8ef6d55652dae6358",
    "truncation": "5db1fc9b1d828048474f60b76bb5b5e193b143397f146410cf4fe94a70e107df",
    "errors": "e3eef257b557c0193f2ace81e73cd2bb28d89f306e0bc7d431746ea16cf33961",
    "upgrade": "7b54348b7e6d35f3f58519aaf36a8d6639bfa86561a99576c2b0987344e9ca09",
    "files": "66c7bc621edf152924c812da2948b83efcbd29d15dc1122cd327d5c511066451",
}


def main():
    check_bitmask()
    got = {
        "note_map": check_note_map(),
        "defaults": check_defaults(),
        "codec": check_envelope_codec(),
        "truncation": check_envelope_truncation(),
        "errors": check_envelope_errors(),
        "upgrade": check_upgrade(),
        "files": check_stream_and_files(),
    }
    for name, digest in got.items():
        if EXPECTED[name].startswith("@@"):
            print(f'    "{name}": "{digest}",')
        else:
            expect(digest == EXPECTED[name], f"digest {name}: {digest}")
    if FAILURES:
        print(f"{len(FAILURES)} check(s) failed")
        sys.exit(1)
    print("PASS")


if __name__ == "__main__":
    main()
