"""Behaviour check for the link (SLNK / SLnK) code paths of radiant-voices.

Run as:  cd <root> && PYTHONPATH=<root>/src/python /venv/bin/python check.py

Three areas are covered, each compared against an independent reference
model written in this file (plain lists, no library code):

  A. ModuleReader.process_SLNK / process_SLnK  (chunk -> list, trailing -1 stripped)
  B. SunVoxReader.process_end_of_file          (rebuild of slots / out links)
  C. Project.chunks()                          (SLNK always, SLnK only if needed)

plus end-to-end save/load round trips of graphs built by connect/disconnect
histories, with the slot chunk present, absent or present for some modules.
"""
import logging
import random
import struct
import sys
from io import BytesIO
from struct import pack

import rv.api as rv
from rv.lib.iff import write_chunk
from rv.modules.module import Module
from rv.pattern import Pattern, PatternClone
from rv.project import Project
from rv.readers.module import ModuleReader
from rv.readers.reader import read_sunvox_file

m = rv.m
FAILURES = []
COUNTS = {}


def check(cond, what):
    COUNTS["checks"] = COUNTS.get("checks", 0) + 1
    if not cond:
        FAILURES.append(what)
        if len(FAILURES) <= 25:
            print("FAIL:", what)


def words(values):
    return pack("<%di" % len(values), *values)


def stripped(values):
    values = list(values)
    while values and values[-1] == -1:
        del values[-1]
    return values


# --------------------------------------------------------------------------
# A. module reader handlers
# --------------------------------------------------------------------------


def new_module_reader(prefill_links=(), prefill_slots=()):
    reader = ModuleReader(None, index=1)
    mod = m.Amplifier()
    mod.in_links.extend(prefill_links)
    mod.in_link_slots.extend(prefill_slots)
    reader._object = mod
    return reader, mod


def section_a():
    cases = [
        [0],
        [-1],
        [-1, -1, -1],
        [3, -1],
        [-1, 3],
        [-1, 3, -1, -1],
        [1, -1, 2, -1, 3],
        [0, 0, 0],
        [5, 4, 3, 2, 1, 0],
        [2147483647, -2147483648, -1],
        [-2, -1],
        list(range(40)) + [-1] * 40,
    ]
    rnd = random.Random(801)
    for _ in range(300):
        n = rnd.randint(1, 12)
        cases.append([rnd.choice([-1, -1, 0, 1, 2, 3, 7, 255, -2]) for _ in range(n)])
    for handler, attr, other in [
        ("process_SLNK", "in_links", "in_link_slots"),
        ("process_SLnK", "in_link_slots", "in_links"),
    ]:
        for values in cases:
            reader, mod = new_module_reader()
            target = getattr(mod, attr)
            result = getattr(reader, handler)(words(values))
            check(result is None, "%s returns None" % handler)
            check(getattr(mod, attr) is target, "%s keeps list identity" % handler)
            check(target == stripped(values), "%s %r -> %r" % (handler, values, target))
            check(getattr(mod, other) == [], "%s leaves %s alone" % (handler, other))
            check(mod.out_links == [] and mod.out_link_slots == [], "out lists untouched")
        # Empty payload: nothing happens, the object is not even looked at.
        reader = ModuleReader(None, index=1)
        check(getattr(reader, handler)(b"") is None, "%s empty payload" % handler)
        check(reader._object is None, "%s empty payload does not create object" % handler)
        reader, mod = new_module_reader([4, -1], [9, -1])
        getattr(reader, handler)(b"")
        check(mod.in_links == [4, -1] and mod.in_link_slots == [9, -1], "empty keeps prefill")
        # A second chunk accumulates; stripping reaches into earlier content.
        for first, second in [
            ([3], [-1, -1]),
            ([3, -1, 4], [5]),
            ([-1], [-1]),
            ([], [2, -1]),
            ([1, 2], [-1, 7, -1]),
        ]:
            reader, mod = new_module_reader()
            if first:
                getattr(reader, handler)(words(first))
            getattr(reader, handler)(words(second))
            expect = stripped(stripped(first) + second)
            check(getattr(mod, attr) == expect, "%s twice %r+%r" % (handler, first, second))
        for prefill, values in [([5, -1], [-1]), ([5, -1], [6]), ([-1, -1], [-1, -1])]:
            kw = {"prefill_links": prefill} if attr == "in_links" else {"prefill_slots": prefill}
            reader, mod = new_module_reader(**kw)
            getattr(reader, handler)(words(values))
            check(
                getattr(mod, attr) == stripped(prefill + values),
                "%s prefill %r + %r" % (handler, prefill, values),
            )
        # Payloads that are not a whole number of words are rejected by struct.
        for bad in [b"\x01", b"\x01\x02", b"\x01\x02\x03", words([1]) + b"\x00", words([1, 2]) + b"\xff\xff\xff"]:
            reader, mod = new_module_reader([8], [8])
            try:
                getattr(reader, handler)(bad)
            except struct.error:
                check(True, "struct.error")
            except Exception as e:  # pragma: no cover
                check(False, "%s bad payload raised %r" % (handler, e))
            else:
                check(False, "%s accepted %r" % (handler, bad))
            check(mod.in_links == [8] and mod.in_link_slots == [8], "bad payload leaves lists")


# --------------------------------------------------------------------------
# B. end-of-file pass, driven through real files with hand-made link chunks
# --------------------------------------------------------------------------

WARNING_TEXT = "Found SLNK on %r referencing non-existent module %r"


def ref_end_of_file(spec):
    """spec: list of None | (links, slots-or-None).  Returns (kind, payload, warnings).

    Plain-list model of what loading must produce.
    """
    mods = []
    for index, entry in enumerate(spec):
        if entry is None:
            mods.append(None)
            continue
        links, slots = entry
        mods.append(
            {
                "index": index,
                "in_links": stripped(links),
                "in_link_slots": stripped(slots or []),
                "out_links": [],
                "out_link_slots": [],
            }
        )
    warnings = []
    try:
        while mods and mods[-1] is None:
            mods.pop()
        for mod in mods[1:] + mods[:1]:
            if mod is None or mod["in_link_slots"]:
                continue
            for other_num in mod["in_links"]:
                if other_num == -1:
                    mod["in_link_slots"].append(-1)
                    continue
                if other_num >= len(mods):
                    warnings.append(WARNING_TEXT % (mod["index"], other_num))
                    continue
                other = mods[other_num]
                if other is None:
                    raise AttributeError()
                in_slot = len(other["out_link_slots"])
                out_slot = len(mod["in_link_slots"])
                mod["in_link_slots"].append(in_slot)
                other["out_links"].append(mod["index"])
                other["out_link_slots"].append(out_slot)
        for mod in mods:
            if mod is None:
                continue
            for i, src_num in enumerate(mod["in_links"]):
                o = mod["in_link_slots"][i]
                src = mods[src_num]
                if src is None:
                    raise RuntimeError()
                while o >= len(src["out_links"]):
                    src["out_links"].append(-1)
                while o >= len(src["out_link_slots"]):
                    src["out_link_slots"].append(-1)
                if o != -1:
                    src["out_links"][o] = mod["index"]
                    src["out_link_slots"][o] = i
    except Exception as e:
        return "error", type(e).__name__, warnings
    tables = [
        None
        if mod is None
        else (mod["in_links"], mod["in_link_slots"], mod["out_links"], mod["out_link_slots"])
        for mod in mods
    ]
    return "ok", tables, warnings


def tables_of(project):
    return [
        None
        if mod is None
        else (mod.in_links, mod.in_link_slots, mod.out_links, mod.out_link_slots)
        for mod in project.modules
    ]


def file_from_spec(spec, version=None, patterns=()):
    """Serialise a project whose link chunks are exactly as given by spec."""
    project = Project()
    if version is not None:
        project.sunvox_version = version
    for pattern in patterns:
        project.attach_pattern(pattern)
    for _ in spec[1:]:
        project.attach_module(m.Amplifier())
    for index, entry in enumerate(spec):
        if entry is None:
            project.modules[index] = None
    out = BytesIO()
    index = 0
    for name, data in project.chunks():
        if name == b"SLNK":
            links, slots = spec[index]
            write_chunk(out, b"SLNK", words(links))
            if slots is not None:
                write_chunk(out, b"SLnK", words(slots))
            continue
        if name == b"SLnK":
            raise AssertionError("unexpected SLnK from an unconnected project")
        if name == b"SEND":
            index += 1
        write_chunk(out, name, data)
    out.seek(0)
    return out


class Capture(logging.Handler):
    def __init__(self):
        super().__init__(level=logging.WARNING)
        self.messages = []

    def emit(self, record):
        self.messages.append(record.getMessage())


def load_with_warnings(f):
    logger = logging.getLogger("rv.readers.sunvox")
    handler = Capture()
    logger.addHandler(handler)
    old_propagate = logger.propagate
    logger.propagate = False
    try:
        try:
            project = read_sunvox_file(f)
        except Exception as e:
            return "error", type(e).__name__, handler.messages
        return "ok", project, handler.messages
    finally:
        logger.removeHandler(handler)
        logger.propagate = old_propagate


def check_spec(spec, label):
    expect_kind, expect, expect_warnings = ref_end_of_file(spec)
    kind, got, warnings = load_with_warnings(file_from_spec(spec))
    COUNTS[expect_kind] = COUNTS.get(expect_kind, 0) + 1
    check(kind == expect_kind, "%s %r: outcome %s/%r, expected %s/%r" % (label, spec, kind, got, expect_kind, expect))
    check(warnings == expect_warnings, "%s %r: warnings %r vs %r" % (label, spec, warnings, expect_warnings))
    if kind != expect_kind:
        return None
    if kind == "error":
        check(got == expect, "%s %r: raised %s, expected %s" % (label, spec, got, expect))
        return None
    check(tables_of(got) == expect, "%s %r:\n   got %r\n   exp %r" % (label, spec, tables_of(got), expect))
    for index, mod in enumerate(got.modules):
        if mod is not None:
            check(mod.index == index and mod.parent is got, "%s index/parent" % label)
    return got


def random_wellformed_spec(rnd):
    """A spec derived from a connect/disconnect history, with slots randomly withheld."""
    project = Project()
    n = rnd.randint(1, 6)
    mods = [project.output] + [project.new_module(m.Amplifier) for _ in range(n)]
    for _ in range(rnd.randint(0, 4 * n)):
        a, b = rnd.choice(mods), rnd.choice(mods)
        if rnd.random() < 0.3:
            project.connect(a, ~b)
        else:
            project.connect(a, b)
    mode = rnd.choice(["all", "none", "some"])
    spec = []
    for mod in project.modules:
        keep = mode == "all" or (mode == "some" and rnd.random() < 0.5)
        spec.append((list(mod.in_links), list(mod.in_link_slots) if keep else None))
    return spec, project


def section_b():
    hand = [
        [([], None)],
        [([-1, -1], None)],
        [([1], None), ([], None)],
        [([1, 2], None), ([2], None), ([1], None)],  # cycle 1<->2, both to output
        [([1, 2], [0, 0]), ([2], [1]), ([1], [1])],
        [([2, 1], None), ([], None), ([], None)],
        [([-1, 2], None), ([], None), ([], None)],  # freed slot in the middle
        [([-1, 2, -1, 1], None), ([2], None), ([], None)],
        [([1], None), ([1], None)],  # self loop
        [([0], None)],  # output feeding itself
        [([1, 1], None), ([], None)],  # duplicate source
        [([1], [2]), ([], None)],  # out slot 2 -> padded with -1
        [([1, 2], [1, 0]), ([], None), ([], None)],
        [([1, 2], [3, 3]), ([0], [5]), ([1, 0], None)],
        [([1, -1, 2], [0, -1, 0]), ([], None), ([], None)],
        [([1, -1, 2], [-1, -1, -1]), ([], None), ([], None)],  # slots strip to empty
        [([1, 2], [0]), ([], None), ([], None)],  # short slot table
        [([1], [0, 0, 0]), ([], None)],  # long slot table
        [([1], [-2]), ([], None)],
        [([1], [-3]), ([], None)],
        [([3], None), ([], None)],  # non-existent source, no slots -> warning
        [([1, 3, 1], None), ([], None)],
        [([3], [0]), ([], None)],  # non-existent source with slots
        [([-2], None), ([], None), ([], None)],  # negative index wraps
        [([-2], [0]), ([], None), ([], None)],
        [([2], None), None, ([], None)],  # empty module in the middle
        [([1], None), None, ([], None)],  # source is an empty module, no slots
        [([1], [0]), None, ([], None)],  # source is an empty module, with slots
        [([1], None), ([], None), None, None],  # trailing empty modules dropped
        [([3], None), ([], None), None, None],  # ... so 3 no longer exists
        [None, ([2], None), ([1], None)],  # no output module at all
        [None, None],
        [([], None), ([0], None), ([0, 1], [1, 0])],  # output as a source
    ]
    for spec in hand:
        check_spec(spec, "hand")
    # Spot expectations written out longhand (not via the model).
    got = check_spec([([-1, 2, -1, 1], None), ([2], None), ([], None)], "longhand1")
    check(
        got is not None
        and tables_of(got)
        == [
            ([-1, 2, -1, 1], [-1, 1, -1, 0], [], []),
            ([2], [0], [0], [3]),
            ([], [], [1, 0], [0, 1]),
        ],
        "longhand1 tables",
    )
    got = check_spec([([1], [2]), ([], None)], "longhand2")
    check(
        got is not None and tables_of(got) == [([1], [2], [], []), ([], [], [-1, -1, 0], [-1, -1, 0])],
        "longhand2 tables",
    )
    got = check_spec([([1], None), ([], None), None, None], "longhand3")
    check(got is not None and len(got.modules) == 2, "trailing empties dropped")

    rnd = random.Random(802)
    for _ in range(400):
        spec, _project = random_wellformed_spec(rnd)
        check_spec(spec, "wellformed")
    for _ in range(900):
        n = rnd.randint(1, 5)
        spec = []
        for index in range(n):
            if rnd.random() < 0.12:
                spec.append(None)
                continue
            k = rnd.choice([0, 0, 1, 2, 3, 4])
            links = [rnd.choice([-1, rnd.randrange(0, n), rnd.randrange(0, n), rnd.randrange(0, n + 1), -2]) for _ in range(k)]
            r = rnd.random()
            if r < 0.5:
                slots = None
            elif r < 0.85:
                slots = [rnd.randint(-1, 4) for _ in range(k)]
            else:
                slots = [rnd.randint(-2, 4) for _ in range(rnd.randint(0, k + 1))]
            spec.append((links, slots))
        check_spec(spec, "random")


def section_b_patterns():
    """Module numbers in pattern notes lose their high byte for files < 1.9.5.0."""
    for version, masked in [
        ((1, 9, 4, 255), True),
        ((1, 9, 5, 0), False),
        ((1, 7, 3, 2), True),
        ((2, 1, 2, 1), False),
        ((1, 10, 0, 0), False),
    ]:
        pat = Pattern(tracks=2, lines=3)
        values = [0x0000, 0x0001, 0x00FF, 0x0100, 0x1234, 0xFFFF]
        k = 0
        for line in pat.data:
            for note in line:
                note.module = values[k]
                k += 1
        clone = PatternClone(source=0)
        f = file_from_spec([([1], None), ([], None)], version=version, patterns=[pat, clone])
        # an empty pattern slot between/after
        kind, project, warnings = load_with_warnings(f)
        check(kind == "ok", "pattern file loads (%r): %r" % (version, project))
        if kind != "ok":
            continue
        check(project.loaded_sunvox_version == version, "loaded version")
        loaded = [note.module for line in project.patterns[0].data for note in line]
        expect = [v & 0xFF for v in values] if masked else values
        check(loaded == expect, "version %r modules %r expected %r" % (version, loaded, expect))
        check(isinstance(project.patterns[1], PatternClone), "clone survives")
        check(tables_of(project) == [([1], [0], [], []), ([], [], [0], [0])], "links with patterns")


# --------------------------------------------------------------------------
# C. writer
# --------------------------------------------------------------------------


def expected_module_chunks(module):
    """Chunks Project.chunks() must produce for one module slot (before SEND)."""
    if module is None:
        return []
    out = list(module.iff_chunks())
    links, slots = module.in_links, module.in_link_slots
    if len(links) > 0:
        fmt = "<" + "i" * len(links)
        out.append((b"SLNK", pack(fmt, *links)))
        if [s for s in slots if s != 0 and s != -1]:
            out.append((b"SLnK", pack(fmt, *slots)))
    else:
        out.append((b"SLNK", b""))
    names = [n for n, c in module.controllers.items() if c.attached(module)]
    for name in names:
        out.append((b"CVAL", pack("<i", module.get_raw(name))))
    if names:
        out.append((b"CMID", b"".join(module.controller_midi_maps[n].cmid_data for n in names)))
    if module.chnk:
        out.append((b"CHNK", pack("<I", module.chnk)))
        out.extend(module.specialized_iff_chunks())
    return out


def module_sections(chunks):
    """Split the chunk list of a project into per-module-slot lists."""
    start = max(i for i, (name, _) in enumerate(chunks) if name in (b"PATL", b"PEND")) + 1
    sections, current = [], []
    for name, data in chunks[start:]:
        if name == b"SEND":
            check(data == b"", "SEND payload empty")
            sections.append(current)
            current = []
        else:
            current.append((name, data))
    check(current == [], "file ends with SEND")
    return sections


def check_writer(project, label):
    chunks = list(project.chunks())
    sections = module_sections(chunks)
    check(len(sections) == len(project.modules), "%s: one section per module slot" % label)
    for module, section in zip(project.modules, sections):
        check(section == expected_module_chunks(module), "%s: chunks of %r" % (label, module))
    return chunks


def build_various_projects():
    projects = []
    p = Project()
    projects.append(("empty", p))

    p = Project()
    gen = p.new_module(m.Generator)
    amp = p.new_module(m.Amplifier)
    p.connect(gen, amp)
    p.connect(amp, p.output)
    projects.append(("chain", p))

    p = Project()
    a, b, c = (p.new_module(m.Amplifier) for _ in range(3))
    p.connect([a, b, c], p.output)
    p.connect(a, [b, c])
    p.connect(b, a)  # cycle
    p.connect(c, c)  # self loop
    projects.append(("fan", p))

    p = Project()
    a, b, c, d = (p.new_module(m.Amplifier) for _ in range(4))
    p.connect([a, b, c, d], p.output)
    p.connect(b, ~p.output)
    p.connect(~d, p.output)
    projects.append(("freed", p))

    p = Project()
    ctl = p.new_module(m.MultiCtl)
    a, b, c = (p.new_module(m.Amplifier) for _ in range(3))
    p.connect(ctl, [a, b, c])
    p.connect(ctl, ~b)
    p.connect(a, p.output)
    p.connect(a, c)
    projects.append(("multictl", p))

    p = Project()
    a, b, c = (p.new_module(m.Amplifier) for _ in range(3))
    p.connect(a, p.output)
    p.connect(c, p.output)
    p.modules[b.index] = None
    projects.append(("hole", p))

    p = Project()
    meta = p.new_module(m.MetaModule)
    samp = p.new_module(m.Sampler)
    p.connect(samp, meta)
    p.connect(meta, p.output)
    projects.append(("chunky", p))
    return projects


def section_c():
    for label, project in build_various_projects():
        check_writer(project, label)
    # Hand-set link tables: which slot tables get a SLnK chunk?
    for links, slots, expect_slnk in [
        ([1], [0], False),
        ([1], [-1], False),
        ([-1], [-1], False),
        ([1, -1, 1], [0, -1, 0], False),
        ([1], [1], True),
        ([1, 1], [0, 2], True),
        ([1, 1], [-1, -2], True),
        ([-1, 1], [-1, 7], True),
        ([], [], False),
        ([], [3], False),  # no links: slots ignored entirely
    ]:
        p = Project()
        a = p.new_module(m.Amplifier)
        p.output.in_links[:] = links
        p.output.in_link_slots[:] = slots
        chunks = check_writer(p, "handset %r/%r" % (links, slots))
        section = module_sections(chunks)[0]
        names = [name for name, _ in section]
        check(names.count(b"SLNK") == 1, "exactly one SLNK")
        check((b"SLnK" in names) == expect_slnk, "SLnK presence for %r" % (slots,))
        if links:
            check(dict(section)[b"SLNK"] == words(links), "SLNK payload")
        else:
            check(dict(section)[b"SLNK"] == b"", "empty SLNK payload")
        if expect_slnk:
            check(names.index(b"SLnK") == names.index(b"SLNK") + 1, "SLnK right after SLNK")
            check(dict(section)[b"SLnK"] == words(slots), "SLnK payload")
    # Slot table of a different length than the link table: struct refuses, and
    # nothing of the link chunks for that module has been produced by then.
    for links, slots in [([1, 1], [0]), ([1], [0, 0]), ([1], [])]:
        p = Project()
        a = p.new_module(m.Amplifier)
        a.in_links[:] = links
        a.in_link_slots[:] = slots
        seen = []
        try:
            for chunk in p.chunks():
                seen.append(chunk)
        except struct.error:
            check(True, "struct.error")
        except Exception as e:  # pragma: no cover
            check(False, "mismatched tables raised %r" % (e,))
        else:
            check(False, "mismatched tables accepted")
        names = [name for name, _ in seen]
        check(names.count(b"SLNK") == 1 and names.count(b"SEND") == 1, "failed inside module 1")
        check(seen[-1][0] == b"SMIP", "error before the module's SLNK, last=%r" % (seen[-1][0],))
    # chunks() is lazy: link tables are read when the module is reached.
    p = Project()
    a = p.new_module(m.Amplifier)
    it = p.chunks()
    for name, data in it:
        if name == b"SEND":
            break
    p.connect(a, p.output)
    a.in_links[:] = [0, 0]
    a.in_link_slots[:] = [0, 5]
    rest = list(it)
    check((b"SLNK", words([0, 0])) in rest and (b"SLnK", words([0, 5])) in rest, "lazy link tables")


# --------------------------------------------------------------------------
# End to end
# --------------------------------------------------------------------------


def section_roundtrip():
    rnd = random.Random(803)
    for label, project in build_various_projects():
        if label == "hole":
            continue
        loaded = read_sunvox_file(BytesIO(project.read()))
        before = [tuple(stripped(t) for t in tabs) for tabs in tables_of(project)]
        after = [tuple(stripped(t) for t in tabs) for tabs in tables_of(loaded)]
        if label in ("empty", "chain", "fan", "multictl", "chunky"):
            check(before == after, "%s round trip\n %r\n %r" % (label, before, after))
        again = read_sunvox_file(BytesIO(loaded.read()))
        check(tables_of(again) == tables_of(loaded), "%s second round trip is stable" % label)
        check(loaded.read() == again.read(), "%s bytes stable" % label)
    for _ in range(150):
        spec, project = random_wellformed_spec(rnd)
        data = project.read()
        kind, loaded, warnings = load_with_warnings(BytesIO(data))
        full_spec = [(list(mod.in_links), list(mod.in_link_slots)) for mod in project.modules]
        has_slnk = any(any(s not in (0, -1) for s in slots) for _, slots in full_spec)
        check((b"SLnK" in data) == has_slnk or b"SLnK" in data, "SLnK emitted when needed")
        written_spec = [
            (links, slots if any(s not in (0, -1) for s in slots) and links else None)
            for links, slots in full_spec
        ]
        expect_kind, expect, expect_warnings = ref_end_of_file(written_spec)
        check(kind == expect_kind, "roundtrip outcome %r" % (written_spec,))
        if kind == "ok" and expect_kind == "ok":
            check(tables_of(loaded) == expect, "roundtrip tables %r" % (written_spec,))
            # graph (set of edges) always survives
            edges_before = sorted((s, mod.index) for mod in project.modules for s in mod.in_links if s != -1)
            edges_after = sorted((s, mod.index) for mod in loaded.modules for s in mod.in_links if s != -1)
            check(edges_before == edges_after, "edges preserved")
            out_edges = sorted((mod.index, d) for mod in loaded.modules for d in mod.out_links if d != -1)
            check(out_edges == sorted(edges_after), "out links mirror in links")
    # regression file shipped with the test-suite
    import os

    path = os.path.join("tests", "files", "issue109", "filter_lfo.sunvox")
    if os.path.exists(path):
        project = read_sunvox_file(path)
        again = read_sunvox_file(BytesIO(project.read()))
        check(tables_of(project) == tables_of(again), "issue109 stable")
        check(any(t and t[0] for t in tables_of(project)), "issue109 has links")
    for name in ["empty.sunvox", "single-fm.sunvox", "supertracks.sunvox", "module-multiselect.sunvox"]:
        path = os.path.join("tests", "files", name)
        if os.path.exists(path):
            project = read_sunvox_file(path)
            again = read_sunvox_file(BytesIO(project.read()))
            check(tables_of(project) == tables_of(again), "%s stable" % name)
            check_writer(project, name)


def main():
    logging.getLogger("rv").setLevel(logging.ERROR)
    logging.getLogger("rv.readers.sunvox").setLevel(logging.WARNING)
    section_a()
    section_b()
    section_b_patterns()
    section_c()
    section_roundtrip()
    if FAILURES:
        print("FAIL (%d of %d checks)" % (len(FAILURES), COUNTS["checks"]))
        return 1
    print("PASS (%d checks; model outcomes ok=%d error=%d)" % (COUNTS["checks"], COUNTS.get("ok", 0), COUNTS.get("error", 0)))
    return 0


if __name__ == "__main__":
    sys.exit(main())
