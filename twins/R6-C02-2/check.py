"""Behaviour check for the reorganisation of the synth writer and module reader.

Covers Synth.chunks and the in-project writer (CVAL/CMID/CHNK emission for
both contexts against an independent reference), the ModuleReader chunk
handlers (hand-built IFF streams with extreme field values, NUL handling,
link trimming), ControllerMidiMap records and Module.load_cmid, the drawn
waveform decoder of Generator / AnalogGenerator, SunSynthReader, and a round
trip of every module type at several settings.
"""
import contextlib
import hashlib
import io
import logging
import struct
import sys
from enum import Enum

from rv.api import Project
from rv.cmidmap import ControllerMidiMap, MidiMessageType, Slope
from rv.controller import Range
from rv.errors import EmptySynthError
from rv.modules import MODULE_CLASSES, Chunk, Module
from rv.modules.metamodule import MetaModule
from rv.modules.multictl import MultiCtl
from rv.modules.spectravoice import SpectraVoice
from rv.readers.reader import read_sunvox_file
from rv.synth import Synth

logging.disable(logging.CRITICAL)

FAILURES = []


def check(cond, label):
    if not cond:
        FAILURES.append(label)
        print("FAIL:", label)


def raises(exc_type, fn, label):
    try:
        fn()
    except exc_type:
        return True
    except Exception as e:  # wrong type
        check(False, f"{label}: raised {type(e).__name__} instead of {exc_type}")
        return False
    check(False, f"{label}: did not raise")
    return False


def quiet(fn, *a, **kw):
    with contextlib.redirect_stdout(io.StringIO()):
        return fn(*a, **kw)


P = struct.pack


def iff(*chunks):
    return b"".join(n + P("<I", len(d)) + d for n, d in chunks)


# --------------------------------------------------------------------------
# writers: Synth.chunks and Project.chunks
# --------------------------------------------------------------------------


def reference_tail(m):
    """CVAL* CMID [CHNK specialised...] as both writers must emit them."""
    out = []
    names = [n for n, c in m.controllers.items() if c.attached(m)]
    for n in names:
        out.append((b"CVAL", P("<i", m.get_raw(n))))
    if names:
        out.append((b"CMID", b"".join(m.controller_midi_maps[n].cmid_data for n in names)))
    if m.chnk:
        out.append((b"CHNK", P("<I", m.chnk)))
        out.extend(m.specialized_iff_chunks())
    return out


def check_writers():
    for mtype, cls in MODULE_CLASSES.items():
        if mtype == "Output":
            continue
        for variant in range(3):
            m = quiet(cls)
            m.flags = m.default_flags
            configure(m, variant)
            if m.controllers:
                last = [n for n in m.controllers if not n.startswith("user_defined")][-1]
                mm = m.controller_midi_maps[last]
                mm.message_type = MidiMessageType.control_change
                mm.channel = 3
                mm.message_parameter = 513
                mm.slope = Slope.s_curve
            if isinstance(m, MetaModule) and variant:
                m.user_defined_controllers = variant * 5
            got = list(Synth(m).chunks())
            want = (
                [(b"SSYN", b""), (b"VERS", bytes([1, 2, 1, 2]))]
                + list(m.iff_chunks(in_project=False))
                + reference_tail(m)
                + [(b"SEND", b"")]
            )
            check(got == want, f"Synth.chunks {mtype} v{variant}")
            n_cval = sum(1 for n, _ in got if n == b"CVAL")
            cmid = [d for n, d in got if n == b"CMID"]
            check(len(cmid) == (1 if n_cval else 0), f"one CMID {mtype}")
            if cmid:
                check(len(cmid[0]) == 8 * n_cval, f"CMID size {mtype}")
            # same module inside a project: the module's section of the stream
            p = Project()
            p.attach_module(m)
            pchunks = list(p.chunks())
            sends = [i for i, (n, _) in enumerate(pchunks) if n == b"SEND"]
            section = pchunks[sends[0] + 1 : sends[1] + 1]
            want = (
                list(m.iff_chunks(in_project=True))
                + [(b"SLNK", b"")]
                + reference_tail(m)
                + [(b"SEND", b"")]
            )
            check(section == want, f"Project.chunks {mtype} v{variant}")
            m.parent = None
            m.index = None
    # generators are lazy: EmptySynthError comes from the first step
    g = Synth().chunks()
    raises(EmptySynthError, lambda: next(g), "empty synth chunks")
    raises(EmptySynthError, lambda: Synth().read(), "empty synth read")
    raises(EmptySynthError, lambda: Synth(None).write_to(io.BytesIO()), "empty write")
    s = Synth(MODULE_CLASSES["Amplifier"]())
    check(s.sunsynth_version == (2, 1, 2, 1), "version attr")
    check(s.loaded_sunsynth_version == (2, 1, 2, 1), "loaded version attr")
    check(Synth.MAGIC_CHUNK == (b"SSYN", b""), "magic")
    s.module.flags = 0x49
    s.sunsynth_version = (9, 8, 7, 6)
    check(list(s.chunks())[1] == (b"VERS", bytes([6, 7, 8, 9])), "VERS follows attr")
    # a MetaModule's attachment is recomputed on the way out
    mm = MetaModule()
    mm.flags = mm.default_flags
    mm.user_defined_controllers = 3
    for c in mm.user_defined[:7]:
        c.attach(mm)
    n_fixed = len([n for n in mm.controllers if not n.startswith("user_defined_")])
    cvals = [d for n, d in Synth(mm).chunks() if n == b"CVAL"]
    check(len(cvals) == n_fixed + 3, "metamodule attachment recomputed")


# --------------------------------------------------------------------------
# reader handlers
# --------------------------------------------------------------------------


def synth_stream(*module_chunks, version=bytes([1, 2, 1, 2])):
    return iff((b"SSYN", b""), (b"VERS", version), *module_chunks, (b"SEND", b""))


def check_reader_fields():
    base = dict(
        SFFF=P("<I", 0x51),
        SNAM=b"amp".ljust(32, b"\0"),
        STYP=b"Amplifier\0",
    )

    def load(**fields):
        order = ["SFFF", "SNAM", "STYP"] + [k for k in fields if k not in base]
        merged = dict(base, **fields)
        data = synth_stream(*[(k.encode(), merged[k]) for k in order])
        return read_sunvox_file(io.BytesIO(data)).module

    m = load()
    check(type(m) is MODULE_CLASSES["Amplifier"], "reader type")
    check(m.flags == 0x51 | m.default_flags, "reader flags merged")
    check(m.name == "amp" and m.mtype == "Amplifier", "reader name/type")
    # names: NUL terminated, first NUL wins, no NUL at all, empty, utf-8
    for raw, want in [
        (b"abc\0def\0", "abc"),
        (b"\0abc", ""),
        (b"no nul at all", "no nul at all"),
        (b"", ""),
        ("é".encode() * 16, "é" * 16),
        (b"x" * 32, "x" * 32),
    ]:
        check(load(SNAM=raw).name == want, f"SNAM {raw!r}")
        check(load(SMIN=raw).midi_out_name == want, f"SMIN {raw!r}")
    check(load(STYP=b"Amplifier").mtype == "Amplifier", "STYP without NUL")
    check(load(STYP=b"Amplifier\0junk").mtype == "Amplifier", "STYP junk after NUL")
    raises(KeyError, lambda: load(STYP=b"Nope\0"), "unknown type")
    raises(UnicodeDecodeError, lambda: load(SNAM=b"\xff\xfe"), "bad utf8 name")
    # numeric fields, incl. the signedness each one is read with
    I, U = "<i", "<I"
    cases = [
        ("SFIN", "mod_finetune", I, [-(2**31), -1, 0, 2**31 - 1]),
        ("SREL", "mod_relative_note", I, [-(2**31), 5, 2**31 - 1]),
        ("SXXX", "x", I, [-(2**31), 512, 2**31 - 1]),
        ("SYYY", "y", I, [-7, 0, 2**31 - 1]),
        ("SZZZ", "layer", U, [0, 7, 2**32 - 1]),
        ("SSCL", "mod_scale", U, [0, 256, 2**32 - 1]),
        ("SMIC", "midi_out_channel", I, [-1, 0, 15]),
        ("SMIB", "midi_out_bank", I, [-1, 0, 16383]),
        ("SMIP", "midi_out_program", I, [-1, 0, 127]),
    ]
    for chunk, attr, fmt, values in cases:
        for v in values:
            check(getattr(load(**{chunk: P(fmt, v)}), attr) == v, f"{chunk} {v}")
        for bad in (b"", b"\x01", b"\x01\x02\x03", b"\0" * 5, b"\0" * 8):
            raises(struct.error, lambda: load(**{chunk: bad}), f"{chunk} size {len(bad)}")
    # layer written as a negative int comes back unsigned
    check(load(SZZZ=P("<i", -1)).layer == 2**32 - 1, "SZZZ is read unsigned")
    check(load(SMIC=P("<I", 2**32 - 1)).midi_out_channel == -1, "SMIC is read signed")
    for v in (0, 0x000C0101, 2**32 - 1):
        check(load(SVPR=P(U, v))._visualization == v, f"SVPR {v}")
        check(int(load(SVPR=P(U, v)).visualization) == v, f"SVPR int {v}")
    for rgb in ((0, 0, 0), (255, 254, 253), (1, 2, 3)):
        got = load(SCOL=bytes(rgb)).color
        check(got == rgb and type(got) is tuple, f"SCOL {rgb}")
    raises(struct.error, lambda: load(SCOL=b"\x01\x02"), "SCOL short")
    raises(struct.error, lambda: load(SCOL=b"\x01\x02\x03\x04"), "SCOL long")
    for v in (0, 1, 2, 33, 2**32 - 1):
        m = load(SMII=P(U, v))
        check(m.midi_in_always is bool(v & 1), f"SMII always {v}")
        check(m.midi_in_channel == v >> 1, f"SMII channel {v}")
    raises(struct.error, lambda: load(SMII=b"\0"), "SMII short")
    # flags before STYP are merged with the type's default flags
    for f in (0, 1, 0x80, 2**32 - 1):
        m = load(SFFF=P(U, f))
        check(m.flags == f | m.default_flags, f"SFFF {f:#x}")
    # links
    for chunk, attr in (("SLNK", "in_links"), ("SLnK", "in_link_slots")):
        for values, want in [
            ([], []),
            ([3], [3]),
            ([3, -1], [3]),
            ([-1, 4, -1, -1], [-1, 4]),
            ([-1, -1], []),
            ([0, 0, -2], [0, 0, -2]),
            ([2**31 - 1, -(2**31)], [2**31 - 1, -(2**31)]),
        ]:
            m = load(**{chunk: P(f"<{len(values)}i", *values)})
            check(getattr(m, attr) == want, f"{chunk} {values}")
        for n in (1, 2, 3, 5, 7):
            raises(struct.error, lambda: load(**{chunk: b"\0" * n}), f"{chunk} size {n}")
    # CVAL / CHNK / CHNM family
    m = load(CVAL=P("<i", 300))
    check(m.volume == 300, "CVAL applied")
    raises(struct.error, lambda: load(CVAL=b"\0\0"), "CVAL short")
    m = load(CHNK=P(U, 77))
    check(m._reader_chnk == 77, "CHNK remembered")
    raises(struct.error, lambda: load(CHNK=b"\0"), "CHNK short")
    # version
    for v in (bytes([1, 2, 1, 2]), bytes([0, 0, 0, 0]), bytes([255, 4, 3, 2])):
        s = read_sunvox_file(
            io.BytesIO(synth_stream(*[(k.encode(), base[k]) for k in base], version=v))
        )
        check(s.loaded_sunsynth_version == tuple(reversed(v)), f"VERS {list(v)}")
        check(type(s.loaded_sunsynth_version) is tuple, "VERS tuple")
        check(s.sunsynth_version == (2, 1, 2, 1), "own version untouched")
    raises(
        struct.error,
        lambda: read_sunvox_file(io.BytesIO(synth_stream(version=b"\x01\x02"))),
        "VERS short",
    )
    # a synth stream without a module
    s = read_sunvox_file(io.BytesIO(iff((b"SSYN", b""), (b"VERS", bytes(4)))))
    check(type(s) is Synth and s.module is None, "synth without module")


def check_chunk_records():
    """CHNM/CHDT/CHFF/CHFR grouping as seen by load_chunk."""
    seen = []
    cls = MODULE_CLASSES["WaveShaper"]
    orig = cls.load_chunk

    def spy(self, chunk):
        seen.append((chunk.chnm, chunk.chdt, chunk.chff, chunk.chfr))
        return orig(self, chunk)

    cls.load_chunk = spy
    try:
        curve = P("<256H", *range(256))
        data = synth_stream(
            (b"SFFF", P("<I", 0x51)),
            (b"SNAM", b"w".ljust(32, b"\0")),
            (b"STYP", b"WaveShaper\0"),
            (b"CHNK", P("<I", 1)),
            (b"CHNM", P("<I", 0)),
            (b"CHDT", curve),
            (b"CHFF", P("<I", 2**32 - 1)),
            (b"CHFR", P("<I", 8000)),
            (b"CHNM", P("<I", 2**32 - 1)),
            (b"CHDT", b"zz"),
            (b"CHNM", P("<I", 5)),
        )
        m = read_sunvox_file(io.BytesIO(data)).module
    finally:
        cls.load_chunk = orig
    check(
        seen
        == [
            (0, curve, 2**32 - 1, 8000),
            (2**32 - 1, b"zz", 0, 44100),
            (5, None, 0, 44100),
        ],
        "chunk records",
    )
    check(m.curve.values == list(range(256)), "curve loaded")


# --------------------------------------------------------------------------
# CMID
# --------------------------------------------------------------------------


def check_cmid():
    d = ControllerMidiMap()
    check(d.cmid_data == bytes([0, 0, 0, 0, 0, 0, 0, 0xFF]), "unset record")
    for mt in MidiMessageType:
        for sl in Slope:
            for ch, par in ((0, 0), (15, 127), (255, 65535), (7, 256)):
                c = ControllerMidiMap()
                c.message_type, c.slope, c.channel, c.message_parameter = mt, sl, ch, par
                data = c.cmid_data
                tail = 0xFF if mt is MidiMessageType.unset else 0xC8
                want = bytes([mt.value, ch, sl.value, 0]) + P("<H", par) + bytes([0, tail])
                check(data == want and len(data) == 8, f"cmid {mt} {sl} {ch} {par}")
                e = ControllerMidiMap()
                e.cmid_data = data
                check(
                    (e.message_type, e.slope, e.channel, e.message_parameter)
                    == (mt, sl, ch, par),
                    f"cmid decode {mt} {sl}",
                )
    c = ControllerMidiMap()
    c.channel = 256
    raises(struct.error, lambda: c.cmid_data, "channel overflow")
    c = ControllerMidiMap()
    c.message_parameter = 65536
    raises(struct.error, lambda: c.cmid_data, "parameter overflow")
    # reserved bytes and the state byte are ignored on read
    e = ControllerMidiMap()
    e.cmid_data = bytes([3, 2, 1, 99, 0x34, 0x12, 98, 97])
    check(
        (e.message_type, e.channel, e.slope, e.message_parameter)
        == (MidiMessageType.control_change, 2, Slope.exp1, 0x1234),
        "reserved ignored",
    )
    # bad type: channel and parameter were already taken over, type/slope not
    e = ControllerMidiMap()
    raises(ValueError, lambda: setattr(e, "cmid_data", bytes([77, 5, 1, 0, 9, 0, 0, 0])), "bad type")
    check(
        (e.channel, e.message_parameter, e.message_type, e.slope)
        == (5, 9, MidiMessageType.unset, Slope.linear),
        "state after bad type",
    )
    e = ControllerMidiMap()
    raises(ValueError, lambda: setattr(e, "cmid_data", bytes([1, 5, 66, 0, 9, 0, 0, 0])), "bad slope")
    check(e.message_type == MidiMessageType.note and e.slope == Slope.linear, "state after bad slope")
    for n in (0, 7, 9):
        raises(struct.error, lambda: setattr(ControllerMidiMap(), "cmid_data", bytes(n)), f"cmid size {n}")

    # Module.load_cmid: one record per controller *in class order*
    cls = MODULE_CLASSES["Amplifier"]
    names = list(cls.controllers)

    def record(i):
        return bytes([1 + i % 8, i, i % 6, 0]) + P("<H", 1000 + i) + bytes([0, 0xC8])

    full = b"".join(record(i) for i in range(len(names)))
    for data in (
        full,
        full[:8],
        full[:20],
        full[:7],
        b"",
        full + record(40) * 2,
        full + b"\x01\x02",
        bytearray(full),
    ):
        m = cls()
        m.load_cmid(data)
        n_complete = min(len(data) // 8, len(names))
        check(
            sorted(m.controller_midi_maps) == sorted(names[:n_complete]),
            f"load_cmid touched maps len {len(data)}",
        )
        for i, name in enumerate(names[:n_complete]):
            check(m.controller_midi_maps[name].cmid_data == record(i), f"load_cmid {name}")
    m = MODULE_CLASSES["Output"]()
    m.load_cmid(full)
    check(len(m.controller_midi_maps) == 0, "load_cmid without controllers")
    # a bad record stops the load there, earlier ones are kept
    m = cls()
    bad = record(0) + bytes([99]) + record(1)[1:] + record(2)
    raises(ValueError, lambda: m.load_cmid(bad), "load_cmid bad record")
    check(m.controller_midi_maps[names[0]].cmid_data == record(0), "first kept")
    check(names[2] not in m.controller_midi_maps, "third untouched")


# --------------------------------------------------------------------------
# drawn waveforms
# --------------------------------------------------------------------------


def check_drawn_waveform():
    for mtype in ("Generator", "Analog generator"):
        cls = MODULE_CLASSES[mtype]
        for chdt in (bytes(range(256)), bytes(32), bytes([0x80, 0x7F, 0xFF, 1]), b"", bytearray(b"\x81")):
            for chff, want_fmt in ((0, 1), (None, 1), (1, 1), (2, 2), (0x0C, 0x0C)):
                for chfr in (44100, 0, None, 12345):
                    m = quiet(cls)
                    ch = Chunk()
                    ch.chnm, ch.chdt, ch.chff, ch.chfr = 0, chdt, chff, chfr
                    m.load_drawn_waveform(ch)
                    w = m.drawn_waveform
                    want = [b - 256 if b > 127 else b for b in chdt]
                    check(w.samples == want, f"{mtype} samples")
                    check(all(type(v) is int for v in w.samples), f"{mtype} sample type")
                    check(w.format is w.Format(want_fmt), f"{mtype} format {chff}")
                    check(w.freq == chfr, f"{mtype} freq {chfr}")
                    m2 = quiet(cls)
                    m2.load_chunk(ch)
                    check(m2.drawn_waveform.samples == want, f"{mtype} via load_chunk")
        m = quiet(cls)
        ch = Chunk()
        ch.chnm, ch.chdt, ch.chff = 0, b"\x05\x06", 3
        raises(ValueError, lambda: m.load_drawn_waveform(ch), f"{mtype} bad format")
        check(m.drawn_waveform.samples == [5, 6], f"{mtype} samples set before format")
        check(m.drawn_waveform.format is m.drawn_waveform.Format.mono_8bit, f"{mtype} format kept")
        m = quiet(cls)
        ch = Chunk()
        ch.chnm = 0
        before = list(m.drawn_waveform.samples)
        raises(TypeError, lambda: m.load_drawn_waveform(ch), f"{mtype} no data")
        check(m.drawn_waveform.samples == before, f"{mtype} untouched without data")
        # digit strings are converted with int() like before
        ch.chdt = ["129", 3.0, True]
        ch.chff = 1
        m.load_drawn_waveform(ch)
        check(m.drawn_waveform.samples == [-127, 3, 1], f"{mtype} int() conversion")
        # every 32-sample waveform survives a synth round trip
        for samples in ([-128] * 32, [127] * 32, list(range(-16, 16)), [(-3) ** (i % 5) for i in range(32)]):
            m = quiet(cls)
            m.flags = m.default_flags
            m.drawn_waveform.samples = list(samples)
            c = quiet(m.clone)
            check(c.drawn_waveform.samples == samples, f"{mtype} clone samples")
            check(c.drawn_waveform.freq == 44100, f"{mtype} clone freq")
        m = quiet(cls)
        m.flags = m.default_flags
        c = quiet(m.clone)
        check(c.drawn_waveform.is_default, f"{mtype} default stays default")
    g = MODULE_CLASSES["Generator"]()
    check(g.chnk is False, "default generator has no CHNK")
    g.drawn_waveform.samples[3] = 1
    check(g.chnk == 4, "edited generator has CHNK")


# --------------------------------------------------------------------------
# whole-file round trips for every module type
# --------------------------------------------------------------------------


def candidate_values(module, name):
    ctl = module.controllers[name]
    t = ctl.instance_value_type(module)
    if t is None:
        return []
    if isinstance(t, Range):
        lo, hi = t.min, t.max
        return [lo, hi, (lo + hi) // 2, min(hi, lo + 1)]
    if t is bool:
        return [False, True, True, False]
    if isinstance(t, type) and issubclass(t, Enum):
        members = list(t)
        return [members[0], members[-1], members[len(members) // 2], members[0]]
    return []


def configure(module, variant):
    for name in module.controllers:
        if name.startswith("user_defined_"):
            continue
        values = candidate_values(module, name)
        if values:
            setattr(module, name, values[variant])


def state(m):
    s = {
        "type": type(m).__name__,
        "mtype": m.mtype,
        "name": m.name,
        "flags": m.flags,
        "cv": {
            k: (v.value if isinstance(v, Enum) else v)
            for k, v in m.controller_values.items()
        },
        "opt": dict(m.option_values),
        "cmid": {k: m.controller_midi_maps[k].cmid_data for k in m.controllers},
        "common": (
            m.mod_finetune,
            m.mod_relative_note,
            m.mod_scale,
            tuple(m.color),
            m.midi_in_always,
            m.midi_in_channel,
            m.midi_out_name,
            m.midi_out_channel,
            m.midi_out_bank,
            m.midi_out_program,
        ),
        "special": b"".join(
            (n or b"-") + (d or b"-") for n, d in m.specialized_iff_chunks()
        )
        if m.chnk
        else b"",
    }
    return s


def check_round_trips():
    digest = hashlib.sha256()
    for mtype, cls in MODULE_CLASSES.items():
        if mtype == "Output":
            continue
        for variant in range(4):
            m = quiet(cls, name=f"{mtype} v{variant}", color=(variant, 2, 3))
            m.mod_finetune = -variant
            m.mod_relative_note = variant * 3
            m.flags = m.default_flags
            configure(m, variant)
            if mtype == "Generator" and variant:
                m.drawn_waveform.samples = [(-1) ** i * (i * 4 % 128) for i in range(32)]
            if mtype == "Analog generator" and variant:
                m.drawn_waveform.samples = [127 - i * 8 for i in range(32)]
            if mtype == "WaveShaper":
                m.curve.values = [(i * 257 * (variant + 1)) % 65536 for i in range(256)]
            if mtype == "FMX":
                m.custom_waveform.values = [((i * variant) % 256 - 128) / 128 for i in range(256)]
            if mtype == "MultiSynth":
                m.nv_curve.values = [(i * (variant + 1)) % 256 for i in range(128)]
                m.vv_curve.values = [255 - (i % 256) for i in range(257)]
                if variant:
                    m.np_curve.values = [65535 - i * variant for i in range(128)]
            if mtype == "MultiCtl":
                m.curve.values = [(i * 128 + variant) % 32769 for i in range(257)]
                m.mappings.values[variant] = MultiCtl.Mapping((1, 2, 3, 1, 0, 0, 0, 9))
            if mtype == "SpectraVoice":
                for i, h in enumerate(m.harmonics):
                    h.freq_hz = (i * 1000 + variant) % 32769
                    h.volume = (i * 16 + variant) % 256
                    h.width = 255 - i
                    h.type = list(SpectraVoice.HarmonicType)[(i + variant) % len(SpectraVoice.HarmonicType)]
            if mtype == "Vorbis player":
                m.data = bytes(range(256)) * variant
            first = list(m.controllers)[0] if m.controllers else None
            if first and not first.startswith("user_defined"):
                mm = m.controller_midi_maps[first]
                mm.channel = variant
                mm.message_parameter = 1000 + variant
                from rv.cmidmap import MidiMessageType, Slope

                mm.message_type = list(MidiMessageType)[variant + 1]
                mm.slope = list(Slope)[variant]
            data = Synth(m).read()
            digest.update(data)
            clone = m.clone()
            check(type(clone) is cls, f"clone type {mtype}")
            check(state(clone) == state(m), f"clone state {mtype} v{variant}")
            check(Synth(clone).read() == data, f"clone bytes {mtype} v{variant}")
            loaded = read_sunvox_file(io.BytesIO(data)).module
            check(state(loaded) == state(m), f"loaded state {mtype} v{variant}")
            # inside a project
            p = Project()
            p.attach_module(m)
            pdata = p.read()
            digest.update(pdata)
            p2 = read_sunvox_file(io.BytesIO(pdata))
            m2 = p2.modules[1]
            check(type(m2) is cls, f"project type {mtype}")
            check(state(m2) == state(m), f"project state {mtype} v{variant}")
            check((m2.x, m2.y, m2.layer) == (m.x, m.y, m.layer), f"project xy {mtype}")
            check(p2.read() == pdata, f"project bytes {mtype} v{variant}")
    raises(EmptySynthError, lambda: Synth().read(), "empty synth")
    raises(EmptySynthError, lambda: Synth(None).write_to(io.BytesIO()), "empty synth write")
    return digest.hexdigest()



EXPECTED_DIGEST = "663bbd3dbf85f5066ce51109b459202af2a1acc09b435a73f2a657a369c33878"


def main():
    check_writers()
    check_reader_fields()
    check_chunk_records()
    check_cmid()
    check_drawn_waveform()
    digest = check_round_trips()
    if "--digest" in sys.argv:
        print(digest)
    check(digest == EXPECTED_DIGEST, f"serialized bytes digest {digest}")
    if FAILURES:
        print(f"FAIL ({len(FAILURES)} problems)")
        sys.exit(1)
    print("PASS")


if __name__ == "__main__":
    main()
