"""Behaviour check for the writer side of property C08 (Project.chunks).

Exercises how a project's modules are serialised, with the emphasis on the
SLNK / SLnK link chunks: their content, their presence/absence, their position
within the module's chunk run, and what happens with malformed link tables.
Everything is compared against an independent reference written here with
plain ``struct.pack``.

Run:  cd <root> && PYTHONPATH=<root>/src/python /venv/bin/python check.py
"""
import io
import random
import struct
import sys

from rv.api import Project, m, read_sunvox_file
from rv.lib.iff import write_chunk

FAILURES = []


def expect(cond, msg):
    if not cond:
        FAILURES.append(msg)


# --------------------------------------------------------------------------
# reference encoder
# --------------------------------------------------------------------------


def ref_link_chunks(mod):
    n = len(mod.in_links)
    if n == 0:
        return [(b"SLNK", b"")]
    fmt = "<" + "i" * n
    out = [(b"SLNK", struct.pack(fmt, *mod.in_links))]
    if any(s not in (-1, 0) for s in mod.in_link_slots):
        out.append((b"SLnK", struct.pack(fmt, *mod.in_link_slots)))
    return out


def ref_module_chunks(mod):
    out = list(mod.iff_chunks())
    out += ref_link_chunks(mod)
    names = [n for n, c in mod.controllers.items() if c.attached(mod)]
    for n in names:
        out.append((b"CVAL", struct.pack("<i", mod.get_raw(n))))
    if names:
        out.append(
            (b"CMID", b"".join(mod.controller_midi_maps[n].cmid_data for n in names))
        )
    if mod.chnk:
        out.append((b"CHNK", struct.pack("<I", mod.chnk)))
        out += list(mod.specialized_iff_chunks())
    return out


def ref_module_section(project):
    out = []
    for mod in project.modules:
        if mod is not None:
            out += ref_module_chunks(mod)
        out.append((b"SEND", b""))
    return out


def module_section(project):
    """The tail of project.chunks() starting at the first module."""
    chunks = [tuple(c) for c in project.chunks()]
    # everything after the last PEND (or after PATL when there are no patterns)
    start = 0
    for i, (name, _) in enumerate(chunks):
        if name in (b"PEND", b"PATL"):
            start = i + 1
    return chunks[:start], chunks[start:]


def check_against_reference(project, label):
    head, tail = module_section(project)
    expect(head[0] == (b"SVOX", b""), f"{label}: magic chunk first")
    expect(
        all(name not in (b"SLNK", b"SLnK", b"SEND", b"SFFF") for name, _ in head),
        f"{label}: no module chunks in the header part",
    )
    ref = ref_module_section(project)
    expect(tail == ref, f"{label}: module section differs from reference")
    # SEND count equals number of module slots, including empty ones.
    expect(
        sum(1 for name, _ in tail if name == b"SEND") == len(project.modules),
        f"{label}: one SEND per module slot",
    )
    # Position of link chunks: right after SMIP, before any CVAL.
    names = [name for name, _ in tail]
    for i, name in enumerate(names):
        if name == b"SLNK":
            expect(names[i - 1] == b"SMIP", f"{label}: SLNK follows SMIP")
        if name == b"SLnK":
            expect(names[i - 1] == b"SLNK", f"{label}: SLnK follows SLNK")


# --------------------------------------------------------------------------
# graph builders
# --------------------------------------------------------------------------

MODULE_TYPES = [
    m.Amplifier,
    m.Generator,
    m.MultiCtl,
    m.Filter,
    m.Lfo,
    m.MultiSynth,
    m.Sampler,
    m.MetaModule,
]


def random_project(seed):
    rng = random.Random(seed)
    p = Project()
    mods = [p.output]
    for _ in range(rng.randint(1, 7)):
        mods.append(p.new_module(rng.choice(MODULE_TYPES)))
    for _ in range(rng.randint(0, 30)):
        a, b = rng.choice(mods), rng.choice(mods)
        if rng.random() < 0.3:
            p.connect(~a, b)
        else:
            p.connect(a, b)
    return p


def strip(lst):
    lst = list(lst)
    while lst and lst[-1] == -1:
        lst.pop()
    return lst


def tables(project):
    return [
        None
        if mod is None
        else (
            strip(mod.in_links),
            strip(mod.in_link_slots),
            strip(mod.out_links),
            strip(mod.out_link_slots),
        )
        for mod in project.modules
    ]


def consistent(project):
    for mod in project.modules:
        if mod is None:
            continue
        for i, (src, slot) in enumerate(zip(mod.in_links, mod.in_link_slots)):
            if src == -1:
                if slot != -1:
                    return False
                continue
            other = project.modules[src]
            if other.out_links[slot] != mod.index or other.out_link_slots[slot] != i:
                return False
        for i, (dst, slot) in enumerate(zip(mod.out_links, mod.out_link_slots)):
            if dst == -1:
                continue
            other = project.modules[dst]
            if other.in_links[slot] != mod.index or other.in_link_slots[slot] != i:
                return False
    return True


def roundtrip(project):
    f = io.BytesIO()
    project.write_to(f)
    f.seek(0)
    return read_sunvox_file(f)


# --------------------------------------------------------------------------
# scenarios
# --------------------------------------------------------------------------


def scenario_random_graphs():
    for seed in range(120):
        p = random_project(seed)
        check_against_reference(p, f"random[{seed}]")
        q = roundtrip(p)
        expect(tables(p) == tables(q), f"random[{seed}]: link tables survive round trip")
        expect(consistent(q), f"random[{seed}]: loaded tables mutually consistent")
        # Writing twice gives the same bytes; writing the loaded project too.
        expect(p.read() == p.read(), f"random[{seed}]: deterministic output")
        check_against_reference(q, f"random[{seed}]/reloaded")


def scenario_hand_drawn():
    # chain, fan-in, fan-out, cycle, self-link, link to output
    p = Project()
    a, b, c, d = (p.new_module(m.Amplifier) for _ in range(4))
    a >> b >> c >> d >> p.output
    check_against_reference(p, "chain")
    expect(
        [n for n, _ in module_section(p)[1]].count(b"SLnK") == 0,
        "chain: all-zero slots means no SLnK at all",
    )

    p = Project()
    a, b, c, d = (p.new_module(m.Amplifier) for _ in range(4))
    p.connect([a, b, c], d)
    p.connect(d, [a, b, c, p.output])
    p.connect(a, a)
    check_against_reference(p, "fan")
    names = [n for n, _ in module_section(p)[1]]
    expect(names.count(b"SLnK") >= 1, "fan: non-trivial slots produce SLnK")
    q = roundtrip(p)
    expect(tables(p) == tables(q), "fan: round trip")
    expect(consistent(q), "fan: consistent")

    # freed slot in the middle, then at the end
    p = Project()
    a, b, c, d = (p.new_module(m.Amplifier) for _ in range(4))
    p.connect([b, c, d], a)
    p.connect(~c, a)
    expect(a.in_links == [b.index, -1, d.index], "freed-middle precondition")
    check_against_reference(p, "freed-middle")
    q = roundtrip(p)
    expect(q.modules[1].in_links == [2, -1, 4], "freed-middle: in_links kept")
    expect(q.modules[1].in_link_slots == [0, -1, 0], "freed-middle: slots kept")
    p.connect(~d, a)
    check_against_reference(p, "freed-tail")
    q = roundtrip(p)
    expect(q.modules[1].in_links == [2], "freed-tail: trailing freed slots dropped")
    p.connect(~b, a)
    check_against_reference(p, "all-freed")
    section = module_section(p)[1]
    expect(
        (b"SLNK", struct.pack("<iii", -1, -1, -1)) in section,
        "all-freed: SLNK still carries the three freed entries",
    )
    expect(b"SLnK" not in [n for n, _ in section], "all-freed: no SLnK")
    q = roundtrip(p)
    expect(q.modules[1].in_links == [], "all-freed: loads as empty")


def scenario_exact_bytes():
    p = Project()
    a, b, c = (p.new_module(m.Amplifier) for _ in range(3))
    p.connect(a, [b, c])  # a.out = [b, c]; c.in_slots = [1]
    p.connect(b, c)  # c.in = [a, b], c.in_slots = [1, 0]
    section = module_section(p)[1]
    links = [(n, d) for n, d in section if n in (b"SLNK", b"SLnK")]
    expect(
        links
        == [
            (b"SLNK", b""),  # output
            (b"SLNK", b""),  # a
            (b"SLNK", struct.pack("<i", 1)),  # b <- a, slot 0 => no SLnK
            (b"SLNK", struct.pack("<ii", 1, 2)),  # c <- a, b
            (b"SLnK", struct.pack("<ii", 1, 0)),
        ],
        f"exact link chunks: {links!r}",
    )


def scenario_empty_module_slots():
    p = Project()
    a = p.new_module(m.Amplifier)
    p.attach_module(None)
    b = p.new_module(m.Generator)  # fills the empty slot
    expect(b.index == 2, "generator fills empty slot")
    p.attach_module(None, loading=True)
    c = p.new_module(m.Amplifier)
    p.modules[c.index] = None  # leave holes: [out, a, b, None, None]
    p.modules.append(None)
    b >> a >> p.output
    check_against_reference(p, "holes")
    tail = module_section(p)[1]
    expect(tail[-2:] == [(b"SEND", b""), (b"SEND", b"")], "holes: bare SENDs at end")
    q = roundtrip(p)
    expect(len(q.modules) == 3, "holes: trailing empty slots dropped on load")
    expect(q.modules[0].in_links == [1] and q.modules[1].in_links == [2], "holes: graph")


def scenario_manual_tables():
    # Hand-edited tables: only the 0 / -1 rule decides about SLnK.
    cases = [
        ([1], [0], False),
        ([1, -1], [0, -1], False),
        ([-1, -1], [-1, -1], False),
        ([-1, 1], [-1, 0], False),
        ([1, 1], [0, 1], True),
        ([1], [5], True),
        ([1], [-2], True),
        ([-1, 1], [-1, 2], True),
        ([1], [True], True),
        ([1], [False], False),
        ([2**31 - 1], [-(2**31)], True),
    ]
    for links, slots, want_slnk2 in cases:
        p = Project()
        a = p.new_module(m.Amplifier)
        p.output.in_links = list(links)
        p.output.in_link_slots = list(slots)
        got = [c for c in module_section(p)[1] if c[0] in (b"SLNK", b"SLnK")][:2]
        fmt = "<" + "i" * len(links)
        want = [(b"SLNK", struct.pack(fmt, *links))]
        if want_slnk2:
            want.append((b"SLnK", struct.pack(fmt, *slots)))
        else:
            got = got[:1]
        expect(got == want, f"manual {links} {slots}: {got!r}")
        check_against_reference(p, f"manual {links} {slots}")
    # tuple instead of list is accepted as well
    p = Project()
    p.new_module(m.Amplifier)
    p.output.in_links = (1, 1)
    p.output.in_link_slots = (0, 3)
    check_against_reference(p, "tuple tables")


def scenario_malformed_tables():
    # slots table shorter / longer than links table: struct.error, raised
    # before SLNK for that module is produced, after its standard chunks.
    for slots in ([], [0], [0, 1, 2]):
        p = Project()
        a = p.new_module(m.Amplifier)
        b = p.new_module(m.Amplifier)
        a.in_links = [2, 2]
        a.in_link_slots = list(slots)
        seen = []
        try:
            for chunk in p.chunks():
                seen.append(tuple(chunk))
        except struct.error:
            pass
        else:
            expect(False, f"malformed {slots}: expected struct.error")
        expect(seen[-1][0] == b"SMIP", f"malformed {slots}: last chunk {seen[-1][0]}")
        expect(
            [n for n, _ in seen].count(b"SLNK") == 1,
            f"malformed {slots}: only the output's SLNK was produced",
        )
    # out-of-range value in links table
    p = Project()
    a = p.new_module(m.Amplifier)
    a.in_links = [2**31]
    a.in_link_slots = [0]
    try:
        list(p.chunks())
    except struct.error:
        pass
    else:
        expect(False, "out-of-range link: expected struct.error")
    # empty links table wins: slots are not even looked at
    p = Project()
    a = p.new_module(m.Amplifier)
    a.in_links = []
    a.in_link_slots = [7, 7]
    check_against_reference(p, "empty links, stray slots")


def scenario_partial_slot_chunks():
    # Files in which SLnK is dropped for some modules still load consistently.
    for seed in range(40):
        p = random_project(1000 + seed)
        rng = random.Random(seed)
        f = io.BytesIO()
        for name, data in p.chunks():
            if name == b"SLnK" and rng.random() < 0.5:
                continue
            write_chunk(f, name, data)
        f.seek(0)
        q = read_sunvox_file(f)
        expect(
            [None if t is None else t[0] for t in tables(q)]
            == [None if t is None else t[0] for t in tables(p)],
            f"partial[{seed}]: in_links identical",
        )
        check_against_reference(q, f"partial[{seed}]/reloaded")


def scenario_issue109():
    import pathlib

    path = pathlib.Path("tests/files/issue109/filter_lfo.sunvox")
    if not path.exists():
        return
    p = read_sunvox_file(str(path))
    check_against_reference(p, "issue109")
    q = roundtrip(p)
    expect(tables(p) == tables(q), "issue109: round trip")
    expect(p.read() == q.read(), "issue109: stable bytes after one round trip")


def main():
    scenario_random_graphs()
    scenario_hand_drawn()
    scenario_exact_bytes()
    scenario_empty_module_slots()
    scenario_manual_tables()
    scenario_malformed_tables()
    scenario_partial_slot_chunks()
    scenario_issue109()
    if FAILURES:
        for msg in FAILURES[:40]:
            print("FAIL:", msg)
        print(f"{len(FAILURES)} failure(s)")
        sys.exit(1)
    print("PASS")


if __name__ == "__main__":
    main()
