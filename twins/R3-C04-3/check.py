import enum
import functools
import hashlib
import io
import logging
import os
import struct
import sys
import types

logging.disable(logging.CRITICAL)

from rv.api import read_sunvox_file  # noqa: E402

FILES = os.path.join(os.getcwd(), "tests", "files")
# back references, and a process-wide creation counter on controllers
PLAIN_CALLABLES = (
    type,
    types.FunctionType,
    types.MethodType,
    types.BuiltinFunctionType,
    functools.partial,
)
SKIP_ATTRS = {"parent", "project", "pattern", "_order"}


# ---- independent chunk codec (does not use rv.lib.iff) -------------------
def parse(blob):
    out, pos = [], 0
    while pos + 8 <= len(blob):
        name = blob[pos : pos + 4]
        (size,) = struct.unpack("<I", blob[pos + 4 : pos + 8])
        out.append((name, blob[pos + 8 : pos + 8 + size]))
        pos += 8 + size
    assert pos == len(blob), "fixture is not a clean chunk stream"
    return out


def encode(chunk_list):
    return b"".join(
        name + struct.pack("<I", len(data)) + data for name, data in chunk_list
    )


def u32(v):
    return struct.pack("<I", v)


def i32(v):
    return struct.pack("<i", v)


def load(chunk_list_or_bytes):
    blob = chunk_list_or_bytes
    if not isinstance(blob, (bytes, bytearray)):
        blob = encode(blob)
    return read_sunvox_file(io.BytesIO(bytes(blob)))


# ---- deterministic deep snapshot of public state --------------------------
def snap(obj, stack=()):
    if obj is None or isinstance(obj, (bool, str)):
        return obj
    if isinstance(obj, enum.Enum):
        return ("E", type(obj).__name__, snap(obj.value))
    if isinstance(obj, (int, float)):
        return obj
    if isinstance(obj, (bytes, bytearray, memoryview)):
        b = bytes(obj)
        return ("B", len(b), hashlib.sha1(b).hexdigest())
    if hasattr(obj, "tobytes") and hasattr(obj, "dtype"):
        return ("A", str(obj.dtype), tuple(obj.shape), hashlib.sha1(obj.tobytes()).hexdigest())
    if id(obj) in stack:
        return "<cycle>"
    stack = stack + (id(obj),)
    if isinstance(obj, (list, tuple)):
        return [type(obj).__name__] + [snap(x, stack) for x in obj]
    if isinstance(obj, (set, frozenset)):
        return ["set"] + sorted((snap(x, stack) for x in obj), key=repr)
    if isinstance(obj, dict):
        return ["dict"] + sorted(
            ((snap(k, stack), snap(v, stack)) for k, v in obj.items()), key=repr
        )
    if isinstance(obj, PLAIN_CALLABLES):
        return ("callable", getattr(obj, "__qualname__", type(obj).__name__))
    names = set()
    if hasattr(obj, "__dict__"):
        names.update(vars(obj))
    for klass in type(obj).__mro__:
        slots = getattr(klass, "__slots__", ())
        if isinstance(slots, str):
            slots = (slots,)
        names.update(s for s in slots if s not in ("__weakref__", "__dict__"))
    fields = []
    for name in sorted(names):
        if name in SKIP_ATTRS:
            continue
        try:
            value = getattr(obj, name)
        except AttributeError:
            continue
        fields.append((name, snap(value, stack)))
    return ("O", type(obj).__name__, fields)


def digest(value):
    return hashlib.sha256(repr(value).encode("utf-8")).hexdigest()


def outcome(chunk_list_or_bytes):
    """Snapshot of the loaded object, or the exception type name."""
    try:
        return snap(load(chunk_list_or_bytes))
    except Exception as exc:  # noqa: BLE001
        return ("EXC", type(exc).__name__)


def fixture_paths(suffixes=(".sunvox", ".sunsynth")):
    found = []
    for root, _dirs, names in os.walk(FILES):
        for name in names:
            if name.endswith(suffixes):
                found.append(os.path.join(root, name))
    return sorted(found)


CHECKS = []


def check(label, cond):
    CHECKS.append((label, bool(cond)))
    if not cond:
        print("FAIL:", label)


def finish(expected_digest, observed):
    got = digest(observed)
    if expected_digest is None:
        print("DIGEST", got)
    else:
        check("golden digest of all observed outcomes", got == expected_digest)
        if got != expected_digest:
            print("  got", got)
    bad = [label for label, ok in CHECKS if not ok]
    if bad:
        print("FAILED %d of %d checks" % (len(bad), len(CHECKS)))
        sys.exit(1)
    print("PASS (%d checks)" % len(CHECKS))


# ===========================================================================
# C04-3: byte-stream layer: rv.lib.iff.chunks/write_chunk, vendored Chunk,
# read_sunvox_file (who closes what), Reader.rewind, SunSynthReader.
# ===========================================================================
import pathlib  # noqa: E402

import rv.errors  # noqa: E402
from rv._vendor.chunk import Chunk  # noqa: E402
from rv.lib.iff import chunks, write_chunk  # noqa: E402

observed = []


def record(label, value):
    observed.append((label, value))
    return value


def cstr(text, width=None):
    raw = text.encode("utf-8") + b"\0"
    if width:
        raw = raw.ljust(width, b"\0")
    return raw


class ReadOnly:
    """A stream with read() only: no tell(), no seek()."""

    def __init__(self, blob):
        self._f = io.BytesIO(blob)
        self.reads = []

    def read(self, n=-1):
        self.reads.append(n)
        return self._f.read(n)

    def consumed(self):
        return self._f.tell()


class SeekFails(io.BytesIO):
    """tell() works, relative seeks raise OSError (e.g. a pipe-like wrapper)."""

    def seek(self, pos, whence=0):
        if whence == 1:
            raise OSError("no relative seeks")
        return super().seek(pos, whence)


def drain(stream):
    """Everything rv.lib.iff.chunks yields, or the exception type."""
    out = []
    try:
        for name, data in chunks(stream):
            out.append((bytes(name), bytes(data)))
    except Exception as exc:  # noqa: BLE001
        out.append(("EXC", type(exc).__name__))
    return out


# ---- 1. chunks(): framing, truncation, stream kinds -------------------------
big = bytes(range(256)) * 80  # 20480 bytes: more than one 8192-byte skip step
STREAMS = {
    "empty": b"",
    "one": encode([(b"ABCD", b"xyz")]),
    "zero length": encode([(b"ABCD", b""), (b"EFGH", b"")]),
    "several": encode([(b"SVOX", b""), (b"VERS", b"\1\2\3\4"), (b"NAME", b"n\0"), (b"BPM ", u32(125))]),
    "odd sizes not padded": encode([(b"A   ", b"1"), (b"B   ", b"123"), (b"C   ", b"12345")]),
    "big": encode([(b"BIG1", big), (b"tail", b"!")]),
    "truncated payload": encode([(b"ABCD", b"xyz")]) + b"EFGH" + u32(10) + b"abc",
    "truncated big payload": b"BIG2" + u32(len(big) + 5000) + big,
    "payload missing": encode([(b"ABCD", b"xyz")]) + b"EFGH" + u32(4),
    "huge declared size": b"HUGE" + u32(2**32 - 1) + b"ab",
}
for cut in range(1, 8):
    STREAMS["partial header %d" % cut] = encode([(b"ABCD", b"xyz")]) + (b"EFGH" + u32(3))[:cut]
for label, blob in sorted(STREAMS.items()):
    want = None
    for kind, factory in (("bytesio", io.BytesIO), ("readonly", ReadOnly), ("seekfails", SeekFails)):
        stream = factory(blob)
        got = drain(stream)
        record("chunks %s %s" % (label, kind), got)
        if kind == "readonly":
            record("chunks %s read sizes" % label, list(stream.reads))
            record("chunks %s consumed" % label, stream.consumed())
        else:
            record("chunks %s %s position" % (label, kind), stream.tell())
        if want is None:
            want = got
        if "truncated" not in label and "missing" not in label and "huge" not in label:
            check("chunks same on %s: %s" % (kind, label), got == want)
    if "truncated" not in label and "partial" not in label and "missing" not in label and "huge" not in label:
        check("chunks decode %s" % label, want == parse(blob))
check("chunks partial header yields the complete ones", drain(io.BytesIO(STREAMS["partial header 7"])) == [(b"ABCD", b"xyz")])
check(
    "chunks truncated payload yields what is there",
    drain(io.BytesIO(STREAMS["truncated payload"])) == [(b"ABCD", b"xyz"), (b"EFGH", b"abc")],
)
# the generator is lazy: one chunk consumed per step, the rest left in the stream
stream = io.BytesIO(STREAMS["several"])
gen = chunks(stream)
check("lazy first", next(gen) == (b"SVOX", b"") and stream.tell() == 8)
check("lazy second", next(gen) == (b"VERS", b"\1\2\3\4") and stream.tell() == 20)
stream.seek(8)  # what Reader.rewind does
check("after rewind the chunk is seen again", next(gen) == (b"VERS", b"\1\2\3\4"))
gen.close()
check("closed generator leaves position", stream.tell() == 20)
# EOFError thrown into the generator at the yield ends it quietly
gen = chunks(io.BytesIO(STREAMS["several"]))
next(gen)
try:
    gen.throw(EOFError)
    thrown = "yielded"
except StopIteration:
    thrown = "stopped"
except EOFError:
    thrown = "propagated"
record("throw EOFError into chunks()", thrown)
gen = chunks(io.BytesIO(STREAMS["several"]))
next(gen)
try:
    gen.throw(KeyError)
    thrown = "yielded"
except KeyError:
    thrown = "propagated"
check("other exceptions propagate out of chunks()", thrown == "propagated")

# ---- 2. vendored Chunk ---------------------------------------------------------
def chunk_story(factory, blob, **kw):
    """A fixed sequence of operations on one Chunk; returns all results."""
    log_ = []

    def step(label, fn):
        try:
            log_.append((label, fn()))
        except Exception as exc:  # noqa: BLE001
            log_.append((label, ("EXC", type(exc).__name__, str(exc))))

    stream = factory(blob)
    try:
        c = Chunk(stream, **kw)
    except Exception as exc:  # noqa: BLE001
        return [("ctor", ("EXC", type(exc).__name__))]
    step("name", c.getname)
    step("size", c.getsize)
    step("seekable", lambda: c.seekable)
    step("tell0", c.tell)
    step("isatty", c.isatty)
    step("read2", lambda: c.read(2))
    step("tell1", c.tell)
    step("read0", lambda: c.read(0))
    step("seek0", lambda: c.seek(0))
    step("read3", lambda: c.read(3))
    step("seek_rel", lambda: c.seek(-1, 1))
    step("tell2", c.tell)
    step("seek_end", lambda: c.seek(-2, 2))
    step("tell3", c.tell)
    step("seek_bad", lambda: c.seek(-1))
    step("seek_bad2", lambda: c.seek(1, 2))
    step("read_rest", c.read)
    step("tell4", c.tell)
    step("read_more", lambda: c.read(5))
    step("skip", c.skip)
    step("tell5", c.tell)
    step("next", lambda: stream.read(4))
    step("close", c.close)
    step("close again", c.close)
    step("closed", lambda: c.closed)
    for name in ("read", "skip", "tell", "isatty"):
        step("closed " + name, getattr(c, name))
    step("closed seek", lambda: c.seek(0))
    return log_


PAYLOADS = [b"", b"1", b"12", b"12345", b"123456", bytes(range(37))]
for payload in PAYLOADS:
    for bigendian in (False, True):
        for align in (False, True):
            for inclheader in (False, True):
                size = len(payload) + (8 if inclheader else 0)
                head = b"NAME" + struct.pack(">L" if bigendian else "<L", size)
                pad = b"\0" if (align and len(payload) % 2) else b""
                blob = head + payload + pad + b"NEXT" + u32(0)
                for kind, factory in (("bytesio", io.BytesIO), ("readonly", ReadOnly), ("seekfails", SeekFails)):
                    label = "Chunk len=%d be=%d al=%d ih=%d %s" % (len(payload), bigendian, align, inclheader, kind)
                    story = record(label, chunk_story(factory, blob, bigendian=bigendian, align=align, inclheader=inclheader))
                    got = dict(story)
                    check(label + " name/size", got["name"] == b"NAME" and got["size"] == len(payload))
                    if kind == "bytesio":
                        check(label + " lands on next chunk", got["next"] == b"NEXT")
for cut in range(0, 9):
    record("Chunk ctor on %d bytes" % cut, chunk_story(io.BytesIO, (b"NAME" + u32(2) + b"ab")[:cut]))
    record("Chunk ctor on %d bytes readonly" % cut, chunk_story(ReadOnly, (b"NAME" + u32(2) + b"ab")[:cut]))
check("ctor short name -> EOFError", chunk_story(io.BytesIO, b"NAM") == [("ctor", ("EXC", "EOFError"))])
check("ctor short size -> EOFError", chunk_story(io.BytesIO, b"NAME\1\0") == [("ctor", ("EXC", "EOFError"))])


def skip_story(factory, blob, first_read, **kw):
    stream = factory(blob)
    c = Chunk(stream, **kw)
    out = [c.read(first_read) if first_read is not None else None]
    try:
        out.append(c.skip())
    except Exception as exc:  # noqa: BLE001
        out.append(("EXC", type(exc).__name__))
    out.append(c.tell())
    out.append(stream.read(4))
    return out


for first_read in (None, 0, 1, 10000, -1):
    for align in (False, True):
        for label, blob in (
            ("complete", b"BIG3" + u32(20001) + big[:20001] + b"\0NEXT"),
            ("truncated", b"BIG3" + u32(20001) + big[:9000]),
        ):
            for kind, factory in (("bytesio", io.BytesIO), ("readonly", ReadOnly), ("seekfails", SeekFails)):
                record(
                    "skip %s first=%r align=%d %s" % (label, first_read, align, kind),
                    skip_story(factory, blob, first_read, align=align, bigendian=False),
                )
check(
    "skip on truncated read-only stream -> EOFError",
    skip_story(ReadOnly, b"BIG3" + u32(20001) + big[:9000], 1, align=False, bigendian=False)[1] == ("EXC", "EOFError"),
)
check(
    "skip lands on the next header",
    skip_story(io.BytesIO, b"BIG3" + u32(20001) + big[:20001] + b"\0NEXT", 10, align=True, bigendian=False)[3] == b"NEXT",
)
# a Chunk can itself be the file of an inner Chunk
outer = Chunk(io.BytesIO(b"OUTR" + u32(8 + 3 + 8 + 1) + encode([(b"IN_1", b"abc"), (b"IN_2", b"z")]) + b"rest"), bigendian=False, align=False)
record("nested chunks", drain(outer))
check("nested chunks", drain(Chunk(io.BytesIO(b"OUTR" + u32(20) + encode([(b"IN_1", b"abc"), (b"IN_2", b"z")]) + b"rest"), bigendian=False, align=False)) == [(b"IN_1", b"abc"), (b"IN_2", b"z")])

# ---- 3. write_chunk ----------------------------------------------------------------
class Sink:
    def __init__(self):
        self.writes = []

    def write(self, b):
        self.writes.append(bytes(b))


for name in (None, b"", b"A", b"AB", b"ABC", b"ABCD", b"ABCDE", b"ABCDEFGH", b"A B"):
    for data in (b"", b"x", bytes(300)):
        sink = Sink()
        result = write_chunk(sink, name, data)
        record("write_chunk %r %d" % (name, len(data)), (result, list(sink.writes)))
        if name is None:
            check("write_chunk None is a no-op", sink.writes == [])
        else:
            joined = b"".join(sink.writes)
            check("write_chunk framing %r" % name, joined == (name[:4] + b"    ")[:4] + u32(len(data)) + data)
            check("write_chunk round trip %r" % name, drain(io.BytesIO(joined)) == [((name[:4] + b"    ")[:4], data)])
for bad in ("ABCD", "AB", 5):
    sink = Sink()
    try:
        write_chunk(sink, bad, b"")
        got = "ok"
    except Exception as exc:  # noqa: BLE001
        got = type(exc).__name__
    record("write_chunk bad name %r" % (bad,), (got, list(sink.writes)))

# ---- 4. read_sunvox_file: input kinds, who closes what, error setting ---------------
opened = []
_real_open = pathlib.Path.open


def _tracking_open(self, *args, **kwargs):
    f = _real_open(self, *args, **kwargs)
    opened.append(f)
    return f


pathlib.Path.open = _tracking_open
try:
    for path in fixture_paths():
        rel = os.path.relpath(path, FILES).replace(os.sep, "/")
        blob = open(path, "rb").read()
        base = record("fixture " + rel, outcome(blob))
        check("fixture loads " + rel, base[0] == "O")
        del opened[:]
        check("str path " + rel, snap(read_sunvox_file(path)) == base)
        check("str path closed " + rel, len(opened) == 1 and opened[0].closed)
        del opened[:]
        check("Path " + rel, snap(read_sunvox_file(pathlib.Path(path))) == base)
        check("Path closed " + rel, len(opened) == 1 and opened[0].closed)
        del opened[:]
        with open(path, "rb") as f:
            check("file object " + rel, snap(read_sunvox_file(f)) == base)
            check("file object left open " + rel, not f.closed and opened == [])
            record("file object position " + rel, f.tell())
        stream = io.BytesIO(blob)
        read_sunvox_file(stream)
        check("BytesIO left open " + rel, not stream.closed)
        record("BytesIO position " + rel, stream.tell())
        check("error setting restored " + rel, rv.errors.RAISE_CONTROLLER_VALUE_ERRORS is True)
        # leading bytes before the stream start: reading begins at the current position
        stream = io.BytesIO(b"\0" * 13 + blob)
        stream.seek(13)
        check("reads from current position " + rel, snap(read_sunvox_file(stream)) == base)
        # unknown chunks around every nested section and at the end
        chunk_list = parse(blob)
        marks = [i for i, c in enumerate(chunk_list) if c[0] in (b"SFFF", b"PDTA", b"PPAR", b"SEND", b"PEND")]
        ok = True
        for pos in sorted(set([1, len(chunk_list)] + marks + [m + 1 for m in marks])):
            edited = chunk_list[:pos] + [(b"?unk", bytes(pos % 5))] + chunk_list[pos:]
            if outcome(edited) != base:
                ok = False
        check("unknown chunks around sections " + rel, ok)

    # failures: path-opened file is closed, setting restored, exception type kept
    import tempfile

    tmpdir = tempfile.mkdtemp()
    CASES = {
        "bad-styp.sunsynth": [(b"SSYN", b""), (b"VERS", b"\1\2\1\2"), (b"SFFF", u32(0)), (b"STYP", b"Nope\0"), (b"SEND", b"")],
        "short-vers.sunvox": [(b"SVOX", b""), (b"VERS", b"\1\2")],
        "not-sunvox.bin": [(b"RIFF", b"abcd")],
        "empty.bin": [],
        "range.sunsynth": [(b"SSYN", b""), (b"VERS", b"\1\2\1\2"), (b"SFFF", u32(0x49)), (b"STYP", b"Amplifier\0"), (b"CVAL", i32(999999)), (b"SEND", b"")],
    }
    for fname, chunk_list in sorted(CASES.items()):
        fpath = os.path.join(tmpdir, fname)
        with open(fpath, "wb") as f:
            f.write(encode(chunk_list))
        for arg in (fpath, pathlib.Path(fpath)):
            del opened[:]
            rv.errors.RAISE_CONTROLLER_VALUE_ERRORS = True
            try:
                result = snap(read_sunvox_file(arg))
            except Exception as exc:  # noqa: BLE001
                result = ("EXC", type(exc).__name__)
            record("failure case %s %s" % (fname, type(arg).__name__), result)
            check("closed after %s" % fname, len(opened) == 1 and opened[0].closed)
            check("setting restored after %s" % fname, rv.errors.RAISE_CONTROLLER_VALUE_ERRORS is True)
        check("same from bytes %s" % fname, outcome(chunk_list) == observed[-1][1])
        # the ambient setting is restored to whatever it was, not to a constant
        rv.errors.RAISE_CONTROLLER_VALUE_ERRORS = False
        try:
            read_sunvox_file(fpath)
        except Exception:  # noqa: BLE001
            pass
        check("ambient False restored after %s" % fname, rv.errors.RAISE_CONTROLLER_VALUE_ERRORS is False)
        rv.errors.RAISE_CONTROLLER_VALUE_ERRORS = True
    try:
        read_sunvox_file(os.path.join(tmpdir, "does-not-exist.sunvox"))
        got = "ok"
    except Exception as exc:  # noqa: BLE001
        got = type(exc).__name__
    check("missing file -> FileNotFoundError", got == "FileNotFoundError")
    check("setting restored after missing file", rv.errors.RAISE_CONTROLLER_VALUE_ERRORS is True)
    for fname in os.listdir(tmpdir):
        os.remove(os.path.join(tmpdir, fname))
    os.rmdir(tmpdir)
finally:
    pathlib.Path.open = _real_open

# ---- 5. SunSynthReader ----------------------------------------------------------------
for vers in [(1, 9, 4, 255), (2, 1, 2, 1), (0, 0, 0, 0), (255, 0, 128, 1), (1, 2, 3, 4)]:
    body = [(b"SSYN", b""), (b"VERS", bytes(reversed(vers))), (b"SFFF", u32(0x49)), (b"SNAM", cstr("amp", 32)), (b"STYP", cstr("Amplifier")), (b"SEND", b"")]
    synth = load(body)
    check("synth VERS %r" % (vers,), synth.loaded_sunsynth_version == vers and type(synth.loaded_sunsynth_version) is tuple)
    check("synth module %r" % (vers,), type(synth.module).__name__ == "Amplifier" and synth.module.name == "amp")
    record("synth %r" % (vers,), snap(synth))
for size in (0, 3, 5):
    record("synth VERS of %d bytes" % size, outcome([(b"SSYN", b""), (b"VERS", bytes(size))]))
record("synth without module", outcome([(b"SSYN", b""), (b"VERS", b"\1\2\1\2")]))
record("synth without VERS", outcome([(b"SSYN", b""), (b"SFFF", u32(0x49)), (b"STYP", cstr("Amplifier")), (b"SEND", b"")]))
record("synth two modules", outcome([(b"SSYN", b""), (b"VERS", b"\1\2\1\2"), (b"SFFF", u32(0x49)), (b"STYP", cstr("Amplifier")), (b"SEND", b""), (b"SFFF", u32(0x49)), (b"STYP", cstr("Echo")), (b"SEND", b"")]))
record("synth trailing partial header", outcome(encode([(b"SSYN", b""), (b"VERS", b"\1\2\1\2"), (b"SFFF", u32(0x49)), (b"STYP", cstr("Amplifier")), (b"SEND", b"")]) + b"JUNK\1"))
record("module section cut short", outcome([(b"SSYN", b""), (b"VERS", b"\1\2\1\2"), (b"SFFF", u32(0x49)), (b"STYP", cstr("Amplifier"))]))
record("magic only", outcome([(b"SVOX", b"")]))
record("magic with payload", outcome([(b"SVOX", b"abc"), (b"VERS", b"\1\2\1\2")]))

for _label, _res in observed:
    if isinstance(_res, tuple) and _res[:1] == ("EXC",):
        print("note: %-44s -> %s" % (_label, _res[1]))
finish("6fd191d024f492300f8611179948268c3859ddc5eed787529a517a4d407b355a", observed)
