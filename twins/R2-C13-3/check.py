"""C13-3 check: genrv PythonGenerator.run + base_module.py.jinja2 template.

Run from the repository root with PYTHONPATH=<root>/src/python.
"""
import contextlib
import hashlib
import io
import sys
import tempfile
from pathlib import Path

import yaml
from jinja2 import Environment, FileSystemLoader, PrefixLoader
from stringcase import camelcase, pascalcase

import genrv
from genrv.codegen.python.gen import PythonGenerator
from genrv.tools.generate import enumname

FAILURES = []


def check(cond, msg):
    if not cond:
        FAILURES.append(msg)


def make_env():
    root = Path(genrv.__file__).parent / "codegen"
    env = Environment(
        loader=PrefixLoader({g: FileSystemLoader(root / g) for g in ("python", "ts")})
    )
    env.filters.update(
        camelcase=camelcase, enumname=enumname, hex=hex, pascalcase=pascalcase, repr=repr
    )
    return env


def run_generator(spec_dir, dest):
    out = io.StringIO()
    gen = PythonGenerator(spec_base=str(spec_dir), dest_base=str(dest))
    with contextlib.redirect_stdout(out):
        result = gen.run(make_env())
    return result, out.getvalue()


SYNTHETIC_SPEC = """
module_types:
  Plain:
    group: Misc
  EmptyLists:
    group: Misc
    defaultFlags: 0
    controllers: []
    options: []
    enums: {}
    chunks: []
  KitchenSink:
    type: Kitchen sink
    group: Synth
    defaultFlags: 0x8049
    enums:
      Unit:
        Hz/64: 0
        ms: 1
        line/2: 2
        8bit: 3
        "-1": 4
        x^2*y.z+w: 5
        _under: 6
      Mode:
        "off": 0
        "on": 1
    controllers:
      - volume: {min: 0, max: 256, default: 128}
      - in: {bool: true, default: false}
      - pan: {min: -128, max: 128, default: 0}
      - transpose: {min: -128, max: 128, default: 0, compact: true}
      - finetune: {min: -256, max: 256, default: -3, no_offset: true}
      - unit: {enum: Unit, default: line/2}
      - mode: {enum: Mode, default: "on"}
      - freq:
          depends_on: unit
          default: 7
          ranges:
            ms: {min: 1, max: 4000}
            Hz/64: {min: 0, max: 2048}
            8bit: {min: -5, max: 5}
      - hidden: {min: 0, max: 1, default: 1, attached: false}
      - shown: {bool: true, default: true, attached: true}
      - zero_zero: {min: 0, max: 0, default: 0}
      - flagged_dep:
          depends_on: unit
          default: 0
          attached: false
          ranges:
            line/2: {min: 0, max: 0}
    options_chnm: 1
    options:
      - plain: {byte: 0, bit: 0, size: 1, default: false}
      - numbered: {byte: 1, bit: 0, size: 1, default: true, number: 124}
      - zero_number: {byte: 1, bit: 1, size: 1, default: true, number: 0}
      - bounded: {byte: 2, bit: 0, size: 8, default: 4, min: 0, max: 8, inverted: true}
      - upside_down: {byte: 3, bit: 7, size: 1, default: false, inverted: true}
      - not_inverted: {byte: 3, bit: 6, size: 1, default: false, inverted: false}
      - lonely: {byte: 4, bit: 0, size: 1, default: false, exclusive_of: [plain, numbered]}
      - enumerated: {byte: 5, bit: 0, size: 8, default: "on", enum: Mode}
    chunks:
      - name: curve
        parent_type: Array
        chnm: 0
        element_type: unsigned short
        length: 4
        min: 0
        max: 0x8000
        default: [0, 1, 2, 3]
      - name: bytes
        parent_type: Array
        chnm: 1
        element_type: unsigned byte
        max: 255
        default: [9, 8, 7]
      - name: odd
        parent_type: Array
        chnm: 2
        element_type: float
        length: 0
        min: 0
        default: []
      - name: untyped
        parent_type: Array
        chnm: 3
        default: [1]
      - name: modes
        parent_type: Array
        chnm: 4
        element_type: unsigned byte
        length: 2
        enum: Mode
        default: ["on", "off"]
      - name: blob
        parent_type: Raw
        chnm: 5
  EmptyRanges:
    group: Effect
    enums:
      E: {a: 0}
    controllers:
      - e: {enum: E, default: a}
      - d: {depends_on: e, default: 1, ranges: {}}
  OnlyOptions:
    group: Effect
    options:
      - o: {byte: 0, bit: 0, size: 1, default: false}
  OnlyDependent:
    group: Effect
    enums:
      E: {a: 0, b/2: 1}
    controllers:
      - d: {depends_on: e, default: 1, ranges: {b/2: {min: 0, max: 1}, a: {min: 2, max: 3}}}
      - e: {enum: E, default: b/2}
"""

# What the generator writes for SYNTHETIC_SPEC (sha256 of each output file;
# recorded from the unchanged tree, print with --print-expected).
EXPECTED_SHA256 = {
    "emptylists.py": "2a933a5900f0ab921972acbd468d47bd2c4bcf1cd3b3036043616cb9b8767aef",
    "emptyranges.py": "055c5db2cac517f1edb426cedf2fbca8a1888825be31c3b2fc31a4add78c5ecd",
    "kitchensink.py": "a504d7020678e3f2eceb730e5c09dc3300dcc37e63185afc61d1764a765b31c9",
    "onlydependent.py": "85bdfd055b6eecaff15550a4bd04b27dfc99c626c5dc4113c7afb99d30c75769",
    "onlyoptions.py": "ff2c660366654c75ef777d3b5ecb67cc8a8532322cd0f61467d9be3d042762f4",
    "plain.py": "b0373ba95f7c54048af4486b439df1e615932e142a74a3ddbefcdd60a7446a6c",
}

BROKEN_SPEC = """
module_types:
  Fine:
    group: Misc
  Broken:
    group: Misc
    controllers:
      - both: {min: 0, max: 1, default: 0, compact: true, no_offset: true}
  Never:
    group: Misc
"""


def check_real_spec():
    with tempfile.TemporaryDirectory() as tmp:
        dest = Path(tmp) / "rv"
        result, out = run_generator("specs/", dest)
        check(result is None, "run() returns None")
        checked_in = Path("src/python/rv/modules/base")
        produced = sorted(p.name for p in (dest / "modules" / "base").iterdir())
        expected = sorted(
            p.name for p in checked_in.glob("*.py") if p.name != "__init__.py"
        )
        check(produced == expected and len(produced) == 43, "43 base modules written")
        check(
            sorted(str(p.relative_to(dest)) for p in dest.rglob("*") if p.is_file())
            == [f"modules/base/{n}" for n in produced],
            "nothing else written",
        )
        for name in produced:
            got = (dest / "modules" / "base" / name).read_text()
            want = (checked_in / name).read_text()
            check(got == want, f"{name}: regenerated output == checked-in file")
        spec = yaml.safe_load(Path("specs/fileformat.yaml").read_text())
        check(
            produced == sorted(f"{n.lower()}.py" for n in spec["module_types"]),
            "file names derive from spec names",
        )


def check_synthetic_spec():
    with tempfile.TemporaryDirectory() as tmp:
        tmp = Path(tmp)
        (tmp / "specs").mkdir()
        (tmp / "specs" / "fileformat.yaml").write_text(SYNTHETIC_SPEC)
        dest = tmp / "rv"
        run_generator(tmp / "specs", dest)
        base = dest / "modules" / "base"
        got = {
            p.name: hashlib.sha256(p.read_bytes()).hexdigest()
            for p in sorted(base.iterdir())
        }
        if "--print-expected" in sys.argv:
            import pprint

            pprint.pprint(got)
            for p in sorted(base.iterdir()):
                print("#" * 20, p.name)
                print(p.read_text())
        check(sorted(got) == sorted(EXPECTED_SHA256), "synthetic: file set")
        for name, digest in EXPECTED_SHA256.items():
            check(got.get(name) == digest, f"synthetic: {name} text unchanged")

        # and independently of the recorded text: import the result and look at it
        from rv.chunks import ArrayChunk
        from rv.controller import (
            CompactRange,
            Controller,
            DependentRange,
            NoOffsetRange,
            Range,
            WarnOnlyRange,
        )
        from rv.option import Option

        def load(name):
            ns = {"__name__": "c13_" + name}
            exec(compile((base / name).read_text(), name, "exec"), ns)
            return ns

        ns = load("kitchensink.py")
        K = ns["BaseKitchenSink"]
        check(set(k for k in ns if not k.startswith("__")) == {
            "IntEnum", "ArrayChunk", "Controller", "CompactRange", "DependentRange",
            "NoOffsetRange", "WarnOnlyRange", "Option", "BaseKitchenSink"}, "imports")
        check((K.name, K.mtype, K.mgroup) == ("KitchenSink", "Kitchen sink", "Synth"), "K ids")
        check(K.flags == K.default_flags == 0x8049, "K flags")
        check(
            [(m.name, m.value) for m in K.Unit]
            == [("hz_div_64", 0), ("ms", 1), ("line_div_2", 2), ("_8bit", 3),
                ("neg_1", 4), ("x_pow_2_mul_y_z_plus_w", 5), ("under", 6)],
            "K.Unit members",
        )
        check([(m.name, m.value) for m in K.Mode] == [("off", 0), ("on", 1)], "K.Mode")
        ctls = [(k, v) for k, v in vars(K).items() if isinstance(v, Controller)]
        check(
            [k for k, _ in ctls]
            == ["volume", "in_", "pan", "transpose", "finetune", "unit", "mode", "freq",
                "hidden", "shown", "zero_zero", "flagged_dep"],
            "K controller definition order",
        )
        check(
            [v._order for _, v in ctls] == sorted(v._order for _, v in ctls),
            "K controller creation order",
        )
        c = dict(ctls)
        def rng(x):
            return (type(x.value_type), x.value_type.min, x.value_type.max, x.default)
        check(rng(c["volume"]) == (Range, 0, 256, 128), "volume")
        check(rng(c["pan"]) == (Range, -128, 128, 0), "pan")
        check(rng(c["transpose"]) == (CompactRange, -128, 128, 0), "transpose")
        check(rng(c["finetune"]) == (NoOffsetRange, -256, 256, -3), "finetune")
        check(rng(c["zero_zero"]) == (Range, 0, 0, 0), "zero_zero")
        check(rng(c["hidden"]) == (Range, 0, 1, 1) and c["hidden"]._attached is False, "hidden")
        check(c["in_"].value_type is bool and c["in_"].default is False, "in_")
        check(c["shown"].value_type is bool and c["shown"].default is True
              and c["shown"]._attached is True, "shown")
        check(c["unit"].value_type is K.Unit and c["unit"].default is K.Unit.line_div_2, "unit")
        check(c["mode"].value_type is K.Mode and c["mode"].default is K.Mode.on, "mode")
        f = c["freq"].value_type
        check(type(f) is DependentRange and f.ctl_name == "unit" and c["freq"].default == 7, "freq")
        check(
            [(k, type(v), v.min, v.max) for k, v in f.range_map.items()]
            == [(K.Unit.ms, WarnOnlyRange, 1, 4000), (K.Unit.hz_div_64, WarnOnlyRange, 0, 2048),
                (K.Unit._8bit, WarnOnlyRange, -5, 5)],
            "freq table",
        )
        check((type(f.default), f.default.min, f.default.max) == (WarnOnlyRange, 1, 4000),
              "freq fallback is first listed range")
        fd = c["flagged_dep"]
        check(fd._attached is False and fd.default == 0
              and list(fd.value_type.range_map) == [K.Unit.line_div_2]
              and (fd.value_type.default.min, fd.value_type.default.max) == (0, 0), "flagged_dep")
        opts = {k: v for k, v in vars(K).items() if isinstance(v, Option)}
        check(
            list(opts) == ["plain", "numbered", "zero_number", "bounded", "upside_down",
                           "not_inverted", "lonely", "enumerated"],
            "K option order",
        )
        check(opts["plain"] == Option(name="plain", byte=0, bit=0, size=1, default=False), "plain")
        check(opts["numbered"] == Option(name="numbered", byte=1, bit=0, size=1, default=True,
                                         number=124), "numbered")
        check(opts["zero_number"].number is None, "number 0 is dropped (falsy)")
        check(opts["bounded"] == Option(name="bounded", byte=2, bit=0, size=8, default=4,
                                        min=0, max=8), "bounded (inverted ignored w/ bounds)")
        check(opts["upside_down"].inverted is True and opts["not_inverted"].inverted is False,
              "inverted")
        check(opts["lonely"].exclusive_of == ["plain", "numbered"], "exclusive_of")
        check(opts["plain"].exclusive_of == [], "exclusive_of default")
        check(opts["enumerated"].default is K.Mode.on, "enum option default")
        check(not hasattr(K, "options_chnm"), "options_chnm is not generated")

        def chunk(n):
            ch = getattr(K, n + "_chunk")
            check(issubclass(ch, ArrayChunk), n + " is ArrayChunk")
            return ch
        ch = chunk("curve")
        check((ch.chnm, ch.length, ch.type, ch.element_size, ch.min_value, ch.max_value,
               ch.default) == (0, 4, "H", 2, 0, 0x8000, [0, 1, 2, 3]), "curve chunk")
        ch = chunk("bytes")
        check((ch.chnm, ch.length, ch.type, ch.element_size, ch.max_value, ch.default)
              == (1, 3, "B", 1, 255, [9, 8, 7]) and "min_value" not in vars(ch), "bytes chunk")
        ch = chunk("odd")
        check((ch.chnm, ch.length, vars(ch)["type"], vars(ch)["element_size"], ch.min_value,
               ch.default) == (2, 0, None, None, 0, []) and "max_value" not in vars(ch), "odd")
        ch = chunk("untyped")
        check((ch.chnm, ch.length, vars(ch)["type"], vars(ch)["element_size"], ch.default)
              == (3, 1, None, None, [1]), "untyped chunk")
        ch = chunk("modes")
        check((ch.chnm, ch.length, ch.type, ch.element_size) == (4, 2, "B", 1), "modes chunk")
        check(all(isinstance(vars(ch)[p], property)
                  for p in ("default", "encoded_values", "python_type")), "modes props")
        probe = object.__new__(ch)
        check(vars(ch)["default"].fget(probe) == [K.Mode.on, K.Mode.off], "modes default")
        check(vars(ch)["python_type"].fget(probe) is K.Mode, "modes python_type")
        check(not hasattr(K, "blob_chunk"), "non-array chunk skipped")

        P = load("plain.py")
        check(set(k for k in P if not k.startswith("__")) == {"BasePlain"}, "plain: no imports")
        P = P["BasePlain"]
        check((P.name, P.mtype, P.mgroup, P.flags, P.default_flags)
              == ("Plain", "Plain", "Misc", 0, 0), "plain attrs")
        check(set(k for k in vars(P) if not k.startswith("__"))
              == {"name", "mtype", "mgroup", "flags", "default_flags"}, "plain: nothing else")
        E = load("emptylists.py")
        check(set(k for k in E if not k.startswith("__")) == {"BaseEmptyLists"}, "emptylists")
        O = load("onlyoptions.py")
        check(set(k for k in O if not k.startswith("__")) == {"Option", "BaseOnlyOptions"},
              "onlyoptions imports")
        D = load("onlydependent.py")["BaseOnlyDependent"]
        dv = D.d.value_type
        check(list(dv.range_map) == [D.E.b_div_2, D.E.a] and (dv.default.min, dv.default.max)
              == (0, 1) and D.d._order < D.e._order and D.e.default is D.E.b_div_2,
              "dependent on a later controller")
        src = (base / "emptyranges.py").read_text()
        check('DependentRange(\n            "e",\n            {},\n        )' in src,
              "empty range table => no fallback argument emitted")
        for p in base.iterdir():
            text = p.read_text()
            check(text.startswith("# -- DO NOT EDIT THIS FILE DIRECTLY --\n"), p.name + " header")
            check("\n\n\n\n" not in text and text.endswith("\n") and not text.endswith("\n\n"),
                  p.name + " blank lines normalised")


def check_broken_spec():
    import black

    with tempfile.TemporaryDirectory() as tmp:
        tmp = Path(tmp)
        (tmp / "specs").mkdir()
        (tmp / "specs" / "fileformat.yaml").write_text(BROKEN_SPEC)
        dest = tmp / "rv"
        out = io.StringIO()
        gen = PythonGenerator(spec_base=tmp / "specs", dest_base=dest)
        try:
            with contextlib.redirect_stdout(out):
                gen.run(make_env())
        except black.InvalidInput:
            pass
        except Exception as e:  # noqa
            check(False, f"broken spec: wrong error {type(e).__name__}")
        else:
            check(False, "broken spec: no error")
        printed = out.getvalue()
        check("class BaseBroken:" in printed, "unparseable source is dumped to stdout")
        check("CompactRange" in printed and "NoOffsetRange" in printed, "dump shows both kinds")
        check("from rv.controller import CompactRange" in printed
              and "from rv.controller import NoOffsetRange" in printed, "dump shows imports")
        check(sorted(p.name for p in (dest / "modules" / "base").iterdir()) == ["fine.py"],
              "modules before the bad one written, bad one and later ones not")

    # a `controllers:` key with no value is rejected before anything is rendered
    with tempfile.TemporaryDirectory() as tmp:
        tmp = Path(tmp)
        (tmp / "specs").mkdir()
        (tmp / "specs" / "fileformat.yaml").write_text(
            "module_types:\n  Nully:\n    group: Misc\n    controllers:\n"
        )
        try:
            with contextlib.redirect_stdout(io.StringIO()):
                PythonGenerator(spec_base=tmp / "specs", dest_base=tmp / "rv").run(make_env())
        except TypeError:
            pass
        except Exception as e:  # noqa
            check(False, f"null controllers: wrong error {type(e).__name__}")
        else:
            check(False, "null controllers: no error")
        check(not (tmp / "rv").exists(), "null controllers: nothing written")

    # no module types at all: nothing to do, nothing touched
    with tempfile.TemporaryDirectory() as tmp:
        tmp = Path(tmp)
        (tmp / "specs").mkdir()
        (tmp / "specs" / "fileformat.yaml").write_text("module_types: {}\n")
        res, out = run_generator(tmp / "specs", tmp / "rv")
        check(res is None and out == "" and not (tmp / "rv").exists(), "empty spec is a no-op")


check_real_spec()
check_synthetic_spec()
check_broken_spec()

if FAILURES:
    print("FAIL")
    for f in FAILURES[:40]:
        print("  -", f)
    print(len(FAILURES), "failure(s)")
    sys.exit(1)
print("PASS")
