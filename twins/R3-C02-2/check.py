"""Behaviour check for rv.readers.module.ModuleReader (chunk handlers + CVAL application)."""
import io
import logging
import struct
import sys

from rv.api import Project, m
from rv.lib.iff import write_chunk
from rv.modules import MODULE_CLASSES, Module
from rv.readers.reader import read_sunvox_file
from rv.synth import Synth

failures = []


def check(cond, msg):
    if not cond:
        failures.append(msg)


class Capture(logging.Handler):
    def __init__(self):
        super().__init__(level=logging.DEBUG)
        self.records = []

    def emit(self, record):
        self.records.append((record.levelname, str(record.msg)))


cap = Capture()
rlog = logging.getLogger("rv.readers.module")
rlog.addHandler(cap)
rlog.setLevel(logging.DEBUG)
rlog.propagate = False


def build(chunks):
    f = io.BytesIO()
    for name, data in chunks:
        write_chunk(f, name, data)
    f.seek(0)
    return f


def load(chunks):
    cap.records.clear()
    return read_sunvox_file(build(chunks)).module


def synth_chunks(mod):
    return [c for c in Synth(mod).chunks() if c[0] is not None]


def replace(chunks, name, data, nth=0):
    out, seen = [], 0
    for n, d in chunks:
        if n == name:
            if seen == nth:
                d = data
            seen += 1
        out.append((n, d))
    return out


def insert_before(chunks, before, new):
    out, done = [], False
    for c in chunks:
        if c[0] == before and not done:
            out.extend(new)
            done = True
        out.append(c)
    return out


set_order = []
orig_set_raw = Module.set_raw


def spy_set_raw(self, name, raw_value):
    set_order.append((name, raw_value))
    return orig_set_raw(self, name, raw_value)


Module.set_raw = spy_set_raw

# --- 1. scalar / string / colour / midi handlers ----------------------------
amp = m.Amplifier(
    name="Amp é",
    finetune=-77,
    relative_note=12,
    color=(1, 128, 255),
    midi_in_always=True,
    midi_in_channel=9,
    midi_out_name="Some Port",
    midi_out_channel=5,
    midi_out_bank=-1,
    midi_out_program=127,
    mod_scale=300,
)
base = synth_chunks(amp)
extra = [
    (b"SXXX", struct.pack("<i", -5)),
    (b"SYYY", struct.pack("<i", 2_000_000_000)),
    (b"SZZZ", struct.pack("<I", 7)),
    (b"SVPR", struct.pack("<I", 0x0A0B0C0D)),
    (b"SLNK", struct.pack("<5i", 3, -1, 0, -1, -1)),
    (b"SLnK", struct.pack("<4i", 2, 0, -1, -1)),
]
mod = load(insert_before(base, b"SSCL", extra))
check(type(mod) is m.Amplifier, "type")
check(mod.name == "Amp é", "name")
check(mod.mod_finetune == -77 and mod.mod_relative_note == 12, "finetune/relnote")
check(mod.x == -5 and mod.y == 2_000_000_000 and mod.layer == 7, "xyz")
check(mod.mod_scale == 300, "scale")
check(int(mod.visualization) == 0x0A0B0C0D, "visualization")
check(mod.color == (1, 128, 255) and type(mod.color) is tuple, "color")
check(mod.midi_in_always is True and mod.midi_in_channel == 9, "SMII")
check(mod.midi_out_name == "Some Port", "SMIN")
check(mod.midi_out_channel == 5 and mod.midi_out_bank == -1 and mod.midi_out_program == 127, "midi out")
check(mod.in_links == [3, -1, 0], "in_links trailing -1 stripped: %r" % mod.in_links)
check(mod.in_link_slots == [2, 0], "in_link_slots: %r" % mod.in_link_slots)
check(mod.flags == amp.flags | m.Amplifier.default_flags, "flags")

# SMII variants
for packed, (always, chan) in {0: (False, 0), 1: (True, 0), 2: (False, 1), 33: (True, 16), 0xFFFFFFFF: (True, 0x7FFFFFFF)}.items():
    mod = load(replace(base, b"SMII", struct.pack("<I", packed)))
    check(mod.midi_in_always is always and mod.midi_in_channel == chan, "SMII %r" % packed)

# names: NUL handling
for raw, want in [
    (b"abc\0def\0", "abc"),
    (b"\0hidden", ""),
    (b"no terminator", "no terminator"),
    (b"", ""),
    ("über".encode("utf-8") + b"\0" * 10, "über"),
]:
    mod = load(replace(base, b"SNAM", raw))
    check(mod.name == want, "SNAM %r -> %r" % (raw, mod.name))
    mod = load(replace(base, b"SMIN", raw))
    check(mod.midi_out_name == want, "SMIN %r -> %r" % (raw, mod.midi_out_name))
mod = load(replace(base, b"STYP", b"Amplifier"))  # no terminator
check(type(mod) is m.Amplifier, "STYP without NUL")
mod = load(replace(base, b"STYP", b"Amplifier\0junk"))
check(type(mod) is m.Amplifier and mod.mtype == "Amplifier", "STYP with junk after NUL")
try:
    load(replace(base, b"STYP", b"NoSuchModule\0"))
    check(False, "unknown type must raise KeyError")
except KeyError:
    pass

# links: empty, all -1, bad length
mod = load(insert_before(base, b"SSCL", [(b"SLNK", b""), (b"SLnK", b"")]))
check(mod.in_links == [] and mod.in_link_slots == [], "empty link chunks")
mod = load(insert_before(base, b"SSCL", [(b"SLNK", struct.pack("<3i", -1, -1, -1))]))
check(mod.in_links == [], "all -1 links")
mod = load(insert_before(base, b"SSCL", [(b"SLNK", struct.pack("<2i", 4, -1)), (b"SLNK", struct.pack("<2i", -1, 6))]))
check(mod.in_links == [4, -1, 6], "two SLNK chunks accumulate after stripping: %r" % mod.in_links)
for bad in (b"\x01\x02\x03", b"\x01\x02\x03\x04\x05"):
    try:
        load(insert_before(base, b"SSCL", [(b"SLNK", bad)]))
        check(False, "bad SLNK length must raise")
    except struct.error:
        pass
for nm in (b"SFIN", b"SSCL", b"SMIC", b"SFFF"):
    try:
        load(replace(base, nm, b"\x01\x02"))
        check(False, "short %r must raise" % nm)
    except struct.error:
        pass

# --- 2. CVAL ordering, surplus CVALs ----------------------------------------
set_order.clear()
mod = load(base)
names = [n for n, c in m.Amplifier.controllers.items()]
check([n for n, _ in set_order] == list(reversed(names)), "CVALs applied last to first: %r" % set_order)
check(mod.controllers_loaded >= set(names), "controllers_loaded")
check([r for r in cap.records if r[0] == "WARNING"] == [], "no warnings on plain file")
debug = [r[1] for r in cap.records if r[1].startswith("Setting ")]
check(debug == ["Setting %s from raw %s" % (n, v) for n, v in set_order], "debug log per CVAL")

surplus = insert_before(base, b"CMID", [(b"CVAL", struct.pack("<i", 111)), (b"CVAL", struct.pack("<i", -222))])
set_order.clear()
mod = load(surplus)
n = len(names)
msgs = [r for r in cap.records if r[0] == "WARNING" or r[1].startswith("Setting ")]
want = [
    ("WARNING", "Unsupported controller at index %d with raw value -222" % (n + 1)),
    ("WARNING", "Unsupported controller at index %d with raw value 111" % n),
] + [("DEBUG", "Setting %s from raw %s" % (nm, v)) for nm, v in set_order]
check(msgs == want, "surplus CVALs: %r" % msgs[:4])
check(len(set_order) == n, "known CVALs still applied")

# fewer CVALs than controllers
fewer, dropped = [], 0
for c in reversed(base):
    if c[0] == b"CVAL" and dropped < 2:
        dropped += 1
        continue
    fewer.append(c)
fewer.reverse()
set_order.clear()
mod = load(fewer)
check([nm for nm, _ in set_order] == list(reversed(names[:-2])), "fewer CVALs than controllers")
check(not (set(names[-2:]) & {nm for nm, _ in set_order}), "missing ones untouched")

# no CVAL at all
none = [c for c in base if c[0] not in (b"CVAL", b"CMID")]
set_order.clear()
mod = load(none)
check(set_order == [] and type(mod) is m.Amplifier, "no CVALs")

# unit-dependent controllers: unit CVAL comes later, must be set first
lfo = m.Lfo(frequency_unit=m.Lfo.FrequencyUnit.hz, freq=1000)
set_order.clear()
lfo2 = load(synth_chunks(lfo))
order = [nm for nm, _ in set_order]
check(order.index("frequency_unit") < order.index("freq"), "unit before dependant")
check(lfo2.freq == 1000 and lfo2.frequency_unit == m.Lfo.FrequencyUnit.hz, "lfo values")

# --- 3. every module type, stand-alone and in project ------------------------
Module.set_raw = orig_set_raw
for mtype, cls in sorted(MODULE_CLASSES.items()):
    if mtype == "Output":
        continue
    src = cls()
    got = load(synth_chunks(src))
    check(type(got) is cls, mtype + " type")
    for cname, ctl in cls.controllers.items():
        if ctl.attached(src):
            check(got.get_raw(cname) == src.get_raw(cname), "%s.%s raw" % (mtype, cname))
    check(got.option_values == src.option_values, mtype + " options")
    check(src.clone().option_values == src.option_values, mtype + " clone options")

p = Project()
a = p.new_module(m.Generator, x=10, y=-20, layer=3, name="gen")
b = p.new_module(m.Amplifier, volume=1024, balance=-128)
c = p.new_module(m.Lfo)
a >> b >> p.output
c >> b
f = io.BytesIO()
p.write_to(f)
f.seek(0)
p2 = read_sunvox_file(f)
check([type(x) for x in p2.modules] == [type(x) for x in p.modules], "project module types")
for m1, m2 in zip(p.modules, p2.modules):
    check(m1.in_links == m2.in_links, "in_links %r" % m1)
    check(m1.in_link_slots == m2.in_link_slots, "in_link_slots %r" % m1)
    check((m1.x, m1.y, m1.layer, m1.name) == (m2.x, m2.y, m2.layer, m2.name), "position %r" % m1)
    check(int(m1.visualization) == int(m2.visualization), "vis %r" % m1)
check(p2.modules[2].volume == 1024 and p2.modules[2].balance == -128, "amp values in project")

if failures:
    print("FAIL")
    for f_ in failures:
        print(" -", f_)
    sys.exit(1)
print("PASS")
