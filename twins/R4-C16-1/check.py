"""Behaviour check for the Sampler instrument record codec.

Exercises Sampler.global_config_chunks / Sampler.load_instrument and the
_StructWriter / _StructReader helpers they are built on:

* programmatically built samplers are written, digested and decoded again,
* the instrument record is inspected at fixed offsets,
* truncated, oversized and wrongly signed records are loaded directly,
* out-of-range field values must keep raising the same error types.

Run as:  cd <root> && PYTHONPATH=<root>/src/python python check.py
"""

import hashlib
import logging
import os
import random
import struct
import sys
from io import BytesIO

from rv.api import NOTE, Synth, m, read_sunvox_file
from rv.chunks.chunk import Chunk
from rv.modules import sampler as sampler_mod

logging.disable(logging.CRITICAL)

Sampler = m.Sampler
FAILURES = []


def expect(cond, label):
    if not cond:
        FAILURES.append(label)
        print("FAIL:", label)


def outcome(fn, *args, **kw):
    try:
        return ("ok", fn(*args, **kw))
    except Exception as e:  # noqa
        return ("err", type(e).__name__, str(e))


# --------------------------------------------------------------------------
# building / dumping samplers
# --------------------------------------------------------------------------

FORMATS = [Sampler.Format.int8, Sampler.Format.int16, Sampler.Format.float32]
CHANNELS = [Sampler.Channels.mono, Sampler.Channels.stereo]


def random_points(rnd, env, max_points):
    lo = env.range[0]
    n = rnd.choice([0, 1, 2, 4, 11, 12, 13, max_points])
    xs = sorted(rnd.randrange(0, 0x10000) for _ in range(n))
    return [(x, lo + rnd.randrange(0, 0x8001)) for x in xs]


def fill_envelope(rnd, env, small):
    env.points = random_points(rnd, env, 40)
    top = 255 if small else 0xFFFF
    env.sustain_point = rnd.randrange(0, top + 1)
    env.loop_start_point = rnd.randrange(0, top + 1)
    env.loop_end_point = rnd.randrange(0, top + 1)
    env.enable = rnd.random() < 0.5
    env.sustain = rnd.random() < 0.5
    env.loop = rnd.random() < 0.5
    env.ctl_index = rnd.randrange(256)
    env.gain_pct = rnd.randrange(256)
    env.velocity = rnd.randrange(256)


def build_sampler(seed):
    rnd = random.Random(seed)
    s = Sampler()
    slots = {
        0: [],
        1: [0],
        2: [127],
        3: [0, 127],
        4: [5, 6, 90],
        5: list(range(128)),
    }.get(seed % 8)
    if slots is None:
        slots = sorted(rnd.sample(range(128), rnd.randrange(1, 9)))
    for i in slots:
        smp = s.Sample()
        smp.format = rnd.choice(FORMATS)
        smp.channels = rnd.choice(CHANNELS)
        frames = rnd.choice([0, 1, 3, 17])
        smp.data = bytes(rnd.randrange(256) for _ in range(frames * smp.frame_size))
        smp.rate = rnd.choice([8000, 44100, 48000, 0xFFFFFFFF, 0])
        smp.loop_start = rnd.randrange(0, 2**32)
        smp.loop_len = rnd.randrange(0, 2**32)
        smp.loop_type = rnd.choice(list(Sampler.LoopType))
        smp.loop_sustain = rnd.random() < 0.5
        smp.volume = rnd.randrange(256)
        smp.finetune = rnd.randrange(-128, 128)
        smp.panning = rnd.randrange(-128, 128)
        smp.relative_note = rnd.randrange(-128, 128)
        smp.reserved2 = rnd.randrange(256)
        smp.name = bytes(rnd.randrange(1, 256) for _ in range(rnd.choice([0, 5, 22])))
        smp.start_pos = rnd.randrange(0, 2**32)
        s.samples[i] = smp
    fill_envelope(rnd, s.volume_envelope, True)
    fill_envelope(rnd, s.panning_envelope, True)
    fill_envelope(rnd, s.pitch_envelope, False)
    for env in s.effect_control_envelopes:
        fill_envelope(rnd, env, False)
    s.note_samples.bytes = bytes(rnd.randrange(256) for _ in range(119))
    s.vibrato_type = rnd.choice(list(Sampler.VibratoType))
    s.vibrato_attack = rnd.randrange(256)
    s.vibrato_depth = rnd.randrange(256)
    s.vibrato_rate = rnd.randrange(64)
    s.volume_fadeout = rnd.randrange(8193)
    s.instrument_name = bytes(
        rnd.randrange(1, 256) for _ in range(rnd.choice([0, 3, 22]))
    )
    s.unused1 = rnd.randrange(2**32)
    s.unused2 = rnd.randrange(2**16)
    s.unused3 = rnd.randrange(2**16)
    s.unused4 = rnd.randrange(2**32)
    s.unused5 = rnd.randrange(256)
    s.unused6 = rnd.randrange(2**32)
    s.volume_old = rnd.randrange(256)
    s.ins_finetune = rnd.randrange(-128, 128)
    s.ins_relative_note = rnd.randrange(-128, 128)
    s.editor_cursor = rnd.randrange(-(2**31), 2**31)
    s.editor_selected_size = rnd.randrange(-(2**31), 2**31)
    if seed % 3 == 0:
        s.effect = Synth(m.Reverb())
    return s


def dump_env(env):
    return dict(
        points=list(env.points),
        sustain_point=env.sustain_point,
        loop_start_point=env.loop_start_point,
        loop_end_point=env.loop_end_point,
        enable=env.enable,
        sustain=env.sustain,
        loop=env.loop,
        ctl_index=env.ctl_index,
        gain_pct=env.gain_pct,
        velocity=env.velocity,
        legacy=(
            env._legacy_point_bytes,
            env._legacy_active_points,
            env._legacy_sustain_point,
            env._legacy_loop_start_point,
            env._legacy_loop_end_point,
            env._legacy_bitmask,
        ),
    )


def dump_sample(smp):
    if smp is None:
        return None
    return dict(
        data=smp.data,
        format=smp.format,
        channels=smp.channels,
        rate=smp.rate,
        loop_start=smp.loop_start,
        loop_len=smp.loop_len,
        loop_type=smp.loop_type,
        loop_sustain=smp.loop_sustain,
        volume=smp.volume,
        finetune=smp.finetune,
        panning=smp.panning,
        relative_note=smp.relative_note,
        reserved2=smp.reserved2,
        name=smp.name,
        start_pos=smp.start_pos,
    )


def dump(s, with_legacy_fields=False):
    envs = [s.volume_envelope, s.panning_envelope, s.pitch_envelope]
    envs += s.effect_control_envelopes
    d = dict(
        samples=[dump_sample(x) for x in s.samples],
        envelopes=[dump_env(e) for e in envs],
        note_samples=dict(s.note_samples),
        vibrato=(
            s.vibrato_type,
            s.vibrato_attack,
            s.vibrato_depth,
            s.vibrato_rate,
            s.volume_fadeout,
        ),
        instrument_name=s.instrument_name,
        unused=(s.unused1, s.unused2, s.unused3, s.unused4, s.unused5, s.unused6),
        volume_old=s.volume_old,
        ins_finetune=s.ins_finetune,
        ins_relative_note=s.ins_relative_note,
        editor=(s.editor_cursor, s.editor_selected_size),
        version=(s.version, s.max_version),
        effect=None if s.effect is None else type(s.effect.module).__name__,
    )
    if not with_legacy_fields:
        for e in d["envelopes"]:
            del e["legacy"]
    return d


def write(s):
    f = BytesIO()
    Synth(s).write_to(f)
    return f.getvalue()


def read(data):
    return read_sunvox_file(BytesIO(data)).module


def make_chunk(chnm, chdt):
    c = Chunk()
    c.chnm = chnm
    c.chdt = chdt
    return c


def instrument_record(s):
    chunks = list(s.global_config_chunks())
    expect([k for k, _ in chunks] == [b"CHNM", b"CHDT"], "record chunk types")
    expect(chunks[0][1] == b"\0\0\0\0", "record chnm is 0")
    return chunks[1][1]


# --------------------------------------------------------------------------
# 1. round trips + digests of the bytes written
# --------------------------------------------------------------------------

EXPECTED_DIGEST = "853021ba84da3a41c1a84559e5002155c3218589de3066131569df2cc11498c8"


def check_round_trips():
    h = hashlib.sha256()
    for seed in range(40):
        s = build_sampler(seed)
        before = dump(s)
        data = write(s)
        h.update(data)
        expect(dump(s) == before, f"seed {seed}: writing does not mutate")
        t = read(data)
        expect(dump(t) == before, f"seed {seed}: round trip exact")
        expect(t.is_legacy is False, f"seed {seed}: not legacy")
        expect(t.legacy_chunks is None, f"seed {seed}: raw chunks dropped")
        again = write(t)
        expect(again == data, f"seed {seed}: second write identical")
        # the record on its own
        rec = instrument_record(s)
        h.update(rec)
        expect(len(rec) == 0x190, f"seed {seed}: record length")
        occupied = [i for i, x in enumerate(s.samples) if x is not None]
        count = occupied[-1] + 1 if occupied else 0
        expect(
            struct.unpack_from("<H", rec, 0x1C)[0] == count,
            f"seed {seed}: samples_num",
        )
        expect(rec[0xFC:0x100] == b"PMAS", f"seed {seed}: signature offset")
        expect(rec[0x24:0x84] == s.note_samples.bytes[:96], f"seed {seed}: old map")
        expect(
            rec[0x104:0x184] == s.note_samples.bytes + b"\0" * 9,
            f"seed {seed}: map padded to 128",
        )
        expect(
            struct.unpack_from("<Iii", rec, 0x184)
            == (6, s.editor_cursor, s.editor_selected_size),
            f"seed {seed}: trailing editor fields",
        )
        expect(
            rec[0x84:0xB4] == s.volume_envelope.point_bytes
            and rec[0xB4:0xE4] == s.panning_envelope.point_bytes,
            f"seed {seed}: old point tables",
        )
        vol, pan = s.volume_envelope, s.panning_envelope
        expect(
            tuple(rec[0xE4:0xEE])
            == (
                len(vol.points),
                len(pan.points),
                vol.sustain_point,
                vol.loop_start_point,
                vol.loop_end_point,
                pan.sustain_point,
                pan.loop_start_point,
                pan.loop_end_point,
                vol.bitmask,
                pan.bitmask,
            ),
            f"seed {seed}: old envelope bytes",
        )
        # the loader keeps the old envelope fields around
        tvol, tpan = t.volume_envelope, t.panning_envelope
        expect(
            dump_env(tvol)["legacy"]
            == (
                vol.point_bytes,
                len(vol.points),
                vol.sustain_point,
                vol.loop_start_point,
                vol.loop_end_point,
                vol.bitmask,
            ),
            f"seed {seed}: vol legacy fields",
        )
        expect(
            dump_env(tpan)["legacy"]
            == (
                pan.point_bytes,
                len(pan.points),
                pan.sustain_point,
                pan.loop_start_point,
                pan.loop_end_point,
                pan.bitmask,
            ),
            f"seed {seed}: pan legacy fields",
        )
    digest = h.hexdigest()
    if EXPECTED_DIGEST.startswith("@@"):
        print("digest:", digest)
    else:
        expect(digest == EXPECTED_DIGEST, "digest of written bytes: " + digest)


# --------------------------------------------------------------------------
# 2. samples_num for various occupancy patterns (also non-128 lists)
# --------------------------------------------------------------------------


def check_samples_num():
    for pattern in (
        [],
        [None],
        [None] * 128,
        [1],
        [1, None],
        [None, 1],
        [None, 1, None, None],
        [1] * 128,
        [None] * 127 + [1],
        [1] + [None] * 127,
        [None] * 200 + [1] + [None] * 3,
    ):
        s = Sampler()
        s.samples = [None if x is None else s.Sample() for x in pattern]
        rec = instrument_record(s)
        want = max((i + 1 for i, x in enumerate(pattern) if x is not None), default=0)
        got = struct.unpack_from("<H", rec, 0x1C)[0]
        expect(got == want, f"samples_num for {len(pattern)} slots: {got} != {want}")
        expect(len(s.samples) == len(pattern), "samples list untouched")
    s = Sampler()
    s.samples = [None] * 70000 + [s.Sample()]
    r = outcome(instrument_record, s)
    expect(r[:2] == ("err", "error"), f"samples_num overflow: {r[:2]}")


# --------------------------------------------------------------------------
# 3. loading truncated / oversized / wrongly signed records directly
# --------------------------------------------------------------------------


def load_record(rec, then_finalize=False):
    s = Sampler()
    c = make_chunk(0, rec)
    r = outcome(s.load_chunk, c)
    if then_finalize and r[0] == "ok":
        r = outcome(s.finalize_load)
    state = dump(s, with_legacy_fields=True)
    state["is_legacy"] = s.is_legacy
    state["legacy_chunks"] = (
        None if s.legacy_chunks is None else [x is c for x in s.legacy_chunks]
    )
    return r[:2], state, s


def check_direct_loads():
    h = hashlib.sha256()
    src = build_sampler(11)
    rec = instrument_record(src)
    # every possible truncation
    for n in range(len(rec) + 1):
        r, state, s = load_record(rec[:n])
        h.update(repr((n, r, sorted(state.items(), key=lambda kv: kv[0]))).encode())
        if n < 0x104:
            expect(r == ("err", "RuntimeError"), f"truncated to {n}: {r}")
            expect(s.is_legacy in (None, True), f"truncated to {n}: flag")
            expect(len(s.legacy_chunks) == 1, f"truncated to {n}: raw chunk kept")
        else:
            expect(r == ("ok", None), f"truncated to {n}: loads")
            expect(s.is_legacy is False and s.legacy_chunks is None, f"cut {n} flag")
            expect(s.version == 6, f"cut {n} version")
            want_max = src.max_version if n >= 0x188 else 6
            expect(s.max_version == want_max, f"cut {n} max_version")
            expect(
                s.editor_cursor == (src.editor_cursor if n >= 0x18C else 0),
                f"cut {n} editor_cursor",
            )
            expect(
                s.editor_selected_size
                == (src.editor_selected_size if n >= 0x190 else 0),
                f"cut {n} editor_selected_size",
            )
    # defaults are used when a trailing field is only partly there
    r, state, s = load_record(rec[:0x18A])
    expect(s.max_version == 6 and s.editor_cursor == 0, "partial editor_cursor")

    # oversized records
    for extra in (0, 0x190 - len(rec), 0x190 - len(rec) + 1, 500):
        big = rec + b"\x07" * extra
        r, state, s = load_record(big)
        h.update(repr((extra, r, s.is_legacy)).encode())
        expect(r == ("ok", None), f"oversized +{extra} loads")
        if len(big) > 0x190:
            expect(s.is_legacy is True, f"oversized +{extra} is legacy")
            expect(len(s.legacy_chunks) == 1, f"oversized +{extra} keeps chunk")
        else:
            expect(s.is_legacy is False, f"+{extra} is current")
            expect(s.legacy_chunks is None, f"+{extra} drops chunks")
        expect(dump(s)["editor"] == dump(src)["editor"], f"+{extra} editor fields")

    # wrong signature (with and without oversize)
    for sign in (b"\0\0\0\0", b"SAMP", b"PMA\0", b"PMAT"):
        for extra in (0, 400):
            bad = rec[:0xFC] + sign + rec[0x100:] + b"\0" * extra
            r, state, s = load_record(bad)
            h.update(repr((sign, extra, r, s.is_legacy)).encode())
            expect(r == ("ok", None), f"sign {sign}: loads")
            expect(s.is_legacy is True, f"sign {sign}: legacy")
            expect(len(s.legacy_chunks) == 1, f"sign {sign}: keeps chunk")
            expect(s.version == src.version, f"sign {sign}: rest still parsed")
            expect(
                dump(s)["note_samples"] == dump(src)["note_samples"],
                f"sign {sign}: note map parsed",
            )

    # a legacy record followed by a good one stays legacy; a good one followed
    # by a bad one flips to legacy but the raw chunks are gone already.
    s = Sampler()
    bad = rec[:0xFC] + b"XXXX" + rec[0x100:]
    s.load_chunk(make_chunk(0, bad))
    s.load_chunk(make_chunk(0, rec))
    expect(s.is_legacy is True and len(s.legacy_chunks) == 2, "bad then good")
    s = Sampler()
    s.load_chunk(make_chunk(0, rec))
    r = outcome(s.load_chunk, make_chunk(0, bad))
    h.update(repr((r[:2], s.is_legacy, s.legacy_chunks)).encode())
    expect(r[:2] == ("ok", None), f"good then bad: {r[:2]}")
    expect(s.is_legacy is True and s.legacy_chunks is None, "good then bad: state")

    # invalid vibrato type
    bad = bytearray(rec)
    bad[0xEE] = 3
    r, state, s = load_record(bytes(bad))
    expect(r == ("err", "ValueError"), f"vibrato type 3: {r}")
    expect(s.volume_envelope._legacy_bitmask == rec[0xEC], "fields before error set")
    expect(s.vibrato_attack == 0, "fields after error unset")

    # pre-envelope layout: no envelope chunks, envelopes rebuilt from the record
    for seed in (2, 4, 7, 12, 13):
        src = build_sampler(seed)
        for env in (src.volume_envelope, src.panning_envelope):
            env.points = env.points[:12]
            env.points = [(x, y // 0x200 * 0x200) for x, y in env.points]
        r, state, s = load_record(instrument_record(src), then_finalize=True)
        h.update(repr((seed, r, state["envelopes"][:2])).encode())
        expect(r == ("ok", None), f"upgrade seed {seed}: {r}")
        for a, b in (
            (s.volume_envelope, src.volume_envelope),
            (s.panning_envelope, src.panning_envelope),
        ):
            expect(a.points == b.points, f"upgrade seed {seed}: points")
            expect(
                (a.enable, a.sustain, a.loop, a.sustain_point)
                == (b.enable, b.sustain, b.loop, b.sustain_point),
                f"upgrade seed {seed}: flags",
            )
    return h.hexdigest()


EXPECTED_LOAD_DIGEST = "d959d0391011e86ead09be591357e4a9e16c6e96078901005b78957f5d0d827f"


# --------------------------------------------------------------------------
# 4. out-of-range values keep their error types; nothing is half-yielded
# --------------------------------------------------------------------------


def check_errors():
    cases = [
        ("unused1", 2**32),
        ("unused1", -1),
        ("unused2", 2**16),
        ("unused3", -1),
        ("unused4", 2**32),
        ("unused5", 256),
        ("unused6", -1),
        ("volume_old", 256),
        ("ins_finetune", 128),
        ("ins_finetune", -129),
        ("ins_relative_note", 128),
        ("version", -1),
        ("max_version", 2**32),
        ("editor_cursor", 2**31),
        ("editor_cursor", -(2**31) - 1),
        ("editor_selected_size", 2**31),
        ("unused1", "x"),
        ("instrument_name", "text"),
        ("instrument_name", None),
    ]
    for attr, value in cases:
        s = Sampler()
        setattr(s, attr, value)
        g = s.global_config_chunks()
        r = outcome(next, g)
        kind = {"x": "error", "text": "TypeError", None: "AttributeError"}.get(
            value if not isinstance(value, int) else 0, "error"
        )
        expect(r[:2] == ("err", kind), f"{attr}={value!r}: {r[:2]}")
    # values that are fine at the limits
    s = Sampler()
    s.unused1 = s.unused4 = s.unused6 = 2**32 - 1
    s.unused2 = s.unused3 = 2**16 - 1
    s.unused5 = s.volume_old = 255
    s.ins_finetune = s.ins_relative_note = -128
    s.editor_cursor = -(2**31)
    s.editor_selected_size = 2**31 - 1
    s.instrument_name = b"x" * 30  # cut to 22
    rec = instrument_record(s)
    expect(rec[4:26] == b"x" * 22, "name truncated to 22")
    t = Sampler()
    t.load_chunk(make_chunk(0, rec))
    expect(t.instrument_name == b"x" * 22, "name read back")
    expect(
        (t.unused1, t.unused2, t.unused3, t.unused4, t.unused5, t.unused6)
        == (2**32 - 1, 2**16 - 1, 2**16 - 1, 2**32 - 1, 255, 2**32 - 1),
        "unused limits",
    )
    expect(
        (t.ins_finetune, t.ins_relative_note, t.editor_cursor, t.editor_selected_size)
        == (-128, -128, -(2**31), 2**31 - 1),
        "signed limits",
    )
    # envelope values that do not fit the old one-byte fields
    for attr in ("sustain_point", "loop_start_point", "loop_end_point"):
        for envname in ("volume_envelope", "panning_envelope"):
            s = Sampler()
            setattr(getattr(s, envname), attr, 256)
            r = outcome(lambda: list(s.global_config_chunks()))
            expect(r[:2] == ("err", "error"), f"{envname}.{attr}=256: {r[:2]}")
    s = Sampler()
    s.volume_envelope.points = [(i, 0) for i in range(256)]
    r = outcome(lambda: list(s.global_config_chunks()))
    expect(r[:2] == ("err", "error"), f"256 points: {r[:2]}")
    s.volume_envelope.points = [(i, 0) for i in range(255)]
    r = outcome(lambda: list(s.global_config_chunks()))
    expect(r[0] == "ok", "255 points fit")
    # note map longer than 128 entries is written as is
    s = Sampler()
    for i in range(200, 230):
        s.note_samples[i] = 9
    rec = instrument_record(s)
    expect(len(rec) == 0x190 + (119 + 30 - 128), "over-long map grows the record")


# --------------------------------------------------------------------------
# 5. the struct helpers themselves
# --------------------------------------------------------------------------


def check_struct_helpers():
    f = BytesIO()
    w = sampler_mod._StructWriter(f)
    w.char(b"ab", 4)
    w.char(b"abcdef", 4)
    w.char(b"", 0)
    w.int8(-1)
    w.uint8(255)
    w.int16(-2)
    w.uint16(65535)
    w.int32(-3)
    w.uint32(2**32 - 1)
    expect(
        f.getvalue()
        == b"ab\0\0abcd\xff\xff\xfe\xff\xff\xff\xfd\xff\xff\xff\xff\xff\xff\xff",
        "writer output",
    )
    for name, bad in (
        ("int8", 128),
        ("uint8", -1),
        ("int16", 2**15),
        ("uint16", -1),
        ("int32", 2**31),
        ("uint32", -1),
        ("uint8", 1.5),
    ):
        r = outcome(getattr(w, name), bad)
        expect(r[:2] == ("err", "error"), f"writer {name}({bad}): {r[:2]}")
    expect(len(f.getvalue()) == 22, "failed writes add nothing")

    data = bytes(range(1, 30))
    r = sampler_mod._StructReader(data)
    expect(r.uint8() == 1, "uint8")
    expect(r.int8() == 2, "int8")
    expect(r.uint16() == 0x0403, "uint16")
    expect(r.int16() == 0x0605, "int16")
    expect(r.uint32() == 0x0A090807, "uint32")
    expect(r.int32() == 0x0E0D0C0B, "int32")
    expect(r.bytes(3) == bytes([15, 16, 17]), "bytes")
    r.skip(2)
    expect(r.char(2) == bytes([20, 21]), "char")
    expect(r.bytes(0) == b"", "empty bytes")
    expect(r.uint32() == 0x19181716, "uint32 again")
    # 4 bytes left: 26..29
    expect(r.uint16(default=7) == 0x1B1A, "keyword default unused")
    expect(r.uint32(5) == 5, "short read gives default")
    expect(r.int32(default=-5) == -5, "short read gives keyword default")
    expect(r.uint16() == 0x1D1C, "short read did not consume")
    expect(outcome(r.uint8)[:2] == ("err", "RuntimeError"), "no default -> error")
    expect(outcome(r.uint8, None)[:2] == ("err", "RuntimeError"), "None default")
    expect(r.uint8(0) == 0, "zero default accepted")
    expect(r.int8(0) == 0 and r.int16(0) == 0 and r.uint16(9) == 9, "more defaults")
    expect(r.bytes(5) == b"" and r.char(5) == b"", "reading past the end")
    expect(r.uint8(3) == 3, "still exhausted")
    r = sampler_mod._StructReader(b"a\0b\0\0\xff\xff")
    expect(r.char(5) == b"a\0b", "char strips trailing NULs only")
    expect(r.int16() == -1, "signed")
    r = sampler_mod._StructReader(b"\x80\xff\xfe\xff\xff\xff\xff\x7f")
    expect((r.int8(), r.uint8()) == (-128, 255), "int8 signs")
    expect((r.int16(), r.int32()) == (-2, 0x7FFFFFFF), "int16/int32 signs")
    # bytes() moves past the end, later reads see nothing
    r = sampler_mod._StructReader(b"abc")
    expect(r.bytes(10) == b"abc", "over-long bytes")
    expect(r.uint8(1) == 1, "after over-long bytes")


# --------------------------------------------------------------------------
# 6. the shipped fixture
# --------------------------------------------------------------------------


def check_fixture():
    path = os.path.join("tests", "files", "sampler.sunsynth")
    with open(path, "rb") as f:
        original = f.read()
    mod = read(original)
    expect(mod.is_legacy is False, "fixture is current format")
    rec = instrument_record(mod)
    expect(
        hashlib.sha256(rec).hexdigest() == EXPECTED_FIXTURE_RECORD,
        "fixture record digest " + hashlib.sha256(rec).hexdigest(),
    )
    data = write(mod)
    expect(
        hashlib.sha256(data).hexdigest() == EXPECTED_FIXTURE_FILE,
        "fixture rewritten digest " + hashlib.sha256(data).hexdigest(),
    )
    back = read(data)
    expect(dump(back) == dump(mod), "fixture round trip")
    expect(mod.note_samples[NOTE.G4 - 1] == 1, "fixture note map")
    clone = mod.clone()
    expect(dump(clone) == dump(mod), "fixture clone")


EXPECTED_FIXTURE_RECORD = "1f741ccb6ffd86cf9fe32e2cf096c0fc1ca1b22835bbb355db62266deaaf7d59"
EXPECTED_FIXTURE_FILE = "3b0f2915c2ec0456c0932e701153dc1fe981399cffe9631e080af6bc8b9736a0"


def main():
    check_round_trips()
    check_samples_num()
    d = check_direct_loads()
    if EXPECTED_LOAD_DIGEST.startswith("@@"):
        print("load digest:", d)
    else:
        expect(d == EXPECTED_LOAD_DIGEST, "direct load digest " + d)
    check_errors()
    check_struct_helpers()
    check_fixture()
    if FAILURES:
        print(f"{len(FAILURES)} check(s) failed")
        sys.exit(1)
    print("PASS")


if __name__ == "__main__":
    main()
