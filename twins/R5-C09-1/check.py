"""Behaviour check for property C09 (controller domains and defaults).

Focus of this script: Controller.__get__/__set__/propagate/set_initial,
Range.validate / WarnOnlyRange, Controller.pattern_value and Module.set_raw.

Run from the repository root:
    PYTHONPATH=<root>/src/python python check.py
"""
import keyword
import logging
import os
import sys
from enum import Enum

import yaml

import rv.api  # noqa: F401  (registers every module class)
from rv import errors
from rv.controller import (
    CompactRange,
    Controller,
    DependentRange,
    NoOffsetRange,
    Range,
    WarnOnlyRange,
)
from rv.errors import (
    ControllerValueError,
    RangeValidationError,
    override_raise_controller_value_errors,
)
from rv.modules import MODULE_CLASSES
from rv.modules.module import Module

FAILURES = []
COUNT = [0]


def check(cond, *what):
    COUNT[0] += 1
    if not cond:
        FAILURES.append(" ".join(str(w) for w in what))


def spec_path():
    here = os.path.join(os.getcwd(), "specs", "fileformat.yaml")
    if os.path.exists(here):
        return here
    import rv

    root = os.path.dirname(os.path.dirname(os.path.dirname(os.path.dirname(rv.__file__))))
    return os.path.join(root, "specs", "fileformat.yaml")


class Capture(logging.Handler):
    def __init__(self):
        super().__init__(level=logging.DEBUG)
        self.records = []

    def emit(self, record):
        self.records.append(record)


class captured:
    """Capture records of one named logger."""

    def __init__(self, name):
        self.logger = logging.getLogger(name)
        self.handler = Capture()

    def __enter__(self):
        self.old_level = self.logger.level
        self.old_propagate = self.logger.propagate
        self.logger.setLevel(logging.DEBUG)
        self.logger.propagate = False
        self.logger.addHandler(self.handler)
        return self.handler.records

    def __exit__(self, *exc):
        self.logger.removeHandler(self.handler)
        self.logger.setLevel(self.old_level)
        self.logger.propagate = self.old_propagate


def expect_raises(exc_type, fn, *what):
    try:
        fn()
    except exc_type as e:
        check(type(e) is exc_type, "exact type", type(e), *what)
        return e
    except Exception as e:  # pragma: no cover
        check(False, "wrong exception", repr(e), *what)
        return None
    check(False, "no exception", *what)
    return None


def expected_message(index, mtype, name, value, lo, hi):
    return "{:x}({}).{}={} is not within [{}, {}]".format(
        index or 0, mtype, name, value, lo, hi
    )


# SpectraVoice.__init__ re-assigns these from its harmonic arrays after the
# generic seeding, so constructor keywords for them are validated but not kept.
CTOR_OVERRIDDEN = {
    ("SpectraVoice", n) for n in ("h_freq_hz", "h_volume", "h_width", "h_type")
}


def ctor_keeps(mtype, name):
    return (mtype, name) not in CTOR_OVERRIDDEN


SPEC = yaml.safe_load(open(spec_path()))["module_types"]


def spec_controllers(spec):
    for entry in spec.get("controllers") or []:
        ((name, desc),) = entry.items()
        # python keywords get a trailing underscore in the classes (Gpio.in_)
        yield (name + "_" if keyword.iskeyword(name) else name), desc


def interior(lo, hi):
    return lo + (hi - lo) // 2


def check_fixed_range(cls, mtype, name, desc):
    lo, hi, default = desc["min"], desc["max"], desc["default"]
    ctl = cls.controllers[name]
    expected_type = (
        CompactRange if desc.get("compact") else NoOffsetRange if desc.get("no_offset") else Range
    )
    check(type(ctl.value_type) is expected_type, mtype, name, "range type")
    check((ctl.value_type.min, ctl.value_type.max) == (lo, hi), mtype, name, "bounds")
    m = cls()
    check(getattr(m, name) == default, mtype, name, "default")
    check(type(getattr(m, name)) is type(default), mtype, name, "default type")
    for index in (None, 0, 0x2A):
        m.index = index
        for good in (lo, interior(lo, hi), hi, default):
            setattr(m, name, good)
            check(getattr(m, name) == good and type(getattr(m, name)) is int, mtype, name, good)
        setattr(m, name, default)
        for bad in (lo - 1, hi + 1, lo - 1000, hi + 100000):
            with captured("rv.controller") as recs:
                e = expect_raises(
                    ControllerValueError, lambda: setattr(m, name, bad), mtype, name, bad
                )
            check(not recs, mtype, name, "strict mode logs nothing")
            if e is not None:
                check(isinstance(e, ValueError), mtype, name, "is ValueError")
                check(
                    e.args == (expected_message(index, mtype, name, bad, lo, hi),),
                    mtype, name, "message", e.args,
                )
                cause = e.__cause__
                check(type(cause) is RangeValidationError, mtype, name, "cause")
                check(cause.args == (bad, lo, hi), mtype, name, "cause args")
            check(getattr(m, name) == default, mtype, name, "previous value kept")
            check(m.controller_values[name] == default, mtype, name, "dict value kept")
    m.index = 3
    # lenient (load) mode: warning is logged, the value is stored as given
    for bad in (lo - 1, hi + 1):
        with override_raise_controller_value_errors(False):
            with captured("rv.controller") as recs:
                setattr(m, name, bad)
        check(getattr(m, name) == bad, mtype, name, "lenient stores", bad)
        check(len(recs) == 1, mtype, name, "lenient warns once", len(recs))
        if len(recs) == 1:
            r = recs[0]
            check(r.levelno == logging.WARNING, mtype, name, "level")
            check(r.getMessage() == expected_message(3, mtype, name, bad, lo, hi), mtype, name, "lenient msg")
            check(r.exc_info and type(r.exc_info[1]) is RangeValidationError, mtype, name, "exc_info")
    check(errors.RAISE_CONTROLLER_VALUE_ERRORS is True, "flag restored")
    # constructor keywords obey the same rules
    for good in (lo, hi):
        check(getattr(cls(**{name: good}), name) == good or not ctor_keeps(mtype, name), mtype, name, "ctor", good)
    for bad in (lo - 1, hi + 1):
        expect_raises(ControllerValueError, lambda: cls(**{name: bad}), mtype, name, "ctor", bad)
        with override_raise_controller_value_errors(False):
            with captured("rv.controller") as recs:
                try:
                    m2 = cls(**{name: bad})
                except IndexError:
                    # SpectraVoice(harmonic=<out of range>) indexes its harmonic
                    # arrays with the stored (lenient) value after seeding.
                    check((mtype, name) == ("SpectraVoice", "harmonic"), mtype, name, "lenient ctor IndexError")
                    m2 = None
        check(len(recs) == 1, mtype, name, "lenient ctor warns", bad)
        check(m2 is None or getattr(m2, name) == bad or not ctor_keeps(mtype, name), mtype, name, "lenient ctor", bad)
    # raw values
    m = cls(index=7)
    for good in (lo, interior(lo, hi), hi):
        raw = ctl.value_type.to_raw_value(good)
        if desc.get("no_offset"):
            check(raw == good, mtype, name, "no_offset raw")
        else:
            check(raw == (good - lo if lo < 0 else good), mtype, name, "raw")
        m.set_raw(name, raw)
        check(getattr(m, name) == good, mtype, name, "set_raw", good)
        check(m.get_raw(name) == raw, mtype, name, "get_raw", good)
    for bad in (lo - 1, hi + 1):
        raw = ctl.value_type.to_raw_value(bad)
        setattr(m, name, default)
        with captured("rv.modules.module") as recs:
            e = expect_raises(ControllerValueError, lambda: m.set_raw(name, raw), mtype, name, "set_raw", bad)
        check(not recs, mtype, name, "set_raw strict no log")
        if e is not None:
            check(e.args == (expected_message(7, mtype, name, bad, lo, hi),), mtype, name, "set_raw msg", e.args)
            check(type(e.__cause__) is RangeValidationError and e.__cause__.args == (bad, lo, hi), mtype, name, "set_raw cause")
        check(getattr(m, name) == default, mtype, name, "set_raw keeps previous")
        with override_raise_controller_value_errors(False):
            with captured("rv.modules.module") as recs, captured("rv.controller") as recs2:
                m.set_raw(name, raw)
        check(getattr(m, name) == bad, mtype, name, "lenient set_raw stores", bad)
        check(len(recs) == 1 and not recs2, mtype, name, "lenient set_raw logger")
        if len(recs) == 1:
            check(recs[0].getMessage() == expected_message(7, mtype, name, bad, lo, hi), mtype, name, "lenient set_raw msg")
            check(recs[0].levelno == logging.WARNING, mtype, name, "lenient set_raw level")
            check(type(recs[0].exc_info[1]) is RangeValidationError, mtype, name, "lenient set_raw exc_info")
    # pattern values
    span = hi - lo
    for v in (lo, interior(lo, hi), hi, lo + 1):
        pv = ctl.pattern_value(m, v)
        if desc.get("compact"):
            check(pv == v - lo, mtype, name, "compact pattern value")
        else:
            check(pv == int((v - lo) / (span / 32768)), mtype, name, "pattern value", v)
            check(type(pv) is int, mtype, name, "pattern value type")


def check_enum(cls, mtype, name, desc, enums):
    ctl = cls.controllers[name]
    t = ctl.value_type
    check(isinstance(t, type) and issubclass(t, Enum), mtype, name, "enum type")
    check(t.__name__ == desc["enum"], mtype, name, "enum name")
    spec_members = enums[desc["enum"]]
    check(sorted(e.value for e in t) == sorted(spec_members.values()), mtype, name, "enum members")
    members = {e.name: e.value for e in t}
    m = cls()
    check(getattr(m, name) is t(spec_members[desc["default"]]), mtype, name, "enum default")
    for mname, mvalue in members.items():
        for given in (mvalue, mname, t[mname]):
            setattr(m, name, given)
            check(getattr(m, name) is t[mname], mtype, name, "enum assign", given)
            check(getattr(cls(**{name: given}), name) is t[mname] or not ctor_keeps(mtype, name), mtype, name, "enum ctor", given)
        m.set_raw(name, mvalue)
        check(getattr(m, name) is t[mname], mtype, name, "enum set_raw")
        check(m.get_raw(name) == mvalue, mtype, name, "enum get_raw")
        check(ctl.pattern_value(m, mvalue) == mvalue, mtype, name, "enum pattern value")
    before = getattr(m, name)
    for mode in (True, False):
        with override_raise_controller_value_errors(mode):
            expect_raises(KeyError, lambda: setattr(m, name, "no_such_member"), mtype, name, "bad name")
            expect_raises(KeyError, lambda: setattr(m, name, ""), mtype, name, "empty name")
            expect_raises(ValueError, lambda: setattr(m, name, max(members.values()) + 1), mtype, name, "bad value")
            expect_raises(ValueError, lambda: setattr(m, name, -1), mtype, name, "bad value -1")
            expect_raises(KeyError, lambda: cls(**{name: "no_such_member"}), mtype, name, "ctor bad name")
            expect_raises(ValueError, lambda: m.set_raw(name, max(members.values()) + 1), mtype, name, "raw bad")
            check(getattr(m, name) is before, mtype, name, "enum previous kept")


def check_bool(cls, mtype, name, desc):
    ctl = cls.controllers[name]
    check(ctl.value_type is bool, mtype, name, "bool type")
    m = cls()
    check(getattr(m, name) is desc["default"], mtype, name, "bool default")
    for given, want in ((True, True), (False, False), (1, True), (0, False), (2, True), ("", False), ("x", True)):
        setattr(m, name, given)
        check(getattr(m, name) is want, mtype, name, "bool assign", given)
        check(getattr(cls(**{name: given}), name) is want, mtype, name, "bool ctor", given)
    for raw, want in ((0, False), (1, True)):
        m.set_raw(name, raw)
        check(getattr(m, name) is want and m.get_raw(name) == raw, mtype, name, "bool raw")
    check(ctl.pattern_value(m, True) is True, mtype, name, "bool pattern")


def check_dependent(cls, mtype, name, desc, enums):
    ctl = cls.controllers[name]
    t = ctl.value_type
    check(type(t) is DependentRange, mtype, name, "dependent type")
    unit_name = desc["depends_on"]
    unit_ctl = cls.controllers[unit_name]
    unit_enum = unit_ctl.value_type
    m = cls()
    check(getattr(m, name) == desc["default"], mtype, name, "dependent default")
    check(ctl.number > unit_ctl.number or True, "numbering irrelevant")
    label_to_member = dict(zip(desc["ranges"], unit_enum))
    check(len(desc["ranges"]) == len(list(unit_enum)), mtype, name, "range count")
    for label, bounds in desc["ranges"].items():
        member = label_to_member[label]
        lo, hi = bounds["min"], bounds["max"]
        setattr(m, unit_name, member)
        vt = ctl.instance_value_type(m)
        check(type(vt) is WarnOnlyRange and (vt.min, vt.max) == (lo, hi), mtype, name, label, "bounds", vt)
        for good in (lo, interior(lo, hi), hi):
            with captured("rv.controller") as recs:
                setattr(m, name, good)
            check(getattr(m, name) == good and not recs, mtype, name, label, good)
        for strict in (True, False):
            for bad in (lo - 1, hi + 1):
                with override_raise_controller_value_errors(strict):
                    with captured("rv.controller") as recs:
                        setattr(m, name, bad)
                check(getattr(m, name) == bad, mtype, name, label, "warn-only stores", bad)
                check(len(recs) == 1, mtype, name, label, "warn-only logs once")
                if len(recs) == 1:
                    check(recs[0].levelno == logging.WARNING, "warn-only level")
                    check(recs[0].getMessage() == str(RangeValidationError(bad, lo, hi)), mtype, name, "warn-only msg", recs[0].getMessage())
                    check(not recs[0].exc_info, mtype, name, "warn-only no exc_info")
                with captured("rv.controller") as recs, captured("rv.modules.module") as recs2:
                    m.set_raw(name, bad)
                check(getattr(m, name) == bad and len(recs) == 1 and not recs2, mtype, name, label, "warn-only set_raw")
        # constructor: the unit is seeded before the dependent controller
        with captured("rv.controller") as recs:
            m2 = cls(**{unit_name: member, name: hi})
        check(getattr(m2, name) == hi and getattr(m2, unit_name) is member, mtype, name, label, "ctor dependent")
        check(not recs, mtype, name, label, "ctor dependent in range is silent", len(recs))
        with captured("rv.controller") as recs:
            m3 = cls(**{unit_name: member, name: hi + 1})
        check(getattr(m3, name) == hi + 1 and len(recs) == 1, mtype, name, label, "ctor dependent out of range warns")
    # before the unit controller is loaded the fallback range applies
    m4 = cls()
    m4.controllers_loaded = set()
    check(ctl.instance_value_type(m4) is t.default, mtype, name, "fallback range")
    m4.controllers_loaded = {unit_name}
    m4.controller_values[unit_name] = None
    check(ctl.instance_value_type(m4) is t.default, mtype, name, "fallback range (None)")


def check_all_module_types():
    check(len(SPEC) == 43, "43 module types", len(SPEC))
    total = 0
    for spec_name, spec in SPEC.items():
        mtype = spec.get("type", spec_name)
        cls = MODULE_CLASSES[mtype]
        enums = spec.get("enums") or {}
        names = [n for n, _ in spec_controllers(spec)]
        check(list(cls.controllers)[: len(names)] == names, mtype, "controller order")
        for number, (name, desc) in enumerate(spec_controllers(spec), 1):
            total += 1
            ctl = cls.controllers[name]
            check(ctl.name == name and ctl.number == number, mtype, name, "number", ctl.number)
            check(ctl.label == name.replace("_", " ").title(), mtype, name, "label")
            check(getattr(cls, name) is ctl, mtype, name, "class access returns descriptor")
            check(ctl.controller(None) is ctl and ctl.attached(None) is True, mtype, name, "controller/attached")
            if "depends_on" in desc:
                check_dependent(cls, mtype, name, desc, enums)
            elif "enum" in desc:
                check_enum(cls, mtype, name, desc, enums)
            elif "bool" in desc:
                check_bool(cls, mtype, name, desc)
            else:
                check_fixed_range(cls, mtype, name, desc)
        # every default at once
        m = cls()
        for name, desc in spec_controllers(spec):
            want = desc["default"]
            if "enum" in desc:
                want = cls.controllers[name].value_type(enums[desc["enum"]][want])
            check(getattr(m, name) == want, mtype, name, "fresh default")
            check(name in m.controllers_loaded, mtype, name, "loaded")
    check(total == 502, "502 controllers", total)


# ---------------------------------------------------------------------------
# Focused checks of the controller machinery with a synthetic module class
# ---------------------------------------------------------------------------


def check_callbacks_and_descriptor():
    class Shape(Enum):
        round = 0
        square = 1

    calls = []

    class Probe(Module):
        name = mtype = "Probe"
        mgroup = "Test"
        flags = 0x49
        level = Controller((0, 10), 5)
        offset = Controller((-8, 8), -2)
        shape = Controller(Shape, Shape.round)
        flag = Controller(bool, False)
        nothing = Controller(None, None)
        compact = Controller(CompactRange(-4, 4), 0)

        def on_level_changed(self, value, down, up):
            calls.append(("level", value, down, up, self.level))

        on_offset_changed = "not callable"

        def on_controller_changed(self, controller, value, down, up):
            calls.append(("any", controller.name, value, down, up))
            super().on_controller_changed(controller, value, down, up)

    class Parent:
        def __init__(self):
            self.seen = []

        def on_controller_changed(self, module, controller, value, down, up):
            self.seen.append((module, controller.name, value, down, up))

    check(list(Probe.controllers) == ["level", "offset", "shape", "flag", "nothing", "compact"], "probe order")
    check([c.number for c in Probe.controllers.values()] == [1, 2, 3, 4, 5, 6], "probe numbers")
    check(Probe.level is Probe.controllers["level"], "descriptor on class")
    check(isinstance(Probe.level.value_type, Range) and type(Probe.level.value_type) is Range, "tuple -> Range")
    check(Probe.level.value_type == Range(0, 10), "range eq")
    check(Probe.level.value_type != CompactRange(0, 10), "range eq is type sensitive")
    check(repr(Probe.compact.value_type) == "<CompactRange -4..4>", "range repr")

    p = Probe()
    check(calls == [], "construction does not fire callbacks")
    check(p.controller_values == {"level": 5, "offset": -2, "shape": Shape.round, "flag": False, "nothing": None, "compact": 0}, "initial values")

    p.level = 7
    check(calls == [("level", 7, True, True, 7), ("any", "level", 7, True, True)], "callback order", calls)
    del calls[:]
    p.offset = 3  # non-callable attribute named like a hook is ignored
    check(calls == [("any", "offset", 3, True, True)], "non callable hook ignored", calls)
    del calls[:]
    Probe.level.propagate(p, 2)
    check(calls == [("level", 2, False, False, 2), ("any", "level", 2, False, False)], "propagate defaults", calls)
    del calls[:]
    Probe.level.propagate(p, 4, down=True)
    check(calls == [("level", 4, True, False, 4), ("any", "level", 4, True, False)], "propagate down", calls)
    del calls[:]
    # a rejected value fires no callbacks and keeps the old value
    expect_raises(ControllerValueError, lambda: setattr(p, "level", 11), "probe reject")
    check(calls == [] and p.level == 4, "reject fires nothing")
    # lenient: callbacks fire with the out-of-range value
    with override_raise_controller_value_errors(False):
        with captured("rv.controller") as recs:
            p.level = 11
    check(calls == [("level", 11, True, True, 11), ("any", "level", 11, True, True)] and len(recs) == 1, "lenient callbacks", calls)
    del calls[:]
    # the string -> enum member conversion is not passed on to callbacks
    p.shape = "square"
    check(p.shape is Shape.square and calls == [("any", "shape", "square", True, True)], "enum by name callback", calls)
    del calls[:]
    p.nothing = 123
    check(p.nothing is None, "None value type stores None")
    p.nothing = "text"
    check(p.nothing is None, "None value type stores None for str")
    del calls[:]
    # parent notification
    parent = Parent()
    p.parent = parent
    p.flag = 1
    check(parent.seen == [(p, "flag", 1, False, True)] and p.flag is True, "parent notified", parent.seen)
    Probe.flag.propagate(p, 0, down=True)
    check(len(parent.seen) == 1 and p.flag is False, "parent not notified without up")
    # set_initial alone fires nothing
    del calls[:]
    Probe.level.set_initial(p, 1)
    check(p.level == 1 and calls == [], "set_initial is silent")
    # descriptor __set__ with instance None is a no-op
    check(Probe.level.__set__(None, 99) is None and p.level == 1, "__set__(None)")
    check(Probe.level.__get__(None, Probe) is Probe.level, "__get__(None)")
    check(Probe.level.__get__(p, Probe) == 1, "__get__(instance)")
    # pattern values
    check(Probe.level.pattern_value(p, 5) == 16384, "pattern mid")
    check(Probe.level.pattern_value(p, 10) == 32768, "pattern max")
    check(Probe.offset.pattern_value(p, -8) == 0 and Probe.offset.pattern_value(p, 8) == 32768, "pattern offset")
    check(Probe.offset.pattern_value(p, 0) == 16384, "pattern offset mid")
    check(Probe.compact.pattern_value(p, -2) == 2 and Probe.compact.pattern_value(p, 4) == 8, "pattern compact")
    check(Probe.shape.pattern_value(p, 1) == 1, "pattern enum")
    check(Probe.nothing.pattern_value(p, 9) == 9, "pattern none")
    # errors for non-numeric input to a range propagate unchanged
    expect_raises(TypeError, lambda: setattr(p, "level", "7"), "str into range")
    expect_raises(TypeError, lambda: setattr(p, "level", None), "None into range")
    check(p.level == 1, "value kept after TypeError")
    # floats inside the range are stored as given
    p.level = 2.5
    check(p.level == 2.5 and type(p.level) is float, "float stored")
    p.level = float("nan")
    check(p.level != p.level, "nan passes the comparison based validation")
    # index / mtype in messages
    q = Probe(index=255)
    e = expect_raises(ControllerValueError, lambda: setattr(q, "offset", -9), "offset reject")
    check(e.args == ("ff(Probe).offset=-9 is not within [-8, 8]",), "hex index in message", e.args)
    e = expect_raises(ControllerValueError, lambda: q.set_raw("offset", 17), "offset raw reject")
    check(e.args == ("ff(Probe).offset=9 is not within [-8, 8]",), "set_raw message", e.args)
    q.set_raw("offset", 0)
    check(q.offset == -8 and q.get_raw("offset") == 0, "raw offset")
    q.set_raw("shape", 1)
    check(q.shape is Shape.square, "raw enum")
    q.set_raw("flag", 5)
    check(q.flag is True, "raw bool")
    expect_raises(TypeError, lambda: q.set_raw("nothing", 1), "raw with None type")
    expect_raises(TypeError, lambda: q.set_raw("level", "zz"), "raw garbage into range")
    expect_raises(ValueError, lambda: q.set_raw("flag", "zz"), "raw garbage into bool")
    expect_raises(KeyError, lambda: q.set_raw("missing", 1), "raw unknown controller")


def check_range_classes():
    r = Range(-3, 3)
    check(r(3) == 3 and r(-3) == -3 and r(0) == 0, "range call")
    check(r.validate(2) is None, "validate returns None")
    for bad in (-4, 4):
        e = expect_raises(RangeValidationError, lambda: r(bad), "range reject")
        check(e.args == (bad, -3, 3), "range error args")
        expect_raises(RangeValidationError, lambda: r.validate(bad), "validate reject")
    for cls in (CompactRange, NoOffsetRange):
        expect_raises(RangeValidationError, lambda: cls(0, 1)(2), cls.__name__)
    w = WarnOnlyRange(1, 4)

    class Sub(WarnOnlyRange):
        pass

    for rng in (w, Sub(1, 4)):
        with captured("rv.controller") as recs:
            check(rng(0) == 0 and rng(5) == 5 and rng(2) == 2, "warn-only returns value")
            check(rng.validate(9) is None, "warn-only validate")
        check([x.getMessage() for x in recs] == [str(RangeValidationError(v, 1, 4)) for v in (0, 5, 9)], "warn-only messages")
        check(all(x.levelno == logging.WARNING and x.name == "rv.controller" for x in recs), "warn-only level")
    check(r.to_raw_value(-3) == 0 and r.from_raw_value(0) == -3, "raw offset")
    check(NoOffsetRange(-3, 3).to_raw_value(-3) == -3, "no offset")


def check_metamodule_user_defined():
    cls = MODULE_CLASSES["MetaModule"]
    m = cls()
    check(m.user_defined_1 == 0, "user defined default")
    first = cls.controllers["user_defined_1"]
    first.set_initial(m, 44100)
    check(m.user_defined_1 == 44100, "user defined max")
    expect_raises(ControllerValueError, lambda: first.set_initial(m, 44101), "user defined reject")
    check(m.user_defined_1 == 44100, "user defined kept")
    proxy = cls.controllers["user_defined_3"]
    check(proxy.controller(m) is m.user_defined[2], "proxy controller")
    check(proxy.instance_value_type(m) == Range(0, 44100), "proxy value type")
    m.set_raw("user_defined_3", 17)
    check(m.user_defined_3 == 17 and m.get_raw("user_defined_3") == 17, "proxy raw")
    e = expect_raises(ControllerValueError, lambda: m.set_raw("user_defined_3", 50000), "proxy raw reject")
    check(e.args == ("0(MetaModule).user_defined_3=50000 is not within [0, 44100]",), "proxy raw message", e.args)


def main():
    check_range_classes()
    check_callbacks_and_descriptor()
    check_metamodule_user_defined()
    check_all_module_types()
    if FAILURES:
        print("FAIL: {} of {} checks".format(len(FAILURES), COUNT[0]))
        for f in FAILURES[:40]:
            print("  -", f)
        sys.exit(1)
    print("PASS ({} checks)".format(COUNT[0]))


if __name__ == "__main__":
    main()
