"""Behaviour check for Sampler envelope (de)serialization and the sample type byte.

Run from the repository root:
    PYTHONPATH=<root>/src/python python check.py

Exercises Sampler.Envelope.bitmask / point_bytes / chunks / load_chdt,
Sampler._upgrade_envelopes (old fixed-size envelope tables), and the "type"
byte of sample headers in Sampler.sample_chunks / load_sample_meta.
"""
import hashlib
import itertools
import logging
import struct
import sys
from io import BytesIO
from pathlib import Path

from rv.api import Synth, read_sunvox_file
from rv.lib.iff import chunks as iff_chunks
from rv.modules.sampler import Sampler

logging.disable(logging.CRITICAL)

ROOT = Path.cwd()
FIXTURE = ROOT / "tests" / "files" / "sampler.sunsynth"
FAILURES = []
RESULTS = {}


def check(cond, label):
    if not cond:
        FAILURES.append(label)


def sha(data: bytes) -> str:
    return hashlib.sha256(data).hexdigest()[:16]


def raises(exc_type, fn, label):
    try:
        fn()
    except exc_type as e:
        if type(e) is not exc_type:
            FAILURES.append(f"{label}: raised {type(e).__name__}, wanted exactly {exc_type.__name__}")
        return
    except Exception as e:  # noqa
        FAILURES.append(f"{label}: raised {type(e).__name__} instead of {exc_type.__name__}")
        return
    FAILURES.append(f"{label}: did not raise")


def file_chunks(data: bytes):
    return list(iff_chunks(BytesIO(data)))


def build(chunk_list) -> bytes:
    return b"".join(n + struct.pack("<I", len(d)) + d for n, d in chunk_list)


def edit_chdt(chunk_list, chnm, fn):
    out, current = [], None
    for name, data in chunk_list:
        if name == b"CHNM":
            (current,) = struct.unpack("<I", data)
        if name == b"CHDT" and current == chnm:
            data = fn(data)
        out.append((name, data))
    return out


def drop_chnm(chunk_list, chnms):
    out, current, in_chnk = [], None, False
    for name, data in chunk_list:
        if name == b"CHNM":
            (current,) = struct.unpack("<I", data)
            in_chnk = True
        if name == b"SEND":
            in_chnk = False
        if in_chnk and current in chnms and name in (b"CHNM", b"CHDT", b"CHFF", b"CHFR"):
            continue
        out.append((name, data))
    return out


def load(data: bytes):
    return read_sunvox_file(BytesIO(data))


def env_state(e):
    return (
        e.chnm, list(e.points), e.sustain_point, e.loop_start_point, e.loop_end_point,
        e.enable, e.sustain, e.loop, e.ctl_index, e.gain_pct, e.velocity, e.loaded,
    )


def all_envelopes(mod):
    return [mod.volume_envelope, mod.panning_envelope, mod.pitch_envelope,
            *mod.effect_control_envelopes]


def make_envelopes():
    return [Sampler.VolumeEnvelope(), Sampler.PanningEnvelope(), Sampler.PitchEnvelope(),
            Sampler.EffectControlEnvelope(0x105), Sampler.EffectControlEnvelope(0x108)]


ORIG = FIXTURE.read_bytes()
ORIG_CHUNKS = file_chunks(ORIG)

# ------------------------------------------------------------------- bitmask
for env in make_envelopes():
    for enable, sustain, loop in itertools.product((False, True), repeat=3):
        env.enable, env.sustain, env.loop = enable, sustain, loop
        bm = env.bitmask
        check(bm == (1 if enable else 0) + (2 if sustain else 0) + (4 if loop else 0), "bitmask value")
        check(type(bm) is int or (type(bm) is bool and not sustain and not loop), f"bitmask type {type(bm)}")
    for value in range(0, 20):
        env.bitmask = value
        check((env.enable, env.sustain, env.loop) == (bool(value & 1), bool(value & 2), bool(value & 4)), "bitmask setter")
        check(all(type(v) is bool for v in (env.enable, env.sustain, env.loop)), "bitmask setter types")
        check(env.bitmask == value & 7, "bitmask roundtrip")
    env.bitmask = 0xFFFF
    check(env.bitmask == 7, "bitmask 0xffff")
    # integer (non-bool) flags as a user might assign them
    env.enable, env.sustain, env.loop = 1, 1, 0
    check(env.bitmask == 3, "int flags")
    env.enable, env.sustain, env.loop = 0, 0, 1
    check(env.bitmask == 4, "int flags 2")
    before = (env.enable, env.sustain, env.loop)
    raises(TypeError, lambda: setattr(env, "bitmask", None), "bitmask None")
    check((env.enable, env.sustain, env.loop) == before, "failed bitmask set leaves flags")
    env.sustain = None
    raises(TypeError, lambda: env.bitmask, "bitmask with None flag")

# --------------------------------------------- point_bytes / chunks / load_chdt
POINT_SETS = {
    "vol": [
        [],
        [(0, 0)],
        [(0, 0x8000)],
        [(0, 0x8000), (8, 0), (0x80, 0), (0x100, 0)],
        [(i * 3, (i * 0x777) % 0x8001) for i in range(11)],
        [(i * 3, (i * 0x777) % 0x8001) for i in range(12)],
        [(i * 3, (i * 0x777) % 0x8001) for i in range(13)],
        [(i * 100, (i * 0x1F3) % 0x8001) for i in range(40)],
        [(0xFFFF, 0x1FF), (1, 0x200), (2, 0x3FF)],
    ],
    "pan": [
        [],
        [(0, 0)],
        [(0, -0x4000), (5, 0x4000)],
        [(0, 0), (0x40, -0x2000), (0x80, 0x2000), (0xB4, 0)],
        [(i, -0x4000 + i * 0x555) for i in range(12)],
        [(i, -0x4000 + i * 0x555) for i in range(13)],
        [(i * 7, -0x4000 + (i * 0x3A1) % 0x8001) for i in range(30)],
        [(3, -1), (4, 1), (5, -0x1FF), (6, -0x200), (7, -0x201)],
    ],
}


def env_for(kind):
    if kind == "vol":
        return [Sampler.VolumeEnvelope(), Sampler.EffectControlEnvelope(0x106)]
    return [Sampler.PanningEnvelope(), Sampler.PitchEnvelope()]


digest = hashlib.sha256()
for kind, sets in POINT_SETS.items():
    for pts in sets:
        for env in env_for(kind):
            env.points = list(pts)
            env.sustain_point = len(pts) // 2
            env.loop_start_point = 1
            env.loop_end_point = max(0, len(pts) - 1)
            env.ctl_index, env.gain_pct, env.velocity = 3, 77, 1
            env.bitmask = len(pts) % 8
            pb = env.point_bytes
            check(len(pb) == 48, "point_bytes is 12 pairs")
            vals = struct.unpack("<24H", pb)
            lo = env.range[0]
            for i in range(12):
                if i < len(pts):
                    check(vals[2 * i] == pts[i][0], "legacy x")
                    check(vals[2 * i + 1] == pts[i][1] // 0x200 - lo // 0x200, "legacy y")
                else:
                    check(vals[2 * i] == 0 and vals[2 * i + 1] == -(lo // 0x200), "legacy padding")
            check(env._x_values == ([x for x, _ in pts] + [0] * 12)[:12], "_x_values")
            check(env._y_values == ([y // 0x200 for _, y in pts] + [0] * 12)[:12], "_y_values")
            check(type(env._x_values) is list and len(env._y_values) == 12, "value list shape")
            out = list(env.chunks())
            check(len(out) == 2 and out[0] == (b"CHNM", struct.pack("<I", env.chnm)), "CHNM first")
            check(out[1][0] == b"CHDT" and len(out[1][1]) == 0x14 + 4 * len(pts), "CHDT size")
            chdt = out[1][1]
            check(chdt[5:8] == b"\0\0\0" and chdt[16:20] == b"\0\0\0\0", "reserved bytes zero")
            digest.update(pb + chdt)
            fresh = type(env)(env.chnm) if isinstance(env, Sampler.EffectControlEnvelope) else type(env)()
            check(fresh.loaded is False, "fresh not loaded")
            fresh.load_chdt(chdt)
            check(env_state(fresh)[:-1] == env_state(env)[:-1] and fresh.loaded is True, "chunks/load_chdt roundtrip")
            check(all(type(p) is tuple for p in fresh.points), "points are tuples")
            # trailing bytes and non-zero reserved bytes are ignored
            noisy = chdt[:5] + b"\xaa\xbb\xcc" + chdt[8:16] + b"\x01\x02\x03\x04" + chdt[20:] + b"\x09" * 7
            other = Sampler.VolumeEnvelope()
            other.range = env.range
            other.load_chdt(noisy)
            check(other.points == fresh.points and other.bitmask == fresh.bitmask, "noise ignored")
            # truncated data: struct.error, points loaded so far are kept
            if pts:
                cut = Sampler.VolumeEnvelope()
                cut.range = env.range
                raises(struct.error, lambda: cut.load_chdt(chdt[:-1]), "truncated point")
                check(cut.points == fresh.points[:-1] and cut.loaded is False, "partial points kept")
                cut2 = Sampler.VolumeEnvelope()
                cut2.range = env.range
                raises(struct.error, lambda: cut2.load_chdt(chdt[:0x14]), "no points at all")
                check(cut2.points == [] and cut2.loaded is False, "no points kept")
RESULTS["envelope-bytes"] = digest.hexdigest()[:16]

env = Sampler.VolumeEnvelope()
for n in (0, 1, 15):
    raises(struct.error, lambda: env.load_chdt(b"\0" * n), f"short header {n}")
check(env.points == Sampler.VolumeEnvelope.initial_points and env.loaded is False, "short header leaves envelope")
raises(TypeError, lambda: env.load_chdt(None), "None chdt")
env.load_chdt(b"\0" * 16)
check(env.points == [] and env.loaded is True, "16 zero bytes = empty envelope")
env.load_chdt(bytearray(b"\x07\x00\x01\x02\x03\x00\x00\x00\x01\x00\x04\x00\x05\x00\x06\x00....\x10\x00\x20\x00"))
check(env_state(env) == (0x102, [(16, 32)], 4, 5, 6, True, True, True, 1, 2, 3, True), "bytearray input")
# out of range values cannot be written
env = Sampler.VolumeEnvelope()
env.points = [(0, 0x10000)]
raises(struct.error, lambda: list(env.chunks()), "y too big")
env.points = [(0, -1)]
raises(struct.error, lambda: list(env.chunks()), "y below range")
raises(struct.error, lambda: env.point_bytes, "legacy y below range")
env.points = [(0x10000, 0)]
raises(struct.error, lambda: env.point_bytes, "legacy x too big")
env.points = [(0, 0)]
env.gain_pct = 256
raises(struct.error, lambda: list(env.chunks()), "gain too big")
env.gain_pct = 100
env.points = [(1, 2, 3)]
raises(ValueError, lambda: list(env.chunks()), "bad point tuple")
raises(ValueError, lambda: env.point_bytes, "bad point tuple legacy")
# generator laziness: CHNM is produced before the data is validated
env.points = [(0, 0x10000)]
gen = env.chunks()
check(next(gen) == (b"CHNM", b"\x02\x01\0\0"), "CHNM before validation")
raises(struct.error, lambda: next(gen), "then error")

# -------------------------------------------- whole-file envelope round trips
synth = load(ORIG)
mod = synth.module
RESULTS["fixture-envelopes"] = sha(repr([env_state(e) for e in all_envelopes(mod)]).encode())
RESULTS["fixture-resaved"] = sha(synth.read())
mod.volume_envelope.points = POINT_SETS["vol"][7]
mod.panning_envelope.points = POINT_SETS["pan"][6]
mod.pitch_envelope.points = POINT_SETS["pan"][7]
mod.pitch_envelope.bitmask = 5
mod.effect_control_envelopes[2].points = POINT_SETS["vol"][4]
mod.effect_control_envelopes[2].velocity = 1
want = [env_state(e) for e in all_envelopes(mod)]
out = synth.read()
RESULTS["edited-resaved"] = sha(out)
back = load(out).module
check([env_state(e) for e in all_envelopes(back)] == want, "edited envelopes survive save/load")

# ------------------------------- legacy tables -> _upgrade_envelopes on load
NOENV = drop_chnm(ORIG_CHUNKS, set(range(0x102, 0x109)))
REC0 = [d for (n, d), (pn, pd) in zip(ORIG_CHUNKS[1:], ORIG_CHUNKS) if pn == b"CHNM" and pd == b"\0\0\0\0" and n == b"CHDT"][0]
VOL_TABLE, PAN_TABLE, COUNTS = 0x84, 0xB4, 0xE4


def legacy_record(vol_pts, pan_pts, vol_n, pan_n, vol_marks, pan_marks, vol_type, pan_type):
    def table(pts):
        flat = [v for p in pts for v in p] + [0] * 24
        return struct.pack("<24H", *flat[:24])
    tail = struct.pack("<10B", vol_n, pan_n, *vol_marks, *pan_marks, vol_type, pan_type)
    return REC0[:VOL_TABLE] + table(vol_pts) + table(pan_pts) + tail + REC0[COUNTS + 10:]


check(len(legacy_record([], [], 0, 0, (0, 0, 0), (0, 0, 0), 0, 0)) == len(REC0), "record builder size")
synth = load(build(NOENV))
mod = synth.module
check(mod.volume_envelope.loaded is False, "upgrade path taken")
RESULTS["noenv-upgraded"] = sha(repr([env_state(e) for e in all_envelopes(mod)]).encode())
RESULTS["noenv-resaved"] = sha(synth.read())

digest = hashlib.sha256()
vol_raw = [(i * 5, (i * 7) % 65) for i in range(12)]
pan_raw = [(i * 9 + 1, (i * 11) % 65) for i in range(12)]
for vol_n, pan_n in [(0, 0), (1, 0), (0, 1), (4, 6), (12, 12), (12, 3), (2, 12)]:
    for vol_type, pan_type in [(0, 0), (1, 6), (7, 5), (0xFF, 0x08)]:
        rec = legacy_record(vol_raw, pan_raw, vol_n, pan_n, (1, 2, 3), (4, 5, 6), vol_type, pan_type)
        m = load(build(edit_chdt(NOENV, 0, lambda d: rec))).module
        v, p = m.volume_envelope, m.panning_envelope
        check(v.points == [(x, y * 0x200) for x, y in vol_raw[:vol_n]], "upgraded vol points")
        check(p.points == [(x, y * 0x200 - 0x4000) for x, y in pan_raw[:pan_n]], "upgraded pan points")
        check((v.sustain_point, v.loop_start_point, v.loop_end_point) == (1, 2, 3), "vol marks")
        check((p.sustain_point, p.loop_start_point, p.loop_end_point) == (4, 5, 6), "pan marks")
        check(v.bitmask == vol_type & 7 and p.bitmask == pan_type & 7, "upgraded flags")
        check(v.loaded is False and p.loaded is False, "upgrade does not mark loaded")
        saved = Synth(m).read()
        digest.update(saved)
        again = load(saved).module
        check(again.volume_envelope.loaded is True, "resaved has real envelope chunks")
        check(again.volume_envelope.points == v.points and again.panning_envelope.points == p.points, "upgraded points persist")
        check(again.volume_envelope.bitmask == v.bitmask, "upgraded flags persist")
RESULTS["upgrade-matrix"] = digest.hexdigest()[:16]
# more active points than the table can hold
for vol_n, pan_n in [(13, 0), (0, 13), (200, 200)]:
    rec = legacy_record(vol_raw, pan_raw, vol_n, pan_n, (0, 0, 0), (0, 0, 0), 1, 1)
    raises(struct.error, lambda: load(build(edit_chdt(NOENV, 0, lambda d: rec))), f"active points {vol_n}/{pan_n}")
# only the volume envelope chunk decides whether the upgrade runs
only_vol = drop_chnm(ORIG_CHUNKS, set(range(0x103, 0x109)))
m = load(build(only_vol)).module
check(m.volume_envelope.loaded and not m.panning_envelope.loaded, "vol chunk present: no upgrade")
check(m.panning_envelope.points == Sampler.PanningEnvelope.initial_points, "pan keeps defaults")
# direct call on an instrument that never saw record 0
m = Sampler()
raises(TypeError, m._upgrade_envelopes, "upgrade without legacy data")
check(m.volume_envelope.points == Sampler.VolumeEnvelope.initial_points, "failed upgrade leaves points")
# failure while decoding the second table leaves both point lists alone
m = Sampler()
for e, n in ((m.volume_envelope, 2), (m.panning_envelope, 13)):
    e._legacy_point_bytes = struct.pack("<24H", *range(24))
    e._legacy_active_points = n
    e._legacy_bitmask = 3
    e._legacy_sustain_point = e._legacy_loop_start_point = e._legacy_loop_end_point = 9
raises(struct.error, m._upgrade_envelopes, "second table too long")
check(m.volume_envelope.points == Sampler.VolumeEnvelope.initial_points, "vol points untouched on failure")
check(m.panning_envelope.points == Sampler.PanningEnvelope.initial_points, "pan points untouched on failure")
check(m.volume_envelope.sustain_point == 9 and m.panning_envelope.sustain_point == 9, "marks already adopted")
check(m.panning_envelope.bitmask == 3, "flags already adopted")
m.panning_envelope._legacy_active_points = 3
m._upgrade_envelopes()
check(m.volume_envelope.points == [(0, 0x200), (2, 0x600)], "direct upgrade vol")
check(m.panning_envelope.points == [(0, 0x200 - 0x4000), (2, 0x600 - 0x4000), (4, 0xA00 - 0x4000)], "direct upgrade pan")

# ----------------------------------------------------------- sample type byte
digest = hashlib.sha256()
combos = itertools.product(Sampler.LoopType, Sampler.Format, Sampler.Channels, (False, True))
for loop_type, fmt, channels, sustain in combos:
    m = Sampler()
    s = m.samples[3] = Sampler.Sample()
    s.data = bytes(range(48))
    s.loop_type, s.format, s.channels, s.loop_sustain = loop_type, fmt, channels, sustain
    meta = [d for n, d in m.sample_chunks(3, s)][1]
    expect = (int(loop_type) | {1: 0, 2: 0x10, 4: 0x20}[int(fmt)]
              | (0x40 if channels == Sampler.Channels.stereo else 0) | (4 if sustain else 0))
    check(meta[14] == expect, f"type byte {meta[14]:#x} != {expect:#x}")
    saved = Synth(m).read()
    digest.update(saved)
    s2 = load(saved).module.samples[3]
    check((s2.loop_type, s2.format, s2.channels, s2.loop_sustain) == (loop_type, fmt, channels, sustain), "type byte roundtrip")
    check(type(s2.loop_type) is Sampler.LoopType and type(s2.format) is Sampler.Format
          and type(s2.channels) is Sampler.Channels and type(s2.loop_sustain) is bool, "decoded types")
RESULTS["type-byte-matrix"] = digest.hexdigest()[:16]

# plain ints equal to the enum values work as keys; truthy sustain values too
m = Sampler()
s = m.samples[0] = Sampler.Sample()
s.format, s.channels, s.loop_sustain = 2, 0, "yes"
meta = [d for n, d in itertools.islice(m.sample_chunks(0, s), 2)][1]
check(meta[14] == 0x14, "int format / channels")
raises(AttributeError, lambda: list(m.sample_chunks(0, s)), "int format has no .value for CHFF")
for attr, bad, exc in (("format", None, KeyError), ("format", 3, KeyError), ("channels", 1, KeyError),
                       ("channels", None, KeyError), ("loop_type", None, AttributeError), ("loop_type", 1, AttributeError)):
    s = Sampler.Sample()
    setattr(s, attr, bad)
    raises(exc, lambda: list(Sampler().sample_chunks(0, s)), f"bad {attr}={bad!r}")
s = Sampler.Sample()
s.format, s.loop_type = None, None
raises(KeyError, lambda: list(Sampler().sample_chunks(0, s)), "format checked before loop type")

# decoding every possible type byte straight through load_sample_meta
from rv.modules.module import Chunk as RawChunk
base_meta = [d for n, d in Sampler().sample_chunks(0, Sampler.Sample())][1]
for byte in range(256):
    c = RawChunk()
    c.chnm, c.chdt = 1, base_meta[:14] + bytes([byte]) + base_meta[15:]
    m = Sampler()
    if byte & 3 == 3:
        raises(ValueError, lambda: m.load_sample_meta(c), f"type {byte:#x} loop 3")
        continue
    if byte & 0x30 == 0x30:
        raises(KeyError, lambda: m.load_sample_meta(c), f"type {byte:#x} format 3")
        check(m.samples[0].loop_type == Sampler.LoopType(byte & 3), "loop type set before format fails")
        continue
    m.load_sample_meta(c)
    s = m.samples[0]
    check(int(s.loop_type) == byte & 3, "decoded loop")
    check(s.format == {0: Sampler.Format.int8, 0x10: Sampler.Format.int16, 0x20: Sampler.Format.float32}[byte & 0x30], "decoded format")
    check(s.channels == (Sampler.Channels.stereo if byte & 0x40 else Sampler.Channels.mono), "decoded channels")
    check(s.loop_sustain is bool(byte & 4), "decoded sustain")
    # bits 3 and 7 are ignored, so re-encoding drops them
    again = [d for n, d in m.sample_chunks(0, s)][1]
    check(again[14] == byte & 0x77, "re-encoded type byte")

# fixture samples
mod = load(ORIG).module
RESULTS["fixture-sample-types"] = sha(repr([
    None if s is None else (int(s.loop_type), int(s.format), int(s.channels), s.loop_sustain)
    for s in mod.samples]).encode())

EXPECTED = {
    'envelope-bytes': 'fbf903f34f4a1137',
    'fixture-envelopes': '088dcf296ccad172',
    'fixture-resaved': '3b0f2915c2ec0456',
    'edited-resaved': 'f16239ef767bea6b',
    'noenv-upgraded': 'ed8f058ae6903304',
    'noenv-resaved': '064a013266a6f66d',
    'upgrade-matrix': '7a82773bb5beb973',
    'type-byte-matrix': 'd77040a2dfe4d5f9',
    'fixture-sample-types': '60b578ae25eed79e',
}

if "--record" in sys.argv:
    for k, v in RESULTS.items():
        print(f"    {k!r}: {v!r},")
    sys.exit(0)

for k, v in RESULTS.items():
    if EXPECTED.get(k) != v:
        FAILURES.append(f"digest {k}: {v} != {EXPECTED.get(k)}")
check(set(EXPECTED) == set(RESULTS), "digest key sets differ")

if FAILURES:
    print("FAIL")
    for f in FAILURES[:40]:
        print("  -", f)
    print(len(FAILURES), "failures")
    sys.exit(1)
print("PASS")
