"""Behaviour check for Pattern bulk setters (set_via_fn / set_via_gen), Pattern.clear,
Pattern.raw_data and the project-aware Note accessors.

Run from the repository root:
    PYTHONPATH=<root>/src/python python check.py
Prints PASS and exits 0 when everything behaves as expected.
"""
import sys

from rv.api import NOTE, NOTECMD, Pattern, Project, m
from rv.errors import ModuleOwnershipError, PatternOwnershipError
from rv.note import Note

CHECKS = 0


def ok(cond, msg):
    global CHECKS
    CHECKS += 1
    if not cond:
        print("FAIL:", msg)
        sys.exit(1)


class Boom(Exception):
    pass


def raises(exc_type, fn, *args):
    try:
        fn(*args)
    except exc_type as e:
        return type(e) is exc_type or isinstance(e, exc_type)
    except BaseException:
        return False
    return False


def make_pattern(lines, tracks, attached, seed=0):
    """Build a pattern with distinct content in every cell."""
    project = None
    p = Pattern(lines=lines, tracks=tracks)
    if attached:
        project = Project()
        project.new_module(m.Generator)
        project.new_module(m.Amplifier)
        project.attach_pattern(p)
    for l in range(lines):
        for t in range(tracks):
            n = p.data[l][t]
            n.note = NOTE.C4 + ((l * tracks + t + seed) % 12)
            n.vel = 1 + ((l * 7 + t * 3 + seed) % 128)
            n.module = (l + t + seed) % 4
            n.ctl = (l * 0x101 + t + seed) & 0xFFFF
            n.val = (t * 0x211 + l + seed) & 0xFFFF
    return p, project


def snapshot(p):
    return {
        "data_obj": p._data,
        "rows": [row for row in p._data],
        "cells": [[n for n in row] for row in p._data],
        "raw": p.raw_data,
        "note_raw": [[n.raw_data for n in row] for row in p._data],
    }


def unchanged(p, snap):
    if p._data is not snap["data_obj"]:
        return False
    if len(p._data) != len(snap["rows"]):
        return False
    for row, srow, scells, sraw in zip(
        p._data, snap["rows"], snap["cells"], snap["note_raw"]
    ):
        if row is not srow or len(row) != len(scells):
            return False
        for n, sn, r in zip(row, scells, sraw):
            if n is not sn or n.raw_data != r or n.pattern is not p:
                return False
    return p.raw_data == snap["raw"]


def owned(p):
    return all(n.pattern is p for row in p.data for n in row)


def shape_ok(p):
    return len(p.data) == p.lines and all(len(row) == p.tracks for row in p.data)


def fresh_note(l, t, k=0):
    return Note(
        note=NOTE.C2 + ((l + t + k) % 24),
        vel=1 + ((l * 5 + t + k) % 100),
        module=(l + 2 * t + k) % 4,
        ctl=(0x0100 * (t + 1) + l + k) & 0xFFFF,
        val=(0x0010 * (l + 1) + t + k) & 0xFFFF,
    )


SHAPES = [(l, t) for l in range(1, 4) for t in range(1, 4)]


# ---------------------------------------------------------------- clear / data
def check_clear_and_raw():
    for lines, tracks in SHAPES + [(5, 2)]:
        p = Pattern(lines=lines, tracks=tracks)
        ok(not hasattr(p, "_data"), "data is lazy")
        d = p.data
        ok(p.data is d, "data property returns the same list")
        ok(shape_ok(p), "clear shape")
        ok(owned(p), "clear ownership")
        ok(len({id(n) for row in d for n in row}) == lines * tracks, "distinct notes")
        ok(len({id(row) for row in d}) == lines, "distinct rows")
        ok(all(n.is_empty() and n.module == 0 for row in d for n in row), "empty")
        ok(p.raw_data == b"\0" * (8 * lines * tracks), "empty raw data")
        ok(p.clear() is None, "clear returns None")
        ok(p.data is not d and shape_ok(p) and owned(p), "clear builds a new list")
        # raw_data round trip
        q, _ = make_pattern(lines, tracks, False, seed=3)
        raw = q.raw_data
        ok(len(raw) == 8 * lines * tracks, "raw length")
        cells = [[n for n in row] for row in p.data]
        p.raw_data = raw
        ok(p.raw_data == raw, "raw round trip")
        ok(
            all(p.data[l][t] is cells[l][t] for l in range(lines) for t in range(tracks)),
            "raw setter writes in place",
        )
        ok(
            all(
                p.data[l][t].raw_data == q.data[l][t].raw_data
                for l in range(lines)
                for t in range(tracks)
            ),
            "raw setter cell mapping",
        )
        ok(owned(p), "raw setter keeps ownership")
    # clear with zero tracks after construction keeps empty rows
    p = Pattern(lines=2, tracks=1)
    p.tracks = 0
    p.clear()
    ok(p.data == [[], []], "clear with zero tracks")
    p = Pattern(lines=2, tracks=2)
    p.tracks = None
    ok(raises(TypeError, p.clear), "clear with bad tracks raises TypeError")
    ok(p._data == [[]], "partial state after failing clear")
    p = Pattern(lines=2, tracks=2)
    p.lines = None
    ok(raises(TypeError, p.clear), "clear with bad lines raises TypeError")
    ok(p._data == [], "state after failing clear (lines)")


# ------------------------------------------------------------------ set_via_fn
def check_fn_success(attached):
    for lines, tracks in SHAPES:
        p, project = make_pattern(lines, tracks, attached)
        snap = snapshot(p)
        calls = []
        made = {}

        def fn(pat, l, t):
            calls.append((pat, l, t))
            # the pattern must still show its old contents while fn runs
            ok(unchanged(p, snap), "old data visible during set_via_fn")
            made[(l, t)] = fresh_note(l, t)
            return made[(l, t)]

        ret = p.set_via_fn(fn)
        ok(ret is p, "set_via_fn returns self")
        ok(
            calls == [(p, l, t) for l in range(lines) for t in range(tracks)],
            "fn call order/args",
        )
        ok(p._data is not snap["data_obj"], "new data list installed")
        ok(all(r is not s for r in p._data for s in snap["rows"]), "new row lists")
        ok(shape_ok(p), "shape after set_via_fn")
        ok(
            all(p.data[l][t] is made[(l, t)] for l in range(lines) for t in range(tracks)),
            "exactly supplied notes installed",
        )
        ok(owned(p), "ownership after set_via_fn")
        # old structure untouched
        ok(
            all(
                snap["data_obj"][l][t] is snap["cells"][l][t]
                and snap["cells"][l][t].raw_data == snap["note_raw"][l][t]
                for l in range(lines)
                for t in range(tracks)
            ),
            "old list left intact",
        )
        if attached:
            ok(all(n.project is project for row in p.data for n in row), "note.project")
            for row in p.data:
                for n in row:
                    expect = None
                    if n.module and n.module - 1 < len(project.modules):
                        expect = project.modules[n.module - 1]
                    ok(n.mod is expect, "note.mod after set_via_fn")
        else:
            ok(all(n.project is None for row in p.data for n in row), "detached project")
            ok(
                all(
                    raises(PatternOwnershipError, lambda n=n: n.mod)
                    for row in p.data
                    for n in row
                ),
                "detached note.mod raises",
            )


def check_fn_failure(attached):
    for lines, tracks in SHAPES:
        for fl in range(lines):
            for ft in range(tracks):
                for mode in ("raise", "none", "object"):
                    p, project = make_pattern(lines, tracks, attached)
                    snap = snapshot(p)
                    seen = []

                    def fn(pat, l, t):
                        seen.append((l, t))
                        if (l, t) == (fl, ft):
                            if mode == "raise":
                                raise Boom((l, t))
                            if mode == "none":
                                return None
                            return object()
                        return fresh_note(l, t)

                    if mode == "raise":
                        ok(raises(Boom, p.set_via_fn, fn), "Boom propagates")
                        ok(seen[-1] == (fl, ft), "stopped at the failing cell")
                        ok(len(seen) == fl * tracks + ft + 1, "no calls after failure")
                    else:
                        ok(
                            raises(AttributeError, p.set_via_fn, fn),
                            "non-note result gives AttributeError",
                        )
                        ok(len(seen) == lines * tracks, "all cells asked first")
                    ok(unchanged(p, snap), "pattern unchanged after failing set_via_fn")
                    # the pattern is still usable afterwards
                    p.set_via_fn(lambda pat, l, t: fresh_note(l, t, 1))
                    ok(owned(p) and shape_ok(p), "usable after failure")
                    ok(
                        p.raw_data
                        == b"".join(
                            fresh_note(l, t, 1).raw_data
                            for l in range(lines)
                            for t in range(tracks)
                        ),
                        "content after recovery",
                    )


def check_fn_misc():
    # lazily created data
    p = Pattern(lines=2, tracks=3)
    p.set_via_fn(lambda pat, l, t: Note(note=NOTE.C5, vel=l * 3 + t + 1))
    ok([n.vel for row in p.data for n in row] == [1, 2, 3, 4, 5, 6], "lazy data + fn")
    ok(owned(p), "lazy ownership")
    # fn may read the current pattern (old content)
    p.set_via_fn(lambda pat, l, t: Note(note=NOTE.C5, vel=pat.data[l][t].vel + 10))
    ok([n.vel for row in p.data for n in row] == [11, 12, 13, 14, 15, 16], "fn reads old")
    # fn may hand back the existing note objects
    before = [[n for n in row] for row in p.data]
    p.set_via_fn(lambda pat, l, t: pat.data[l][t])
    ok(
        all(p.data[l][t] is before[l][t] for l in range(2) for t in range(3)),
        "identity fn keeps objects",
    )
    ok(owned(p), "identity fn ownership")
    # notes taken from another pattern are re-owned
    q, _ = make_pattern(2, 3, True, seed=5)
    qnotes = [[n for n in row] for row in q.data]
    p.set_via_fn(lambda pat, l, t: q.data[l][t])
    ok(all(p.data[l][t] is qnotes[l][t] for l in range(2) for t in range(3)), "moved")
    ok(owned(p), "moved notes owned by the new pattern")
    ok(all(n.project is None for row in p.data for n in row), "moved notes project")
    # the same note object in every cell
    one = Note(note=NOTE.D3)
    p.set_via_fn(lambda pat, l, t: one)
    ok(all(n is one for row in p.data for n in row) and one.pattern is p, "shared note")
    # lines is read once, tracks once per line
    p = Pattern(lines=3, tracks=2)
    p.data
    seen = []

    def shrink(pat, l, t):
        seen.append((l, t))
        if (l, t) == (0, 0):
            pat.lines = 1
        if (l, t) == (1, 0):
            pat.tracks = 1
        return Note(vel=1 + l * 2 + t)

    p.set_via_fn(shrink)
    ok(seen == [(0, 0), (0, 1), (1, 0), (1, 1), (2, 0)], "dimension evaluation order")
    ok([[n.vel for n in row] for row in p.data] == [[1, 2], [3, 4], [5, 0]], "shrink data")
    ok(all(n.pattern is p for row in p._data for n in row), "shrink ownership")


# ----------------------------------------------------------------- set_via_gen
def check_gen_success(attached):
    for lines, tracks in SHAPES:
        cells = [(l, t) for l in range(lines) for t in range(tracks)]
        subsets = [[], cells, cells[::2], list(reversed(cells))[:2], [cells[-1]] * 2]
        for subset in subsets:
            p, project = make_pattern(lines, tracks, attached)
            snap = snapshot(p)
            info = {}
            made = {}

            def gen(pat, new):
                info["args"] = (pat, new)
                ok(new is not p._data, "working copy differs from live data")
                ok(
                    len(new) == lines and all(len(r) == tracks for r in new),
                    "working copy shape",
                )
                ok(
                    all(
                        new[l][t] is not snap["cells"][l][t]
                        and new[l][t].raw_data == snap["note_raw"][l][t]
                        for l, t in cells
                    ),
                    "working copy is a deep copy",
                )
                for k, (l, t) in enumerate(subset):
                    n = fresh_note(l, t, k)
                    made[(l, t)] = n
                    yield l, t, n
                    ok(new[l][t] is n, "intermediate state visible to generator")
                    ok(unchanged(p, snap), "old data visible during set_via_gen")

            ret = p.set_via_gen(gen)
            ok(ret is p, "set_via_gen returns self")
            ok(info["args"][0] is p, "gen gets the pattern")
            ok(p._data is info["args"][1], "working copy gets installed")
            ok(p._data is not snap["data_obj"], "new list installed (gen)")
            ok(shape_ok(p) and owned(p), "shape/ownership after set_via_gen")
            for l, t in cells:
                if (l, t) in made:
                    ok(p.data[l][t] is made[(l, t)], "yielded note installed (last wins)")
                else:
                    ok(
                        p.data[l][t] is not snap["cells"][l][t]
                        and p.data[l][t].raw_data == snap["note_raw"][l][t],
                        "untouched cell keeps previous content",
                    )
            ok(
                all(
                    snap["data_obj"][l][t] is snap["cells"][l][t]
                    and snap["cells"][l][t].raw_data == snap["note_raw"][l][t]
                    and snap["cells"][l][t].pattern is p
                    for l, t in cells
                ),
                "old list intact (gen)",
            )
            if attached:
                ok(all(n.project is project for r in p.data for n in r), "gen project")
                for r in p.data:
                    for n in r:
                        expect = None
                        if n.module and n.module - 1 < len(project.modules):
                            expect = project.modules[n.module - 1]
                        ok(n.mod is expect, "note.mod after set_via_gen")
            else:
                ok(
                    all(
                        raises(PatternOwnershipError, lambda n=n: n.mod)
                        for r in p.data
                        for n in r
                    ),
                    "detached mod raises (gen)",
                )


def check_gen_failure(attached):
    for lines, tracks in SHAPES:
        cells = [(l, t) for l in range(lines) for t in range(tracks)]
        for fail_at in range(len(cells) + 1):
            for mode in ("raise", "arity", "index", "none", "scalar"):
                p, project = make_pattern(lines, tracks, attached)
                snap = snapshot(p)
                progress = []

                def gen(pat, new):
                    for k, (l, t) in enumerate(cells):
                        if k == fail_at:
                            if mode == "raise":
                                raise Boom(k)
                            elif mode == "arity":
                                yield l, t
                            elif mode == "index":
                                yield lines, t, fresh_note(l, t)
                            elif mode == "none":
                                yield l, t, None
                                continue
                            else:
                                yield 5
                        progress.append(k)
                        yield l, t, fresh_note(l, t, k)
                    if fail_at == len(cells):
                        if mode == "raise":
                            raise Boom("end")
                        elif mode == "arity":
                            yield 0, 0, fresh_note(0, 0), 1
                        elif mode == "index":
                            yield 0, tracks, fresh_note(0, 0)
                        elif mode == "none":
                            yield 0, 0, None
                        else:
                            yield 5

                expected = {
                    "raise": Boom,
                    "arity": ValueError,
                    "index": IndexError,
                    "none": AttributeError,
                    "scalar": TypeError,
                }[mode]
                ok(raises(expected, p.set_via_gen, gen), "gen failure type " + mode)
                if mode == "none":
                    ok(
                        progress == [k for k in range(len(cells)) if k != fail_at],
                        "None detected at commit",
                    )
                else:
                    ok(progress == list(range(fail_at)), "gen stopped at failure")
                ok(unchanged(p, snap), "pattern unchanged after failing set_via_gen")
                p.set_via_gen(lambda pat, new: iter([(0, 0, fresh_note(0, 0, 9))]))
                ok(owned(p) and shape_ok(p), "usable after gen failure")
                ok(p.data[0][0].raw_data == fresh_note(0, 0, 9).raw_data, "recovery cell")
                ok(
                    all(
                        p.data[l][t].raw_data == snap["note_raw"][l][t]
                        for l, t in cells[1:]
                    ),
                    "recovery keeps the rest",
                )
    # a non-callable / non-iterable
    p, _ = make_pattern(2, 2, False)
    snap = snapshot(p)
    ok(raises(TypeError, p.set_via_gen, None), "gen None")
    ok(raises(TypeError, p.set_via_gen, lambda pat, new: None), "gen returns None")
    ok(raises(TypeError, p.set_via_fn, None), "fn None")
    ok(unchanged(p, snap), "unchanged after bad callables")


def check_gen_misc():
    # lazily created data, list instead of generator, negative indexes
    p = Pattern(lines=2, tracks=2)
    a, b = Note(vel=7), Note(vel=9)
    p.set_via_gen(lambda pat, new: [(0, 1, a), (-1, -1, b)])
    ok(p.data[0][1] is a and p.data[1][1] is b, "list result / negative index")
    ok(p.data[0][0].is_empty() and p.data[1][0].is_empty(), "others empty")
    ok(owned(p), "ownership lazy gen")
    # directly mutating the working array is honoured
    c = Note(vel=11)

    def direct(pat, new):
        new[1][0] = c
        new[0][1].vel = 33
        return
        yield

    old_a = p.data[0][1]
    p.set_via_gen(direct)
    ok(p.data[1][0] is c and c.pattern is p, "direct mutation installed and owned")
    ok(p.data[0][1].vel == 33 and old_a.vel == 7, "copy mutated, original not")
    ok(p.data[0][1] is not old_a, "untouched cells are copies")
    # generator can move notes from another pattern
    q, qp = make_pattern(2, 2, True, seed=2)
    qn = q.data[1][1]
    p.set_via_gen(lambda pat, new: iter([(0, 0, qn)]))
    ok(p.data[0][0] is qn and qn.pattern is p and qn.project is None, "moved by gen")
    ok(q.data[1][1] is qn, "source pattern still lists the note")
    # generator reading intermediate state to build on it
    p = Pattern(lines=3, tracks=1)

    def chain(pat, new):
        for l in range(3):
            prev = new[l - 1][0].vel if l else 0
            yield l, 0, Note(vel=prev + 5)

    p.set_via_gen(chain)
    ok([r[0].vel for r in p.data] == [5, 10, 15], "intermediate state chaining")


# ------------------------------------------------------------------ histories
def check_histories(attached):
    p, project = make_pattern(3, 2, attached)
    model = [[n.raw_data for n in row] for row in p.data]
    for step in range(8):
        kind = step % 4
        snap = snapshot(p)
        if kind == 0:
            p.set_via_fn(lambda pat, l, t: fresh_note(l, t, step))
            model = [[fresh_note(l, t, step).raw_data for t in range(2)] for l in range(3)]
        elif kind == 1:
            def g(pat, new):
                yield step % 3, step % 2, fresh_note(1, 1, step)
            p.set_via_gen(g)
            model[step % 3][step % 2] = fresh_note(1, 1, step).raw_data
        elif kind == 2:
            def bad(pat, l, t):
                if (l, t) == (step % 3, 1):
                    raise Boom()
                return fresh_note(l, t, 77)
            ok(raises(Boom, p.set_via_fn, bad), "history fn failure")
            ok(unchanged(p, snap), "history unchanged (fn)")
        else:
            def badg(pat, new):
                yield 0, 0, fresh_note(0, 0, 55)
                yield 2, 1, fresh_note(0, 0, 56)
                raise Boom()
            ok(raises(Boom, p.set_via_gen, badg), "history gen failure")
            ok(unchanged(p, snap), "history unchanged (gen)")
        ok([[n.raw_data for n in row] for row in p.data] == model, "history model")
        ok(owned(p) and shape_ok(p), "history ownership")
        ok(p.raw_data == b"".join(b"".join(r) for r in model), "history raw_data")
        if attached:
            ok(p.project is project and project.patterns == [p], "still attached")
            ok(all(n.project is project for row in p.data for n in row), "hist project")


# -------------------------------------------------------------- note accessors
def check_note_accessors():
    project = Project()
    gen = project.new_module(m.Generator)
    amp = project.new_module(m.Amplifier)
    p = Pattern(lines=1, tracks=4)
    project.attach_pattern(p)
    n0, n1, n2, n3 = p.data[0]
    ok(n0.project is project, "project via pattern")
    ok(n0.module_index is None and n0.mod is None, "module 0 -> None")
    n1.module = 1
    ok(n1.module_index == 0 and n1.mod is project.output, "module 1 -> output")
    n2.mod = amp
    ok(n2.module == amp.index + 1 and n2.mod is amp, "mod setter")
    n3.module = 50
    ok(n3.module_index == 49 and n3.mod is None, "out of range module -> None")
    n3.module = len(project.modules)
    ok(n3.mod is project.modules[-1], "last module")
    n3.module = len(project.modules) + 1
    ok(n3.mod is None, "one past the last module")
    ok(raises(ModuleOwnershipError, setattr, n0, "mod", m.Generator()), "detached module")
    ok(n0.module == 0, "module unchanged after failed mod set")
    # empty module slot
    project.modules.append(None)
    n3.module = len(project.modules)
    ok(n3.mod is None, "empty slot -> None")
    # detached pattern
    d = Pattern(lines=1, tracks=1)
    dn = d.data[0][0]
    ok(dn.project is None, "detached project")
    ok(raises(PatternOwnershipError, lambda: dn.mod), "detached mod")
    dn.module = 3
    ok(raises(PatternOwnershipError, lambda: dn.mod), "detached mod (module set)")
    dn.mod = gen
    ok(dn.module == gen.index + 1, "mod setter works without a project")
    # bare note without a pattern
    bare = Note()
    ok(raises(AttributeError, lambda: bare.project), "bare note project")
    ok(raises(AttributeError, lambda: bare.mod), "bare note mod")
    ok(bare.module_index is None, "bare note module_index")
    # after a bulk edit accessors work on the supplied notes
    p.set_via_fn(lambda pat, l, t: Note(note=NOTE.C4, module=t))
    ok([n.mod for n in p.data[0]] == [None, project.output, gen, amp], "mods after fn")
    p.set_via_gen(lambda pat, new: iter([(0, 0, Note(note=NOTECMD.NOTE_OFF, module=2))]))
    ok([n.mod for n in p.data[0]] == [gen, project.output, gen, amp], "mods after gen")
    ok(all(n.project is project for n in p.data[0]), "projects after gen")
    # tabular_repr and chunk output go through data
    ok(p.tabular_repr().count("\n") == 1, "tabular repr lines")
    chunks = dict(p.iff_chunks())
    ok(chunks[b"PDTA"] == p.raw_data and len(chunks[b"PDTA"]) == 32, "PDTA chunk")


def main():
    check_clear_and_raw()
    for attached in (False, True):
        check_fn_success(attached)
        check_fn_failure(attached)
        check_gen_success(attached)
        check_gen_failure(attached)
        check_histories(attached)
    check_fn_misc()
    check_gen_misc()
    check_note_accessors()
    print("PASS (%d checks)" % CHECKS)


if __name__ == "__main__":
    main()
