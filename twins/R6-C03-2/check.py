"""Behaviour check for C03 refactoring 2 (reorganised Project/Synth/MetaModule writers).

Run from the repository root:
    PYTHONPATH=$PWD/src/python python check.py

Builds the expected chunk list of projects, synths and metamodules here,
independently of the code under test (field order, widths and signedness
taken from docs/sunvox-file-format.rst), and compares it chunk by chunk with
Project.chunks(), Synth.chunks() and MetaModule.specialized_iff_chunks().
Then serializes a corpus of projects/synths, parses every output with a small
independent chunk decoder and compares the bytes with recorded digests.
"""

import hashlib
import io
import struct
import sys
from pathlib import Path

import rv.api as rv
from rv.errors import EmptySynthError
from rv.modules import MODULE_CLASSES

FAILURES = []


def check(cond, msg):
    if not cond:
        FAILURES.append(msg)


def u32(v):
    return int(v).to_bytes(4, "little", signed=False)


def i32(v):
    return int(v).to_bytes(4, "little", signed=True)


def u16(v):
    return int(v).to_bytes(2, "little", signed=False)


def fill(pattern, seed=1):
    k = seed
    for line in pattern.data:
        for note in line:
            k = (k * 1103515245 + 12345) & 0x7FFFFFFF
            note.note = rv.NOTECMD((k >> 3) % 121)
            note.vel = (k >> 5) % 130
            note.module = (k >> 7) % 0x10000
            note.ctl = (k >> 9) % 0x10000
            note.val = (k >> 11) % 0x10000
    return pattern


def expected_module_chunks(mod, in_project):
    out = [(b"SFFF", u32(mod.flags))]
    raw = mod.name.encode(rv.ENCODING)[:32]
    name = raw.decode(rv.ENCODING, "ignore").encode(rv.ENCODING)
    out.append((b"SNAM", name + b"\0" * (32 - len(name))))
    if mod.mtype is not None and mod.mtype != "Output":
        out.append((b"STYP", mod.mtype.encode(rv.ENCODING) + b"\0"))
    out.append((b"SFIN", i32(mod.mod_finetune)))
    out.append((b"SREL", i32(mod.mod_relative_note)))
    if in_project:
        out += [(b"SXXX", i32(mod.x)), (b"SYYY", i32(mod.y)), (b"SZZZ", i32(mod.layer))]
    out.append((b"SSCL", u32(mod.mod_scale)))
    if in_project:
        out.append((b"SVPR", u32(int(mod.visualization))))
    out.append((b"SCOL", bytes(mod.color)))
    out.append((b"SMII", u32(int(mod.midi_in_always) + (mod.midi_in_channel << 1))))
    if mod.midi_out_name:
        out.append((b"SMIN", mod.midi_out_name.encode(rv.ENCODING) + b"\0"))
    out += [
        (b"SMIC", u32(mod.midi_out_channel)),
        (b"SMIB", i32(mod.midi_out_bank)),
        (b"SMIP", i32(mod.midi_out_program)),
    ]
    return out


def expected_options_chunks(mod):
    bytemap = [0] * 64
    used = 0
    for option in mod.options.values():
        v = int(mod.option_values.get(option.name))
        v &= (2**option.size) - 1
        bytemap[option.byte] |= v << option.bit
        used = max(used, option.byte + 1)
    return [(b"CHNM", u32(mod.options_chnm)), (b"CHDT", bytes(bytemap[:used]))]


MODULE_KW = [
    {},
    dict(
        name="A name that is definitely longer than thirty-two bytes",
        x=-100,
        y=2000,
        layer=3,
        mod_scale=300,
        color=(1, 2, 3),
        midi_in_always=True,
        midi_in_channel=5,
        midi_out_name="dev",
        midi_out_channel=9,
        midi_out_bank=7,
        midi_out_program=100,
        finetune=-12,
        relative_note=4,
        visualization=0x0F1F0304,
    ),
    # multi-byte characters cut in the middle by the 32 byte limit
    dict(name="é" * 20 + "z", midi_out_name="", color=(0, 0, 0)),
    dict(name="a" + "世界" * 8, midi_in_channel=16),
    dict(name="", midi_out_name=None, midi_out_bank=-1, midi_out_program=-1),
    dict(name="x" * 32),
    dict(name="x" * 31 + "é"),
]


# ------------------------------------------------------------ expectations


def expected_tail(mod, recompute=False):
    """Links are project-only; this is CVAL*/CMID/CHNK/specialized."""
    if recompute and hasattr(mod, "recompute_controller_attachment"):
        mod.recompute_controller_attachment()
    names = [n for n, c in mod.controllers.items() if c.attached(mod)]
    out = [(b"CVAL", i32(mod.get_raw(n))) for n in names]
    if names:
        out.append((b"CMID", b"".join(mod.controller_midi_maps[n].cmid_data for n in names)))
        check(len(out[-1][1]) == 8 * len(names), "8 binding bytes per controller")
    if mod.chnk:
        out.append((b"CHNK", u32(mod.chnk)))
        if isinstance(mod, rv.m.MetaModule):
            out += expected_metamodule_chunks(mod)
        else:
            out += list(mod.specialized_iff_chunks())
    return out


def expected_metamodule_chunks(mm):
    out = [(b"CHNM", u32(0)), (b"CHDT", b"".join(encode(expected_project(mm.project))))]
    mapping = b"".join(u16(v.module) + u16(v.controller) for v in mm.mappings.values)
    check(len(mapping) == 96 * 4, "mapping array is 96 x 4 bytes")
    out += [(b"CHNM", u32(1)), (b"CHDT", mapping)]
    out += expected_options_chunks(mm)
    for i, ctl in enumerate(mm.user_defined):
        if ctl.attached(mm) and ctl.label is not None:
            out += [
                (b"CHNM", u32(8 + i)),
                (b"CHDT", ctl.label.encode(rv.ENCODING) + b"\0"),
            ]
    return out


def encode(chunks):
    for cid, data in chunks:
        if cid is None:
            continue
        yield bytes(cid[:4]).ljust(4, b" ") + u32(len(data)) + data


def expected_links(mod):
    links, slots = mod.in_links, mod.in_link_slots
    if not links:
        return [(b"SLNK", b"")]
    out = [(b"SLNK", b"".join(i32(v) for v in links))]
    if any(s not in (-1, 0) for s in slots):
        out.append((b"SLnK", b"".join(i32(v) for v in slots)))
    return out


def expected_project(p):
    out = [
        (b"SVOX", b""),
        (b"VERS", bytes(reversed(p.sunvox_version))),
        (b"BVER", bytes(reversed(p.based_on_version))),
        (b"FLGS", u32(p.flags)),
        (b"SFGS", u32(p.receive_sync_midi | (p.receive_sync_other << 3))),
        (b"BPM ", u32(p.initial_bpm)),
        (b"SPED", u32(p.initial_tpl)),
        (b"TGRD", u32(p.time_grid)),
        (b"TGD2", u32(p.time_grid2)),
        (b"GVOL", u32(p.global_volume)),
        (b"NAME", p.name.encode(rv.ENCODING) + b"\0"),
        (b"MSCL", u32(p.modules_scale)),
        (b"MZOO", u32(p.modules_zoom)),
        (b"MXOF", i32(p.modules_x_offset)),
        (b"MYOF", i32(p.modules_y_offset)),
        (b"LMSK", u32(p.modules_layer_mask)),
        (b"CURL", u32(p.modules_current_layer)),
    ]
    if p.timeline_position != 0:
        out.append((b"TIME", i32(p.timeline_position)))
    if p.restart_position != 0:
        out.append((b"REPS", i32(p.restart_position)))
    out += [
        (b"SELS", u32(p.selected_module)),
        (b"LGEN", i32(p.selected_generator)),
        (b"PATN", u32(p.current_pattern)),
        (b"PATT", u32(p.current_track)),
        (b"PATL", u32(p.current_line)),
    ]
    for pat in p.patterns:
        if pat is not None:
            out += list(pat.iff_chunks())
        out.append((b"PEND", b""))
    for mod in p.modules:
        if mod is not None:
            out += expected_module_chunks(mod, True)
            out += expected_links(mod)
            out += expected_tail(mod)
        out.append((b"SEND", b""))
    return out


def expected_synth(s):
    mod = s.module
    out = [(b"SSYN", b""), (b"VERS", bytes(reversed(s.sunsynth_version)))]
    out += expected_module_chunks(mod, False)
    out += expected_tail(mod, recompute=True)
    out.append((b"SEND", b""))
    return out


def same_chunks(got, want, label):
    got = [c for c in got]
    if got != want:
        for i, (g, w) in enumerate(zip(got, want)):
            if g != w:
                check(False, f"{label}: chunk {i} is {g[0]!r}/{len(g[1] or b'')}B, expected {w[0]!r}")
                return
        check(False, f"{label}: {len(got)} chunks, expected {len(want)}")


# ------------------------------------------------------------------ projects


def sample_projects():
    yield "default", rv.Project()

    p = rv.Project()
    p.name = "Täst"
    p.sunvox_version = (2, 1, 0, 3)
    p.based_on_version = (1, 9, 6, 1)
    p.flags = 0x80000001
    p.initial_bpm, p.initial_tpl, p.global_volume = 300, 24, 256
    p.time_grid, p.time_grid2 = 8, 3
    p.modules_scale, p.modules_zoom = 512, 128
    p.modules_x_offset, p.modules_y_offset = -400, 2**31 - 1
    p.modules_layer_mask, p.modules_current_layer = 0xFFFFFFFF, 7
    p.timeline_position, p.restart_position = -1, 64
    p.selected_module, p.selected_generator = 3, 2
    p.current_pattern, p.current_track, p.current_line = 1, 2, 3
    p.receive_sync_midi = p.SyncCommand.tempo | p.SyncCommand.position
    p.receive_sync_other = 7
    yield "all-settings", p

    p = rv.Project()
    p.name = ""
    p.modules_x_offset, p.modules_y_offset = 2**31 - 1, -(2**31)
    p.timeline_position, p.restart_position = 2**31 - 1, -7
    p.selected_generator = -(2**31)
    p.receive_sync_midi, p.receive_sync_other = 0, 0
    yield "signed-extremes", p

    for tl, rs in [(0, 5), (5, 0), (0, 0), (-(2**31), -(2**31))]:
        p = rv.Project()
        p.timeline_position, p.restart_position = tl, rs
        yield f"time{tl}-reps{rs}", p

    # links: none, all slots zero/-1 (no SLnK), non-zero slots (SLnK)
    p = rv.Project()
    a = p.new_module(rv.m.Generator)
    b = p.new_module(rv.m.Amplifier)
    c = p.new_module(rv.m.Echo)
    a >> b >> p.output
    a >> c >> p.output
    p.connect([a, b], c)
    p.connect(~a, b)
    yield "links", p

    p = rv.Project()
    p.attach_module(None)
    g = p.new_module(rv.m.Fm, name="g")
    p.attach_module(None)
    p.modules.append(None)
    g >> p.output
    p.attach_pattern(None)
    p.attach_pattern(fill(rv.Pattern(lines=3, tracks=2, name="p"), 9))
    p.attach_pattern(rv.PatternClone(source=1, x=8))
    p.attach_pattern(None)
    yield "empty-slots", p

    p = rv.Project()
    del p.modules[:]
    yield "no-modules", p

    p = rv.Project()
    prev = None
    for i, (mtype, cls) in enumerate(sorted(MODULE_CLASSES.items())):
        if mtype == "Output":
            continue
        mod = p.new_module(cls, **dict(MODULE_KW[i % len(MODULE_KW)], x=i, y=-i))
        if prev is not None:
            prev >> mod
        prev = mod
    prev >> p.output
    first = p.modules[1]
    ctl_name = next(iter(first.controllers))
    first.controller_midi_maps[ctl_name].cmid_data = bytes([3, 1, 2, 0, 7, 0, 0, 0])
    yield "every-module", p


def sample_metamodules():
    yield "default", rv.m.MetaModule()
    for count, labels in [(0, []), (1, ["A"]), (3, ["Vol", None, "Pan é"]), (96, ["x"] * 96)]:
        mm = rv.m.MetaModule(name=f"meta{count}")
        inner = mm.project
        g = inner.new_module(rv.m.Generator)
        f = inner.new_module(rv.m.Filter)
        g >> f >> inner.output
        inner.attach_pattern(fill(rv.Pattern(lines=2, tracks=2), 5))
        mm.user_defined_controllers = count
        for i in range(min(count, 4)):
            mm.mappings.values[i].module = (g, f)[i % 2].index
            mm.mappings.values[i].controller = i
        for i, label in enumerate(labels):
            mm.user_defined[i].label = label
        # a label on a controller that is not attached is not written
        if count < 96:
            mm.user_defined[count].label = "unattached"
        yield f"mapped-{count}", mm


def check_projects():
    for label, p in sample_projects():
        want = expected_project(p)
        same_chunks(p.chunks(), want, f"Project.chunks[{label}]")
        blob = p.read()
        check(blob == b"".join(encode(want)), f"Project.read[{label}]")
        f = io.BytesIO()
        p.write_to(f)
        check(f.getvalue() == blob, f"Project.write_to[{label}]")
        if p.modules:
            verify_stream(blob, f"project[{label}]")
        else:
            check(decode(blob) == want, f"project[{label}]: decodes to the header only")
        ids = [cid for cid, _ in want]
        check(ids.count(b"PEND") == len(p.patterns), f"{label}: one PEND per pattern slot")
        check(ids.count(b"SEND") == len(p.modules), f"{label}: one SEND per module slot")
    check(rv.Project.MAGIC_CHUNK == (b"SVOX", b""), "Project.MAGIC_CHUNK")

    # chunks() is a lazy generator: attribute changes made while iterating show up
    p = rv.Project()
    it = p.chunks()
    check(next(it) == (b"SVOX", b""), "first chunk is the magic")
    p.initial_bpm = 99
    p.current_line = 17
    p.timeline_position = 4
    rest = list(it)
    d = dict(rest)
    check(d[b"BPM "] == u32(99) and d[b"PATL"] == u32(17), "lazy header fields")
    check(d[b"TIME"] == i32(4) and b"REPS" not in d, "lazy optional fields")

    # error types are unchanged
    for attr_name, value in [
        ("initial_bpm", -1),
        ("modules_x_offset", 2**31),
        ("current_line", 2**32),
        ("restart_position", 2**31),
        ("sunvox_version", (1, 2, 3)),
        ("flags", "x"),
    ]:
        p = rv.Project()
        setattr(p, attr_name, value)
        try:
            p.read()
        except struct.error:
            pass
        else:
            check(False, f"Project.{attr_name}={value!r} must raise struct.error")
    p = rv.Project()
    p.name = None
    try:
        p.read()
    except AttributeError:
        pass
    else:
        check(False, "name None must raise AttributeError")
    p = rv.Project()
    p.modules.append(rv.m.Module())
    try:
        p.read()
    except RuntimeError:
        pass
    else:
        check(False, "base Module in a project must raise RuntimeError")
    # the failure happens lazily, after the header has been produced
    p = rv.Project()
    p.current_track = -1
    got = []
    try:
        for c in p.chunks():
            got.append(c[0])
    except struct.error:
        check(got[-1] == b"PATN", "chunks before the failing one are produced")
    else:
        check(False, "negative PATT must raise struct.error")


def check_synths():
    check(rv.Synth.MAGIC_CHUNK == (b"SSYN", b""), "Synth.MAGIC_CHUNK")
    for bad in (rv.Synth(), rv.Synth(None)):
        try:
            bad.read()
        except EmptySynthError:
            pass
        else:
            check(False, "empty synth must raise EmptySynthError")
        it = bad.chunks()  # creating the generator does not raise
        try:
            next(it)
        except EmptySynthError:
            pass
        else:
            check(False, "empty synth must raise EmptySynthError lazily")
    for mtype, cls in sorted(MODULE_CLASSES.items()):
        for k, kw in enumerate(MODULE_KW[:3]):
            mod = cls(**kw)
            s = rv.Synth(mod)
            s.sunsynth_version = (2, 1, k, 9)
            want = expected_synth(s)
            same_chunks(s.chunks(), want, f"Synth.chunks[{mtype}/{k}]")
            blob = s.read()
            check(blob == b"".join(encode(want)), f"Synth.read[{mtype}/{k}]")
            verify_stream(blob, f"synth[{mtype}/{k}]")
            ids = [cid for cid, _ in want]
            check(ids[-1] == b"SEND" and ids.count(b"SEND") == 1, "synth ends in SEND")
            check(b"SLNK" not in ids and b"SXXX" not in ids, "no project-only chunks")
            attached = [n for n, c in mod.controllers.items() if c.attached(mod)]
            check(ids.count(b"CVAL") == len(attached), f"{mtype}: CVAL per attached ctl")
            if mod.chnk:
                declared = int.from_bytes(dict(want)[b"CHNK"], "little")
                check(declared == mod.chnk, f"{mtype}: CHNK value")
    # a module attached to a project still serializes as a plain synth
    p = rv.Project()
    amp = p.new_module(rv.m.Amplifier, x=7)
    s = rv.Synth(amp)
    same_chunks(s.chunks(), expected_synth(s), "Synth of attached module")
    # clone() goes through Synth
    amp2 = amp.clone()
    check(amp2.volume == amp.volume and amp2.parent is None, "Module.clone")


def check_metamodules():
    for label, mm in sample_metamodules():
        check(mm.chnk == 104 and type(mm.chnk) is int, f"MetaModule.chnk [{label}]")
        s = rv.Synth(mm)
        want = expected_synth(s)  # recomputes controller attachment first
        same_chunks(mm.specialized_iff_chunks(), expected_metamodule_chunks(mm), f"MetaModule.specialized_iff_chunks[{label}]")
        same_chunks(s.chunks(), want, f"Synth(MetaModule)[{label}]")
        for cid, data in want:
            if cid == b"CHNM":
                check(int.from_bytes(data, "little") < 104, "CHNM below declared CHNK")
        blob = s.read()
        verify_stream(blob, f"metamodule[{label}]")
        outer = rv.Project()
        outer.attach_module(mm)
        mm >> outer.output
        same_chunks(outer.chunks(), expected_project(outer), f"Project(MetaModule)[{label}]")
        back = rv.read_sunvox_file(io.BytesIO(blob)).module
        check(
            [c.label for c in back.user_defined if c.attached(back)]
            == [c.label for c in mm.user_defined if c.attached(mm)],
            f"labels survive [{label}]",
        )
        check(back.project.read() == mm.project.read(), f"embedded project survives [{label}]")
    # loading: label chunk numbers start at 8, unknown low numbers are ignored
    mm = rv.m.MetaModule()
    from rv.modules.module import Chunk as ModuleChunk

    for chnm, chdt in [(8, b"first\0junk"), (8 + 95, b"last"), (5, b"ignored\0")]:
        c = ModuleChunk()
        c.chnm, c.chdt = chnm, chdt
        mm.load_chunk(c)
    check(mm.user_defined[0].label == "first", "label 0 loaded")
    check(mm.user_defined[95].label == "last", "label 95 loaded")
    c = ModuleChunk()
    c.chnm, c.chdt = 8 + 96, b"x"
    try:
        mm.load_chunk(c)
    except IndexError:
        pass
    else:
        check(False, "label number past the end must raise IndexError")
    c = ModuleChunk()
    c.chnm, c.chdt = 1, b"".join(u16(i) + u16(i + 1) for i in range(4))
    mm.load_chunk(c)
    check(len(mm.mappings.values) == 96, "mapping array padded to 96")
    check((mm.mappings.values[3].module, mm.mappings.values[3].controller) == (3, 4), "mapping loaded")
    c = ModuleChunk()
    c.chnm, c.chdt = 0, rv.Project().read()
    mm.load_chunk(c)
    check(isinstance(mm.project, rv.Project), "embedded project loaded")


# ---------------------------------------------------- independent decoder


def decode(blob):
    """Parse a chunk stream; must consume every byte."""
    pos, out = 0, []
    while pos < len(blob):
        assert pos + 8 <= len(blob), "truncated chunk header"
        cid = blob[pos : pos + 4]
        size = int.from_bytes(blob[pos + 4 : pos + 8], "little")
        pos += 8
        assert pos + size <= len(blob), "truncated chunk payload"
        out.append((cid, blob[pos : pos + size]))
        pos += size
    assert pos == len(blob)
    return out


def verify_stream(blob, label):
    chunks = decode(blob)
    check(chunks[0][0] in (b"SVOX", b"SSYN") and chunks[0][1] == b"", f"{label}: magic")
    is_project = chunks[0][0] == b"SVOX"
    pat = {}
    mod = None
    chnk = None
    for cid, data in chunks[1:]:
        if cid == b"PDTA":
            pat = {"PDTA": data}
        elif cid in (b"PCHN", b"PLIN"):
            pat[cid.decode()] = int.from_bytes(data, "little")
            check(len(data) == 4, f"{label}: {cid} width")
        elif cid == b"PEND":
            if "PDTA" in pat:
                check(
                    len(pat["PDTA"]) == pat["PCHN"] * pat["PLIN"] * 8,
                    f"{label}: PDTA is lines x tracks x 8",
                )
            pat = {}
        elif cid == b"SFFF":
            mod = {"cval": 0, "cmid": None}
            chnk = None
        elif cid == b"SNAM":
            check(len(data) == 32, f"{label}: SNAM is 32 bytes")
        elif cid == b"CVAL":
            check(len(data) == 4, f"{label}: CVAL width")
            mod["cval"] += 1
        elif cid == b"CMID":
            mod["cmid"] = data
        elif cid == b"CHNK":
            chnk = int.from_bytes(data, "little")
        elif cid == b"CHNM":
            num = int.from_bytes(data, "little")
            check(chnk is not None and num < chnk, f"{label}: CHNM {num:#x} < CHNK")
        elif cid == b"CHDT" and data[:4] in (b"SVOX", b"SSYN"):
            verify_stream(data, label + "/embedded")
        elif cid == b"SEND":
            if mod is not None:
                if mod["cmid"] is not None:
                    check(
                        len(mod["cmid"]) == 8 * mod["cval"],
                        f"{label}: 8 binding bytes per controller value",
                    )
                else:
                    check(mod["cval"] == 0, f"{label}: CMID present with CVALs")
            mod = None
    check(chunks[-1][0] == b"SEND", f"{label}: ends with SEND")
    if is_project:
        check(pat == {}, f"{label}: every pattern slot closed by PEND")
    return chunks


# ------------------------------------------------------------------- corpus


def build_corpus():
    corpus = {}
    root = Path("tests/files")
    for path in sorted(root.rglob("*.sun*")):
        with path.open("rb") as f:
            obj = rv.read_sunvox_file(f)
        corpus["file:" + path.relative_to(root).as_posix()] = obj.read()

    for mtype, cls in sorted(MODULE_CLASSES.items()):
        if mtype == "Output":
            continue
        corpus["synth:" + mtype] = rv.Synth(cls()).read()
        corpus["synth-kw:" + mtype] = rv.Synth(cls(**MODULE_KW[1])).read()

    p = rv.Project()
    p.name = "Corpus é"
    p.initial_bpm = 140
    p.modules_x_offset = -77
    p.timeline_position = 12
    p.restart_position = -3
    p.receive_sync_other = 5
    mods = []
    for i, (mtype, cls) in enumerate(sorted(MODULE_CLASSES.items())):
        if mtype == "Output":
            continue
        kw = dict(MODULE_KW[i % len(MODULE_KW)])
        kw.update(x=10 * i, y=-5 * i)
        mods.append(p.new_module(cls, **kw))
    for a, b in zip(mods, mods[1:]):
        a >> b
    mods[-1] >> p.output
    mods[0] >> p.output
    mods[3] >> mods[1]
    p.connect(~mods[0], mods[1])
    p.attach_module(None)
    mods[2].controller_midi_maps[next(iter(mods[2].controllers))].cmid_data = bytes(
        [3, 1, 2, 0, 7, 0, 0, 0]
    )
    for seed, (lines, tracks) in enumerate([(4, 2), (32, 4), (1, 1), (16, 32)], 21):
        p.attach_pattern(fill(rv.Pattern(lines=lines, tracks=tracks, x=seed, y=-seed), seed))
    p.attach_pattern(None)
    p.attach_pattern(rv.PatternClone(source=1, x=64, y=32))
    p.attach_pattern(rv.Pattern(name="named", lines=3, tracks=3, fg_color=(9, 8, 7)))
    corpus["project:all-modules"] = p.read()

    mm = rv.m.MetaModule(name="meta")
    inner = mm.project
    g = inner.new_module(rv.m.Generator)
    g >> inner.output
    inner.attach_pattern(fill(rv.Pattern(lines=2, tracks=2), 5))
    mm.user_defined_controllers = 2
    mm.mappings.values[0].module, mm.mappings.values[0].controller = g.index, 0
    mm.mappings.values[1].module, mm.mappings.values[1].controller = g.index, 2
    mm.user_defined[0].label = "Vol"
    mm.user_defined[1].label = "Pan é"
    corpus["synth:metamodule-mapped"] = rv.Synth(mm).read()
    outer = rv.Project()
    outer.attach_module(mm)
    mm >> outer.output
    corpus["project:metamodule"] = outer.read()

    s = rv.m.Sampler(name="smp")
    for slot, (fmt, ch, n) in enumerate(
        [
            (rv.m.Sampler.Format.int8, rv.m.Sampler.Channels.mono, 16),
            (rv.m.Sampler.Format.int16, rv.m.Sampler.Channels.stereo, 32),
            (rv.m.Sampler.Format.float32, rv.m.Sampler.Channels.stereo, 64),
        ]
    ):
        smp = s.Sample()
        smp.format, smp.channels = fmt, ch
        smp.data = bytes((i * 7 + slot) & 0xFF for i in range(n))
        smp.loop_start, smp.loop_len, smp.rate = slot, n // 8, 22050 * (slot + 1)
        smp.name = b"s%d" % slot
        s.samples[slot * 3] = smp
    s.volume_envelope.points.append((0x200, 0x1000))
    s.effect = rv.Synth(rv.m.Echo())
    corpus["synth:sampler-samples"] = rv.Synth(s).read()
    return corpus


GOLDEN = {
    # GOLDEN-BEGIN
    "file:amplifier.sunsynth": "419f5717e558efbc145eafac3343bdf2d35c15e315096084645b2d1a33a6287f",
    "file:analog-generator.sunsynth": "76ce674ef1db6717af60bca262c48e2ae32ec83a7636dccb853bc1ad85227188",
    "file:compressor.sunsynth": "7e4fa89c60186b9a11f55e88daeb6b5d2bac23323ca45ee82f245f052a5f553a",
    "file:dc-blocker.sunsynth": "1312bb3c1626a845ea4227ba12efa0f311059f1fbb6ab3bfbd1ee98843fc8389",
    "file:delay.sunsynth": "32ee6c78f799b00c67608a7e318eb790d8d380f1368cbf2170a804ed43bf2701",
    "file:distortion.sunsynth": "e9b59951b8753b41f51c8c4fd81b0277d157e96ebcd7c22862a9b19b3a21c7c2",
    "file:drum-synth.sunsynth": "6d8ad0364d91a386d19b24cf6aac3e52ce1123beb5afa13f12e918675b14a330",
    "file:echo.sunsynth": "a51866593f018ff999a6757dea5cebf5abc6b35964f3c933afa6a5af91c2d1ae",
    "file:empty.sunvox": "0b58f6338b84cd2a3802ae4d4498957e41279625a5de1be6d0a06cbcba69d362",
    "file:eq.sunsynth": "c6e8877e93f69f7fbaa3db881782d717aaf87f2184bd1da507a877cf1426428f",
    "file:feedback.sunsynth": "09a1d368f8d9743977592b9070f4767440720ff0c8a599f1f1723a6691648e62",
    "file:fft.sunsynth": "a532a1e449a579c5fa56fcddf849dcb0ce32022dc019781a6139530a435e84c4",
    "file:filter-pro.sunsynth": "87b217d025f588bb700155518020aa2579a2938edd6ed9a28b8ee57622439e78",
    "file:filter.sunsynth": "ccf4f2af334e7d85df9803397477e097fd2d69fc8a830015b515cc84da59bbcb",
    "file:flanger.sunsynth": "658f4783cc9c248ebe9f31e3b65a0d34a97fbae3ec7358b87a4b0c46cc2d8544",
    "file:fmx.sunsynth": "d2b0427af5abec18927f4138664f41c293a8ee7b143802efbea3f76275b8d364",
    "file:generator.sunsynth": "16aefebfbfb606f8c608f0afc7288b9d3b1925389cb52f43a9bc1227465a9a8b",
    "file:glide.sunsynth": "765d995ffed7b9491e2c97758fca4e459ed7d39c14b351bfff0ccf47726816dc",
    "file:gpio.sunsynth": "15c3990e39ba8c2d0b6f5ecd8d5da5d0e9714f2d675ce4bd040658257c08f0b3",
    "file:input.sunsynth": "025ed41f84a149cb59b48ef6bc4efb31fe36af6383bbe9397ca83be9a0f40967",
    "file:issue109/filter_lfo.sunvox": "7c07bab808ce3d271b3487c168f306806aa4cc6fbd6d311d1dd5fc4dfa6c5186",
    "file:issue41/sample.sunvox": "31504b7ddfd906224ba3855da45df53d8c0c7e08a652e0979fa629fe578259ad",
    "file:issue54/test1.sunvox": "915266c46c96537b1ad7473ccf800be6bc4bf06024664c3862b97cb13cb3f38b",
    "file:kicker.sunsynth": "33abb29c4834873a1df6cdaa6f888dd53bdeb8bcfeb1397168d1a49d5945383a",
    "file:lfo.sunsynth": "efa89196cf44067f36c946f4a558b6d1614affdc3f7af5ec72e2293a34dec9e6",
    "file:loop.sunsynth": "57eca85729cb1af475e5c57d2cb92872e462df01b2b4a92517f19f8e2617f35d",
    "file:metamodule-option-78.sunsynth": "76bf484725a761c100dc6c67f19bcdbf4ce8bf2c17b54729ae61641755f87383",
    "file:metamodule-option-79.sunsynth": "8d8a050747174fd9f658a8b2acf5f67536839f214be62974bb16473150b0dc67",
    "file:metamodule-option-7a.sunsynth": "36db7cdd1df60d034c827704d21b4449d0c82c082882bb122a291c788692c586",
    "file:metamodule.sunsynth": "55f5fd0bfba897453b071068bb34950f29667e951e5553cfba958d9cd2cf5f2c",
    "file:modulator.sunsynth": "22d3e9b37c36f8818d83036c33631c945ab62376447cf807be439354a787fd41",
    "file:module-multiselect.sunvox": "8fa3a4e0ed3b0d49c42947823b271d6c73563a18e471d5ef68a4f8326c196d35",
    "file:multictl.sunsynth": "66b009f3228bb000bd08f11fb27cd069d41206978fcb90f95d1dddb22a0ca699",
    "file:multisynth-random-off.sunsynth": "b4ccf1b6f4e1ed62c7ebf9664f9d1c061c8a2477b29e423b1bfe4b176b73c1b7",
    "file:multisynth-random1.sunsynth": "a19a3f40a8bd840e62b0b5259b46667adb93fd7a687706e603b4466e7cc2ab1f",
    "file:multisynth-random2.sunsynth": "98bf489a0febc83d29b915118afc88bcd2cd25b45773c7f7d0a99adba0cf14f0",
    "file:multisynth-random3.sunsynth": "b7fbddfa4ed104bfe889dc1d26cd01874ac5fc3ce10348fafe9ea891b4697964",
    "file:multisynth.sunsynth": "87df69077399b6112a3e3ed7adcb70ef406f593cfa546e8ad5310c89b347b125",
    "file:pitch-shifter.sunsynth": "4c58b5705344a08e159e52737b3aa4c90e8e7cb3c4089d4d817ac763ffd2069a",
    "file:pitch2ctl.sunsynth": "73252da465dfcc2f5993dc791c31052078656f5fccb6338f4a868ca3b46019ac",
    "file:reverb.sunsynth": "90db4c635458e8fe34ef4ba42321ea0df8ba4273fc15413608f0a8938e19bc54",
    "file:sampler.sunsynth": "3b0f2915c2ec0456c0932e701153dc1fe981399cffe9631e080af6bc8b9736a0",
    "file:single-fm.sunvox": "ca3eb0ed7d25ba31f4e96888699bf1006de9b262c460da5671fca92f5cfa12c3",
    "file:smooth.sunsynth": "673c38cfc74b338e6936d75c9292d2f2e6e735c6bf4921cb9c65afa7e2aaa7a6",
    "file:sound2ctl.sunsynth": "fd4a139c6dc96ebf2eecbaea691f7f39f218c278fe8286f28fb5ec5462429b24",
    "file:spectravoice.sunsynth": "112111c76bcab011dcf9c0396628ecb1e27d6f0241430855793ffe54d423f1af",
    "file:supertracks.sunvox": "1a4f41f039f94d444739fff95eaf10d53a94d0d0dd44e85d154f02043dc61de2",
    "file:velocity2ctl.sunsynth": "5fe6662a1ac4bc70daa3ed2531f12cb06c93da5080a5d77c23488d6fd72f6ca6",
    "file:vibrato.sunsynth": "274b70fa0e6cf0ab0d3b04b710e8e3a36c74b90c0581420abcd9e545d6c5f660",
    "file:vocal-filter.sunsynth": "f62bcc37659869aaa0bd842d6ccadbe08de52c7614c3216ddfe77d44da54ffdd",
    "file:vorbis-player.sunsynth": "f18896c9f30ee44ad1a83493693bbea98efece662aed18942d6044b3ee9a60ac",
    "file:waveshaper.sunsynth": "a4d25d2c53431359abb5c05e50c80389578a5a39f5fd6076116a02a6db1b1a00",
    "synth:ADSR": "1b3b645f5435a83fcd9951abe4b67184a70c36739474449f32a1a9670a190578",
    "synth-kw:ADSR": "a8a568f785e209461361808826ccb70c24e61a4dfac220c495a46e5fe94ccbcb",
    "synth:Amplifier": "a82b67440909469045f9eb962d801d757ee6a1985dc839317405eefa0519f6d9",
    "synth-kw:Amplifier": "3dbe5aa0a78b3adff0d8f1be2bf8a048956db88a744ce46ea2a301e75bc4cdc7",
    "synth:Analog generator": "4e945946da60253c3bf66f2fe678f86183c5ff99167c114dfb26d7c467739850",
    "synth-kw:Analog generator": "8370130c613f544dc4963003c3ee4371f18e8d45aa7190122da8de90ce923820",
    "synth:Compressor": "827c37689c933bd0d5319b9cc1a7a8d3894dca6986a030c1cc7c8fd156faa02f",
    "synth-kw:Compressor": "bdae545e727f742f34100105325e3ae795048609897c1aa790bc294dd738b04f",
    "synth:Ctl2Note": "18e51f6894b194267a530ba14ed12d771876fb8234b63d34e13638eb1b067788",
    "synth-kw:Ctl2Note": "868ca268874d80356fbd0d7e250a0855c84bf7ffb3181dc4d536cc55522a5194",
    "synth:DC Blocker": "bef64d4a72e57df0d19cedbeae7fca2ea50c876220b0dfac98d998ee1da8ba68",
    "synth-kw:DC Blocker": "fb16ae68a5069eedb4b95e430cea8ccd8c0f46c56e8970e89697fb286067c4a1",
    "synth:Delay": "9a5599b6883d171322b6138317f9357433680a188f182a49153fe38a2021c405",
    "synth-kw:Delay": "71b65bae33dbf5fac1fcb8e3dfa0f7dbba45d3aa318e40894c53a0b01034684c",
    "synth:Distortion": "600f1d0ce8ebfad3bd422a987fc515b6d1f7baa6530dedf3de4478c4dc483446",
    "synth-kw:Distortion": "04d4ea609e5430adf77e1fe8052f31814f7e57f4cb13a33a70155d4d33193bfd",
    "synth:DrumSynth": "4e2a7484cbd34df21e589ac9f198a556406d2355840e434948b49aea50dbe791",
    "synth-kw:DrumSynth": "6b1f4cedf53d2db65219c9c56e7e4b064b6163ea657b546be272910e317a0b74",
    "synth:EQ": "0b7a6c926d7ca8379912bfe6325e1445c3d0732025f6751bd1b61b6a002ca25e",
    "synth-kw:EQ": "97667f0c72c13fb238cc0d69a18f27bcede1428c3aabbfaeff6050f832603416",
    "synth:Echo": "93015698fbbbad014a4b0d2586748178b1cc2cc3fd2041526862c073791db950",
    "synth-kw:Echo": "bd3eb36a4201ef51a9d1aa9962f161bd2ebc4eb03f5cf2ed2bdbd9d1a6cc3462",
    "synth:FFT": "7a04b190423a0ac9430ba3cd3c27bd72f235a45c2fff80042fedc827670ef414",
    "synth-kw:FFT": "0f2d5b14a20912bac87afafac115bd99cba32ab4ee8402cd692dc4c04753a81e",
    "synth:FM": "3a22416b72efa22a5d595aa41d843a47b04e7885d5bf9c53ea8e2f0650aa0eab",
    "synth-kw:FM": "7a052eceeaf517e27c80d09e240ac6d2c7b6649da4b94138a28e203a21856107",
    "synth:FMX": "3eb51b3667ad622167642c183e995b2241b25fd43bde8a081aa1392189f1a2dc",
    "synth-kw:FMX": "a615883e7f2091b2281a6edf9476d78044d3c3cb09ce329b6c57d0ef3837e926",
    "synth:Feedback": "f4064e3c4244069b37b6da811538d79245882a58503eed9fe2ba201f0ab176b7",
    "synth-kw:Feedback": "174b6a64b74be7819dbc6cdff1d8cc65eea09d8600c729d72a00aeceb43fcf8f",
    "synth:Filter": "4248ce2bb28da3f7187b60774daa292a505ca44555985142d5285bc2e89127b7",
    "synth-kw:Filter": "e07b5ef8d32b00ce0031a6b1baba916080da5b0a4f9e6ef2c3513113d7d388c1",
    "synth:Filter Pro": "9ffe3426097ee40b082e116f05c3dc2f9e18ab2ef0d9a6d2f0886bd4111e0e61",
    "synth-kw:Filter Pro": "3d0822d5cc25689ea6e0bd307f79894709dec3eccb5febf69bc260c342e7f100",
    "synth:Flanger": "492115489c33ab05c3310b3fb788ceba8f9017ec9b89313151c840bae5173b9d",
    "synth-kw:Flanger": "1e2b2a7a146d8a60311dd1fdb25157a6bcd029a08841cff4084582956fdf0149",
    "synth:GPIO": "d72f4b49539630dc0059cb6a22edee97898248daae2007d813c6a4834e89322c",
    "synth-kw:GPIO": "8d6e8f7b02c705114fb4fd774e9c145db6e1d5bdd6130f7a1cf7bc6532f76b2f",
    "synth:Generator": "29b07081976df45b68b61b88d0a7eb5ee02e394ae8ef965389ab35efd1b19541",
    "synth-kw:Generator": "f046245f08e5b4267a575438e54932386f155a705ef3d7c853af03674ab5ae95",
    "synth:Glide": "a07b02cf584eee569edeb63de96ed035d4c83af4c5d8b97d0dd16c3685002f16",
    "synth-kw:Glide": "6a299db16a873bf7835a675fd2ef687dabcdf71cccc961bb18ad4ae148966a13",
    "synth:Input": "5b8544399d18a2e0352984ec1b8bc77e9dcd5a0b469f6734b5fa14c0d3763313",
    "synth-kw:Input": "e9caa8b45a58a7fa3091795dab7344a1004507d9d45909e1f7aadaa3dcfae421",
    "synth:Kicker": "9b277d344f2097ccb480d67127d9ac781717c9df13b3c2b15697ebeb5f0d98b3",
    "synth-kw:Kicker": "6ea2fdadc3c840d3527bf87f863e50fd1ec9bfe14dcc9dbdacce6e7209ef7162",
    "synth:LFO": "fe4dccdc770853093ea6be236ed8432b1f54dd6f6db949ecfb3cc8a7364831a1",
    "synth-kw:LFO": "8c67a0a2f88a19029ac0eb981ad189e0711862149bfb870464c4d0f63d5f0324",
    "synth:Loop": "2f8b6071edc1f0b27423e082d6281fadd6a2e110e2cba0b7715e8a5b2e46bf4f",
    "synth-kw:Loop": "fb5f63ead0863f7af321aaa769bdd3a98e6f7b6ff0e40b1a77096656816a028a",
    "synth:MetaModule": "5db044749e2b1bb0a49f0007da12bbfa468948c2b76e8346887f5f9f81a54c16",
    "synth-kw:MetaModule": "9449974413ba13cb9dfe5afe21ae3b9d1fce0fa46dbf6098196c7538c79c8b50",
    "synth:Modulator": "9a5a32cc5999ea363ebdfc1b0e48a92cd56a2c5792f1313f8b2bfa095a1d184a",
    "synth-kw:Modulator": "16f679177bcb72013194e655b29f31b8d9171e4220c17b27f6b4a0bb6a34c907",
    "synth:MultiCtl": "f5eaa24af7b072294fb328181fe8ea1610330a40f0cfda80103ae675f923e87d",
    "synth-kw:MultiCtl": "0ead63c3a33da4512636cd80044f03238fc3d9efcc4ec37a2d95172eb86465e0",
    "synth:MultiSynth": "0e07abfdde388212410d38351b44536fe92ccf7b456ad9e274799bb64856c3d4",
    "synth-kw:MultiSynth": "2cdb3f2247d149937726bad10db8c60cd69abdb348af5b5a8a079eaa1be438ef",
    "synth:Pitch Detector": "ccd462503fa985fc9cfed498e6705eca452459662a9ce5644d08f7a8cccbfb98",
    "synth-kw:Pitch Detector": "fdb73d58d44b4128f342624a6bc6193ac394af141b2887227c9af5310e42fefb",
    "synth:Pitch shifter": "3b35357d7ee87b0306a1995691f0675a23359458dd763651604c3bca7286deb8",
    "synth-kw:Pitch shifter": "e47f7540656dc925536195d0fbeb4114f887e23ab73df0bc01ac0ad768c4d898",
    "synth:Pitch2Ctl": "210e5a847b10e585c309344a0236657d14d20742e005eee9ec3299307846ad6e",
    "synth-kw:Pitch2Ctl": "9f1770b7c3ffaed18b0a4d32a820635596c010408caa65f274441d78990a527a",
    "synth:Reverb": "5bde254b6519fdfe0d9dfc5fece22f06e9ca595653a0f97b2e9305b6ae48c4f3",
    "synth-kw:Reverb": "bcad4c6441dfafd2296cb5faa6a984f0b37f2d69bb7908b34ca0926e1cefc7ce",
    "synth:Sampler": "c665ea9372f6fad33025e98226fec67d4f928acad9d40a7a0fa087e2e9016d17",
    "synth-kw:Sampler": "cb3943fdd7a3df3df1c461813db232080671812924c28fe364a0650e1648c638",
    "synth:Smooth": "0fb36ec4d552f84a3df0b5f328475d4605400d925961b2c7b3bdf4060656f844",
    "synth-kw:Smooth": "84611ace5b43a4322c1dd344b447ca6c2b113bb157c54ed822a3f260b7593885",
    "synth:Sound2Ctl": "3b9ca827c2cc84a4a02ec76a35f3bcb0f756d6ecbb0b9cee4f17161869540b13",
    "synth-kw:Sound2Ctl": "c60d5919d6565a5ae09ba01dd91f69ebc1f5a7792775d4a6ab9ebc309abe7551",
    "synth:SpectraVoice": "09cc4542f66ff31493fc520e3412d17e0ef3b850a14ba31ee355942cd9604f23",
    "synth-kw:SpectraVoice": "35dac3f724b8bf5c6c88120c3a3d43ce4726bdf5398d4a6f994bedb4eead55d9",
    "synth:Velocity2Ctl": "415dde76f688941f1931489fbc32dd4b958829209b834d272770f4b88328c1ca",
    "synth-kw:Velocity2Ctl": "b9be3c6eff5ca8ecda040b93496f3400ffc8611fb8146c76ced46e479297d60a",
    "synth:Vibrato": "31acbc1f942264cc70ce8c380618ced8aca91d34521d360d71b6106bcfa80e90",
    "synth-kw:Vibrato": "cdff27a0f036d770e07b3ed95f2aee96abfa159c0ccf445f6ca5948682914c63",
    "synth:Vocal filter": "b71898aba0fef0a283b24ff127932376e99c636811fbc9eb05f4273b761ad8c7",
    "synth-kw:Vocal filter": "7a243bb2af517a525b785d0cea4b82ea5b1a7ee98f36607f61a09067eaf5c7fa",
    "synth:Vorbis player": "9a4735868b1e1c0ff655eae8f2ca697a5b8e6769e1511ff6a3fcbb1191aea418",
    "synth-kw:Vorbis player": "191c24a8f3bcadff532cb0c4024a1c5f0af98037018543ff8ed3d1fe864346d1",
    "synth:WaveShaper": "adfbbe8dfb07dac4b248739990b9e32269fab9e61a840925fc696c18cca0b99a",
    "synth-kw:WaveShaper": "ee80fd157a34027a41b76fd10d77493ba5e3d6d1b47eb5f5310319783cfbc77b",
    "project:all-modules": "b6882a9a4671ce2429030d0e330ee65b7d2cfd1142436dccde0f73904cc4e0c7",
    "synth:metamodule-mapped": "bcdbe2d3f75c6f979defde1751cb947e6fbd13abd53109e13f2c8dd0959ea2ca",
    "project:metamodule": "4e1534118d058bd45615d48f63df3a414a2dfaf6d4bcde20f04de69e2178bbfd",
    "synth:sampler-samples": "f31ffc6fad45db7d961d571113f756dcefe4a7fa0c334ce466ef7a4d47c864b8",
    # GOLDEN-END
}


def check_corpus():
    corpus = build_corpus()
    again = build_corpus()
    if "--print-golden" in sys.argv:
        for label, blob in corpus.items():
            print(f'    "{label}": "{hashlib.sha256(blob).hexdigest()}",')
        return
    check(set(corpus) == set(GOLDEN), "corpus labels match recorded digests")
    for label, blob in corpus.items():
        check(blob == again[label], f"{label}: deterministic output")
        verify_stream(blob, label)
        digest = hashlib.sha256(blob).hexdigest()
        check(GOLDEN.get(label) == digest, f"{label}: bytes differ from recorded digest")
        # the library's own reader agrees as well, and rewriting is stable
        obj = rv.read_sunvox_file(io.BytesIO(blob))
        if not label.startswith("project:all-modules"):
            check(obj.read() == blob, f"{label}: write/read/write is stable")


def main():
    check_projects()
    check_synths()
    check_metamodules()
    check_corpus()
    if FAILURES:
        for msg in FAILURES[:40]:
            print("FAIL:", msg)
        print(f"{len(FAILURES)} failure(s)")
        sys.exit(1)
    print("PASS")


if __name__ == "__main__":
    main()
