import enum
import functools
import hashlib
import io
import logging
import os
import struct
import sys
import types

logging.disable(logging.CRITICAL)

from rv.api import read_sunvox_file  # noqa: E402

FILES = os.path.join(os.getcwd(), "tests", "files")
# back references, and a process-wide creation counter on controllers
PLAIN_CALLABLES = (
    type,
    types.FunctionType,
    types.MethodType,
    types.BuiltinFunctionType,
    functools.partial,
)
SKIP_ATTRS = {"parent", "project", "pattern", "_order"}


# ---- independent chunk codec (does not use rv.lib.iff) -------------------
def parse(blob):
    out, pos = [], 0
    while pos + 8 <= len(blob):
        name = blob[pos : pos + 4]
        (size,) = struct.unpack("<I", blob[pos + 4 : pos + 8])
        out.append((name, blob[pos + 8 : pos + 8 + size]))
        pos += 8 + size
    assert pos == len(blob), "fixture is not a clean chunk stream"
    return out


def encode(chunk_list):
    return b"".join(
        name + struct.pack("<I", len(data)) + data for name, data in chunk_list
    )


def u32(v):
    return struct.pack("<I", v)


def i32(v):
    return struct.pack("<i", v)


def load(chunk_list_or_bytes):
    blob = chunk_list_or_bytes
    if not isinstance(blob, (bytes, bytearray)):
        blob = encode(blob)
    return read_sunvox_file(io.BytesIO(bytes(blob)))


# ---- deterministic deep snapshot of public state --------------------------
def snap(obj, stack=()):
    if obj is None or isinstance(obj, (bool, str)):
        return obj
    if isinstance(obj, enum.Enum):
        return ("E", type(obj).__name__, snap(obj.value))
    if isinstance(obj, (int, float)):
        return obj
    if isinstance(obj, (bytes, bytearray, memoryview)):
        b = bytes(obj)
        return ("B", len(b), hashlib.sha1(b).hexdigest())
    if hasattr(obj, "tobytes") and hasattr(obj, "dtype"):
        return ("A", str(obj.dtype), tuple(obj.shape), hashlib.sha1(obj.tobytes()).hexdigest())
    if id(obj) in stack:
        return "<cycle>"
    stack = stack + (id(obj),)
    if isinstance(obj, (list, tuple)):
        return [type(obj).__name__] + [snap(x, stack) for x in obj]
    if isinstance(obj, (set, frozenset)):
        return ["set"] + sorted((snap(x, stack) for x in obj), key=repr)
    if isinstance(obj, dict):
        return ["dict"] + sorted(
            ((snap(k, stack), snap(v, stack)) for k, v in obj.items()), key=repr
        )
    if isinstance(obj, PLAIN_CALLABLES):
        return ("callable", getattr(obj, "__qualname__", type(obj).__name__))
    names = set()
    if hasattr(obj, "__dict__"):
        names.update(vars(obj))
    for klass in type(obj).__mro__:
        slots = getattr(klass, "__slots__", ())
        if isinstance(slots, str):
            slots = (slots,)
        names.update(s for s in slots if s not in ("__weakref__", "__dict__"))
    fields = []
    for name in sorted(names):
        if name in SKIP_ATTRS:
            continue
        try:
            value = getattr(obj, name)
        except AttributeError:
            continue
        fields.append((name, snap(value, stack)))
    return ("O", type(obj).__name__, fields)


def digest(value):
    return hashlib.sha256(repr(value).encode("utf-8")).hexdigest()


def outcome(chunk_list_or_bytes):
    """Snapshot of the loaded object, or the exception type name."""
    try:
        return snap(load(chunk_list_or_bytes))
    except Exception as exc:  # noqa: BLE001
        return ("EXC", type(exc).__name__)


def fixture_paths(suffixes=(".sunvox", ".sunsynth")):
    found = []
    for root, _dirs, names in os.walk(FILES):
        for name in names:
            if name.endswith(suffixes):
                found.append(os.path.join(root, name))
    return sorted(found)


CHECKS = []


def check(label, cond):
    CHECKS.append((label, bool(cond)))
    if not cond:
        print("FAIL:", label)


def finish(expected_digest, observed):
    got = digest(observed)
    if expected_digest is None:
        print("DIGEST", got)
    else:
        check("golden digest of all observed outcomes", got == expected_digest)
        if got != expected_digest:
            print("  got", got)
    bad = [label for label, ok in CHECKS if not ok]
    if bad:
        print("FAILED %d of %d checks" % (len(bad), len(CHECKS)))
        sys.exit(1)
    print("PASS (%d checks)" % len(CHECKS))


# ===========================================================================
# C04-2: ModuleReader chunk handlers (scalars, text, link lists, CVAL list).
# ===========================================================================
def cstr(text, width=None):
    raw = text.encode("utf-8") + b"\0"
    if width:
        raw = raw.ljust(width, b"\0")
    return raw


observed = []


def record(label, chunk_list):
    result = outcome(chunk_list)
    observed.append((label, result))
    return result


def synth(body, vers=(2, 1, 2, 1)):
    return [(b"SSYN", b""), (b"VERS", bytes(reversed(vers)))] + list(body)


def module_of(obj):
    return obj.module if type(obj).__name__ == "Synth" else None


OPTIONAL = [
    b"SNAM", b"SFIN", b"SREL", b"SXXX", b"SYYY", b"SZZZ", b"SSCL", b"SVPR",
    b"SCOL", b"SMII", b"SMIN", b"SMIC", b"SMIB", b"SMIP", b"SLNK", b"SLnK",
    b"CMID", b"CHNK",
]

# ---- 1. fixtures and their structure-preserving edits ---------------------
for path in fixture_paths():
    rel = os.path.relpath(path, FILES).replace(os.sep, "/")
    blob = open(path, "rb").read()
    chunk_list = parse(blob)
    base = record("fixture " + rel, blob)
    check("fixture loads " + rel, base[0] == "O")

    # unknown chunk at every position after the magic
    ok = True
    for pos in range(1, len(chunk_list) + 1):
        edited = chunk_list[:pos] + [(b"Qq#1", b"\xff" * (pos % 7))] + chunk_list[pos:]
        if outcome(edited) != base:
            ok = False
            check("unknown chunk at %d in %s" % (pos, rel), False)
            break
    check("unknown chunk at all %d positions in %s" % (len(chunk_list), rel), ok)

    # drop every optional module chunk in turn (all occurrences of one id)
    for cid in OPTIONAL:
        if any(c[0] == cid for c in chunk_list):
            record("drop %s %s" % (cid.decode(), rel), [c for c in chunk_list if c[0] != cid])

    if not rel.endswith(".sunsynth"):
        continue
    full = load(blob).module
    fresh = type(full)()
    cval_at = [i for i, c in enumerate(chunk_list) if c[0] == b"CVAL"]
    names = [n for n, c in fresh.controllers.items() if c.attached(fresh)]
    is_meta = type(full).__name__ == "MetaModule"
    if not is_meta:
        check("CVAL count matches controllers " + rel, len(cval_at) <= len(names))
    # truncate the CVAL list to every length
    for keep in range(len(cval_at) + 1):
        dropped = set(cval_at[keep:])
        edited = [c for i, c in enumerate(chunk_list) if i not in dropped]
        record("cvals[:%d] %s" % (keep, rel), edited)
        if is_meta:
            continue
        mod = load(edited).module
        check(
            "first %d controllers as in the full file %s" % (keep, rel),
            all(
                mod.controller_values[n] == full.controller_values[n]
                and type(mod.controller_values[n]) is type(full.controller_values[n])
                for n in names[:keep]
            ),
        )
        check(
            "remaining controllers keep defaults after %d CVALs %s" % (keep, rel),
            all(
                mod.controller_values[n] == fresh.controller_values[n]
                and type(mod.controller_values[n]) is type(fresh.controller_values[n])
                for n in names[keep:]
            ),
        )
    # more CVALs than the type has controllers: extras are ignored
    if cval_at:
        last = cval_at[-1]
        edited = chunk_list[: last + 1] + [(b"CVAL", i32(7)), (b"CVAL", i32(-1))] + chunk_list[last + 1 :]
        got = outcome(edited)
        if is_meta or len(cval_at) < len(names):
            # older file with fewer CVALs than today's type: extras do land
            observed.append(("extra cvals " + rel, got))
        else:
            check("extra CVALs ignored " + rel, got == base)
    # drop each single optional chunk occurrence -> documented default
    defaults = {
        b"SFIN": ("mod_finetune", 0), b"SREL": ("mod_relative_note", 0),
        b"SSCL": ("mod_scale", 256), b"SMIC": ("midi_out_channel", 0),
        b"SMIB": ("midi_out_bank", -1), b"SMIP": ("midi_out_program", -1),
        b"SXXX": ("x", 512), b"SYYY": ("y", 512), b"SZZZ": ("layer", 0),
    }
    for cid, (attr, default) in sorted(defaults.items()):
        edited = [c for c in chunk_list if c[0] != cid]
        mod = load(edited).module
        check("default %s without %s in %s" % (attr, cid.decode(), rel), getattr(mod, attr) == default)

# ---- 2. scalar encodings ------------------------------------------------------
def amp(extra, links=None):
    body = [(b"SFFF", u32(0x51)), (b"SNAM", cstr("amp", 32)), (b"STYP", cstr("Amplifier"))]
    body += list(extra)
    body.append((b"SEND", b""))
    return synth(body)


SIGNED = {
    b"SFIN": "mod_finetune", b"SREL": "mod_relative_note", b"SXXX": "x", b"SYYY": "y",
    b"SMIC": "midi_out_channel", b"SMIB": "midi_out_bank", b"SMIP": "midi_out_program",
}
UNSIGNED = {b"SZZZ": "layer", b"SSCL": "mod_scale"}
for cid, attr in sorted(SIGNED.items()):
    for value in (0, 1, -1, 255, -256, 2**31 - 1, -(2**31)):
        mod = load(amp([(cid, i32(value))])).module
        check("%s %d" % (cid.decode(), value), getattr(mod, attr) == value)
    record("short " + cid.decode(), amp([(cid, b"\x01\x02")]))
    record("long " + cid.decode(), amp([(cid, b"\x01\x02\x03\x04\x05")]))
    record("empty " + cid.decode(), amp([(cid, b"")]))
for cid, attr in sorted(UNSIGNED.items()):
    for value in (0, 1, 255, 256, 2**31, 2**32 - 1):
        mod = load(amp([(cid, u32(value))])).module
        check("%s %d" % (cid.decode(), value), getattr(mod, attr) == value)
    record("short " + cid.decode(), amp([(cid, b"\x01")]))
for value in (0, 1, 0x9A3202C2, 2**32 - 1):
    mod = load(amp([(b"SVPR", u32(value))])).module
    check("SVPR %d" % value, int(mod.visualization) == value)
    record("SVPR %d" % value, amp([(b"SVPR", u32(value))]))
for value in (0, 5, 2**32 - 1):
    mod = load(amp([(b"CHNK", u32(value))])).module
    check("CHNK %d" % value, mod._reader_chnk == value)
# flags: SFFF before STYP is OR-ed with the type's default flags
for value in (0, 0x49, 0x8051, 2**32 - 1):
    body = [(b"SFFF", u32(value)), (b"STYP", cstr("Amplifier")), (b"SEND", b"")]
    mod = load(synth(body)).module
    check("SFFF %x" % value, mod.flags == value | type(mod)().default_flags)
    out = load([(b"SVOX", b""), (b"VERS", b"\x01\x02\x01\x02"), (b"SFFF", u32(value)), (b"SEND", b"")])
    check("SFFF output %x" % value, out.modules[0].flags == value)
for value, (always, channel) in {
    0: (False, 0), 1: (True, 0), 2: (False, 1), 3: (True, 1), 0x21: (True, 16),
    2**32 - 1: (True, 2**31 - 1), 2**32 - 2: (False, 2**31 - 1),
}.items():
    mod = load(amp([(b"SMII", u32(value))])).module
    check("SMII %d" % value, (mod.midi_in_always, mod.midi_in_channel) == (always, channel))
    check("SMII types %d" % value, type(mod.midi_in_always) is bool and type(mod.midi_in_channel) is int)
mod = load(amp([(b"SCOL", b"\x01\xfe\x80")])).module
check("SCOL", mod.color == (1, 254, 128) and type(mod.color) is tuple)
record("short SCOL", amp([(b"SCOL", b"\x01\xfe")]))

# ---- 3. text chunks ---------------------------------------------------------------
TEXTS = {
    "plain": (b"hello\0", "hello"),
    "no terminator": (b"hello", "hello"),
    "junk after NUL": (b"he\0llo\0\0x", "he"),
    "empty": (b"", ""),
    "only NUL": (b"\0", ""),
    "leading NUL": (b"\0abc", ""),
    "utf8": ("café ♫".encode("utf-8") + b"\0\0", "café ♫"),
    "padded": (b"x".ljust(32, b"\0"), "x"),
}
for label, (raw, want) in sorted(TEXTS.items()):
    body = [(b"SFFF", u32(0x49)), (b"SNAM", raw), (b"STYP", cstr("Amplifier")), (b"SMIN", raw), (b"SEND", b"")]
    mod = load(synth(body)).module
    check("SNAM " + label, mod.name == want)
    check("SMIN " + label, mod.midi_out_name == want)
    # SNAM after STYP lands on the typed module too
    body = [(b"SFFF", u32(0x49)), (b"STYP", cstr("Amplifier")), (b"SNAM", raw), (b"SEND", b"")]
    check("SNAM after STYP " + label, load(synth(body)).module.name == want)
record("bad utf8 name", synth([(b"SFFF", u32(0)), (b"SNAM", b"\xff\xfe\0"), (b"SEND", b"")]))
for raw in (b"Amplifier", b"Amplifier\0", b"Amplifier\0garbage", b"Amplifier\0\0\0"):
    body = [(b"SFFF", u32(0x49)), (b"STYP", raw), (b"SEND", b"")]
    mod = load(synth(body)).module
    check("STYP %r" % raw, type(mod).__name__ == "Amplifier" and mod.mtype == "Amplifier")
record("unknown STYP", synth([(b"SFFF", u32(0)), (b"STYP", b"Nope\0"), (b"SEND", b"")]))
record("empty STYP", synth([(b"SFFF", u32(0)), (b"STYP", b""), (b"SEND", b"")]))
record("no STYP", synth([(b"SFFF", u32(0x49)), (b"SNAM", b"bare\0"), (b"SEND", b"")]))

# ---- 4. link lists ------------------------------------------------------------------
def ints(*values):
    return b"".join(i32(v) for v in values)


LINKS = {
    "empty": ([b""], []),
    "one": ([ints(3)], [3]),
    "trailing -1": ([ints(3, -1, 4, -1, -1)], [3, -1, 4]),
    "all -1": ([ints(-1, -1, -1)], []),
    "leading -1": ([ints(-1, 2)], [-1, 2]),
    "two chunks": ([ints(1, -1), ints(2)], [1, 2]),
    "two chunks inner -1": ([ints(-1, 1), ints(-1, 2)], [-1, 1, -1, 2]),
    "second trims first": ([ints(1, -1), ints(-1)], [1]),
    "second empty keeps first": ([ints(1, 5), b""], [1, 5]),
    "empty then all -1": ([b"", ints(-1)], []),
    "big": ([ints(*range(40))], list(range(40))),
    "extremes": ([ints(2**31 - 1, -(2**31))], [2**31 - 1, -(2**31)]),
}
for label, (payloads, want) in sorted(LINKS.items()):
    for cid, attr in ((b"SLNK", "in_links"), (b"SLnK", "in_link_slots")):
        mod = load(amp([(cid, p) for p in payloads])).module
        got = getattr(mod, attr)
        check("%s %s" % (cid.decode(), label), got == want and type(got) is list)
        other = "in_link_slots" if attr == "in_links" else "in_links"
        check("%s %s leaves %s alone" % (cid.decode(), label, other), getattr(mod, other) == [])
for size in (1, 2, 3, 5, 7, 9):
    for cid in (b"SLNK", b"SLnK"):
        record("%s of %d bytes" % (cid.decode(), size), amp([(cid, bytes(range(size)))]))
        check(
            "%s of %d bytes -> struct.error" % (cid.decode(), size),
            outcome(amp([(cid, bytes(range(size)))])) == ("EXC", "error"),
        )
# in a project the link lists of several modules stay separate
proj = [
    (b"SVOX", b""), (b"VERS", b"\x01\x02\x01\x02"),
    (b"SFFF", u32(0x43)), (b"SNAM", cstr("Output")), (b"SLNK", ints(1, 2, -1)), (b"SLnK", ints(0, 0, -1, -1)), (b"SEND", b""),
    (b"SFFF", u32(0x49)), (b"STYP", cstr("Amplifier")), (b"SLNK", ints(2)), (b"SLNK", ints(-1, -1)), (b"SLnK", ints(1)), (b"SEND", b""),
    (b"SFFF", u32(0x49)), (b"STYP", cstr("Amplifier")), (b"SLNK", b""), (b"SEND", b""),
]
project = load(proj)
check("project in_links", [m.in_links for m in project.modules] == [[1, 2], [2], []])
check("project in_link_slots", [m.in_link_slots for m in project.modules] == [[0, 0], [1], []])
record("project links", proj)

# ---- 5. controller values: order, count, range --------------------------------
fresh = type(load(amp([])).module)()
names = [n for n, c in fresh.controllers.items() if c.attached(fresh)]
for count in range(len(names) + 4):
    values = [1] * count
    body = amp([(b"CVAL", i32(v)) for v in values])
    result = record("amp cvals %d" % count, body)
    if result[0] != "O":
        continue
    mod = load(body).module
    check(
        "amp values %d" % count,
        all(mod.get_raw(n) == v for n, v in zip(names, values))
        and all(mod.controller_values[n] == fresh.controller_values[n] for n in names[count:]),
    )
# out-of-range / odd CVALs keep whatever the library does today
for values in ([100000], [-5], [0, 0, 99], [2**31 - 1, -(2**31)]):
    record("amp odd cvals %r" % (values,), amp([(b"CVAL", i32(v)) for v in values]))
record("short CVAL", amp([(b"CVAL", b"\x01")]))
# CVALs before STYP and without STYP
record("cval before styp", synth([(b"SFFF", u32(0x49)), (b"CVAL", i32(9)), (b"STYP", cstr("Amplifier")), (b"CVAL", i32(3)), (b"SEND", b"")]))
record("cval without styp", synth([(b"SFFF", u32(0x49)), (b"CVAL", i32(9)), (b"SEND", b"")]))

# ---- 6. log messages and their order (unsupported first, then last-to-first) ----
class _Capture(logging.Handler):
    def __init__(self):
        super().__init__(level=logging.DEBUG)
        self.lines = []

    def emit(self, record):
        self.lines.append((record.name, record.levelname, record.getMessage()))


def captured(chunk_list):
    handler = _Capture()
    loggers = [logging.getLogger("rv.readers.module"), logging.getLogger("rv.readers.reader")]
    old_levels = [lg.level for lg in loggers]
    logging.disable(logging.NOTSET)
    for lg in loggers:
        lg.addHandler(handler)
        lg.setLevel(logging.DEBUG)
    try:
        load(chunk_list)
    finally:
        for lg, level in zip(loggers, old_levels):
            lg.removeHandler(handler)
            lg.setLevel(level)
        logging.disable(logging.CRITICAL)
    return handler.lines


count = len(names) + 3
lines = captured(amp([(b"SXXX", i32(5)), (b"SLNK", b""), (b"What", b"?")] + [(b"CVAL", i32(1))] * count))
module_lines = [(lvl, msg) for name, lvl, msg in lines if name == "rv.readers.module"]
want = [
    ("WARNING", "Unsupported controller at index %d with raw value 1" % i)
    for i in range(count - 1, len(names) - 1, -1)
] + [("DEBUG", "Setting %s from raw 1" % n) for n in reversed(names)]
check("CVAL log order", module_lines == want)
reader_lines = [(lvl, msg) for name, lvl, msg in lines if name == "rv.readers.reader"]
check("dispatch log SXXX", ("DEBUG", "-> ModuleReader.process_SXXX") in reader_lines)
check("dispatch log SLNK", ("DEBUG", "-> ModuleReader.process_SLNK") in reader_lines)
check("dispatch log unknown", ("WARNING", "no ModuleReader.process_What method") in reader_lines)
observed.append(("log lines", lines))

for _label, _res in observed:
    if isinstance(_res, tuple) and _res[:1] == ("EXC",):
        print("note: %-44s -> %s" % (_label, _res[1]))
finish("05fb00fd4670b3abe70cedf55e48806ba7b77d7ac8a06de31c6daf2aaeed3863", observed)
