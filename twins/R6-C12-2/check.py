"""Behaviour check for Visualization sub-fields and the SMII word (C12, patch 2).

An independent reference model of every sub-field (shift, width, how the new
value is reduced, which old contents are readable) is compared with the
library for all old field contents, several backgrounds of the other bits and
a complete sweep of new values.  Prints PASS / exits 0.
"""
import io
import struct
import sys

import rv.api as rv
from rv.modules import LevelMode, Orientation, OscilloscopeMode
from rv.modules.module import Module, Visualization
from rv.readers.module import ModuleReader

failures = []


def check(cond, msg):
    if not cond:
        failures.append(msg)


def clamp(hi):
    return lambda v: max(0, min(v, hi))


def masked(m):
    return lambda v: int(v) & m


# name, shift, mask, reducer of the new value, enum (or None), values to try
FIELDS = [
    ("level_mode", 0, 0b11111, masked(0b11111), LevelMode, list(range(-3, 70))),
    ("orientation", 5, 1, masked(1), Orientation, list(range(-3, 6))),
    ("oscilloscope_mode", 8, 0b11111, masked(0b11111), OscilloscopeMode, list(range(-3, 70))),
    ("oscilloscope_size", 16, 0xFF, clamp(0xFF), None, list(range(-3, 300))),
    ("bg_transparency", 24, 3, clamp(3), None, list(range(-3, 8))),
    ("shadow_opacity", 26, 3, clamp(3), None, list(range(-3, 8))),
]
ALL_FIELD_BITS = 0
for _n, sh, m, _r, _e, _t in FIELDS:
    ALL_FIELD_BITS |= m << sh


def model_get(word, shift, mask, enum):
    raw = word >> shift & mask
    return raw if enum is None else enum(raw)  # may raise ValueError


def readable(word):
    """Sub-field readings of ``word``; 'ValueError' where the enum has no member."""
    out = {}
    for name, shift, mask, _r, enum, _t in FIELDS:
        try:
            out[name] = model_get(word, shift, mask, enum)
        except ValueError:
            out[name] = "ValueError"
    return out


def lib_read(vis):
    out = {}
    for name, *_ in FIELDS:
        try:
            out[name] = getattr(vis, name)
        except ValueError:
            out[name] = "ValueError"
    return out


BACKGROUNDS = [
    0x00000000,
    0x000C0101,  # library default
    0x0FFFFFFF & ~0b11111 & ~(0b11111 << 8) | 4 | (7 << 8),  # everything set, enums valid
    0xF000E0C0,  # only bits outside all fields
    0x05A50321,
    0x0A5A0412,
]

for name, shift, mask, reduce_new, enum, tries in FIELDS:
    for bg in BACKGROUNDS:
        for old in range(mask + 1):
            word = (bg & ~(mask << shift)) | (old << shift)
            vis = Visualization(word)
            check(int(vis) == word and vis.value == word, "int()/value")
            check(lib_read(vis) == readable(word), f"getters of {word:#x}")
            old_ok = enum is None or old in set(int(e) for e in enum)
            for new in tries:
                vis = Visualization(word)
                try:
                    setattr(vis, name, new)
                except ValueError:
                    check(not old_ok, f"{name}: unexpected ValueError old={old} new={new}")
                    check(vis.value == word, f"{name}: word changed by failed set")
                    continue
                check(old_ok, f"{name}: set succeeded over undefined old member {old}")
                want_field = reduce_new(new)
                want = (word & ~(mask << shift)) | (want_field << shift)
                check(
                    vis.value == want and type(vis.value) is int,
                    f"{name}: {word:#x} <- {new}: got {vis.value:#x} want {want:#x}",
                )
                got = readable(vis.value)
                before = readable(word)
                for other in before:
                    if other != name:
                        check(got[other] == before[other], f"{name} disturbed {other}")
                check(vis.value & ~ALL_FIELD_BITS == word & ~ALL_FIELD_BITS, "unrelated bits kept")
                # reading back
                if enum is None:
                    check(getattr(vis, name) == want_field, f"{name} read-back")
                elif want_field in set(int(e) for e in enum):
                    r = getattr(vis, name)
                    check(r == want_field and type(r) is enum, f"{name} enum read-back")
                else:
                    try:
                        getattr(vis, name)
                    except ValueError:
                        pass
                    else:
                        check(False, f"{name}: undefined member {want_field} readable")

# enum members (and bool / str for int()-converted fields) are accepted as new values
vis = Visualization(0x000C0101)
vis.level_mode = LevelMode.glow
vis.orientation = Orientation.vertical
vis.oscilloscope_mode = OscilloscopeMode.xy
check(vis.value == 0x000C0101 - 1 + 4 + (1 << 5) - (1 << 8) + (7 << 8), "enum arguments")
vis.orientation = "0"
vis.oscilloscope_mode = "3"
check(vis.orientation is Orientation.horizontal, "str orientation")
check(vis.oscilloscope_mode is OscilloscopeMode.bars, "str oscilloscope_mode")
vis.oscilloscope_size = True
check(vis.oscilloscope_size == 1 and type(vis.value) is int, "bool size")

# argument type errors are unchanged and leave the word alone
for name, bad, exc in [
    ("level_mode", 1.5, TypeError),
    ("level_mode", "1", TypeError),
    ("orientation", None, TypeError),
    ("orientation", "x", ValueError),
    ("oscilloscope_mode", None, TypeError),
    ("oscilloscope_size", None, TypeError),
    ("oscilloscope_size", 2.5, TypeError),
    ("bg_transparency", "1", TypeError),
    ("shadow_opacity", None, TypeError),
]:
    vis = Visualization(0x000C0101)
    try:
        setattr(vis, name, bad)
    except exc:
        pass
    except Exception as e:  # noqa
        check(False, f"{name}={bad!r}: {type(e).__name__} instead of {exc.__name__}")
    else:
        check(False, f"{name}={bad!r} accepted")
    check(vis.value == 0x000C0101, f"{name}={bad!r} changed the word")

# undefined old member wins over a bad argument (getter is consulted first)
vis = Visualization(31)
try:
    vis.level_mode = 1.5
except ValueError:
    pass
except TypeError:
    check(False, "argument checked before the old member")

# negative / oversized words behave like two's complement integers
for word in (-1 & ~0b11111 & ~(0b11111 << 8), (1 << 40) | 0x000C0101):
    vis = Visualization(word)
    vis.oscilloscope_size = 0x12
    check(vis.value == (word & ~(0xFF << 16)) | (0x12 << 16), "wide word")
    vis.level_mode = 3
    check(vis.value & 0b11111 == 3, "wide word level_mode")

# Visualization instances carry only the word
check(vars(Visualization(5)) == {"value": 5}, "instance dict")

# Module.visualization hands out a fresh view of the stored word each time
mod = rv.m.Amplifier()
check(int(mod.visualization) == 0x000C0101, "default word")
v = mod.visualization
v.shadow_opacity = 0
check(int(mod.visualization) == 0x000C0101, "view is detached")
mod.visualization = int(v)
check(int(mod.visualization) == 0x000C0101 & ~(3 << 26), "stored word")


# ------------------------------------------------------------------ SMII
def smii_chunk(module):
    found = [data for name, data in module.iff_chunks() if name == b"SMII"]
    check(len(found) == 1, "exactly one SMII chunk")
    return found[0]


def chunk_names(module):
    return [name for name, _ in module.iff_chunks()]


CHANNELS = list(range(0, 40)) + [255, 1000, 0x7FFF, 0xFFFF, (1 << 31) - 1]
for always in (False, True, 0, 1):
    for ch in CHANNELS:
        mod = rv.m.Amplifier(midi_in_always=always, midi_in_channel=ch)
        data = smii_chunk(mod)
        check(data == struct.pack("<I", int(always) + ch * 2), f"SMII bytes {always} {ch}")
        # decode through the reader method
        reader = ModuleReader(io.BytesIO(), 1)
        target = rv.m.Amplifier(midi_in_always=not always, midi_in_channel=ch + 1)
        reader.object = target
        reader.process_SMII(data)
        check(
            target.midi_in_always is bool(always) and target.midi_in_channel == ch,
            f"SMII decode {always} {ch}",
        )
        check(type(target.midi_in_channel) is int, "channel is int")

# every 32-bit word decodes as (bit 0, rest)
for word in [0, 1, 2, 3, 0xFFFFFFFF, 0xFFFFFFFE, 0x80000000, 0x12345679]:
    reader = ModuleReader(io.BytesIO(), 1)
    target = rv.m.Amplifier()
    reader.object = target
    reader.process_SMII(struct.pack("<I", word))
    check(target.midi_in_always is bool(word & 1), f"always of {word:#x}")
    check(target.midi_in_channel == word >> 1, f"channel of {word:#x}")
    check(smii_chunk(target) == struct.pack("<I", word), f"re-encode {word:#x}")

# setting one half of the pair leaves the other alone
mod = rv.m.Amplifier(midi_in_always=True, midi_in_channel=9)
mod.midi_in_channel = 4
check(mod.midi_in_always is True and smii_chunk(mod) == struct.pack("<I", 9), "channel only")
mod.midi_in_always = False
check(mod.midi_in_channel == 4 and smii_chunk(mod) == struct.pack("<I", 8), "flag only")

# bad data / values: same exception types, raised at the SMII position
reader = ModuleReader(io.BytesIO(), 1)
reader.object = rv.m.Amplifier()
for bad in (b"", b"123", b"12345"):
    try:
        reader.process_SMII(bad)
    except struct.error:
        pass
    else:
        check(False, "short SMII accepted")
for kw, exc in [
    (dict(midi_in_channel=-1), struct.error),
    (dict(midi_in_channel=1 << 31), struct.error),
    (dict(midi_in_channel=None), TypeError),
    (dict(midi_in_always=None), TypeError),
    (dict(midi_in_channel=1.5), TypeError),
]:
    mod = rv.m.Amplifier(**kw)
    seen = []
    try:
        for name, _ in mod.iff_chunks():
            seen.append(name)
    except exc:
        check(seen[-1] == b"SCOL" and b"SMII" not in seen, f"{kw}: raised at SMII")
    except Exception as e:  # noqa
        check(False, f"{kw}: {type(e).__name__}")
    else:
        check(False, f"{kw}: accepted")

# chunk order around SMII is unchanged
names = chunk_names(rv.m.Amplifier())
i = names.index(b"SMII")
check(names[i - 1] == b"SCOL" and names[i + 1] == b"SMIC", "chunk order (detached)")
proj = rv.Project()
amp = proj.new_module(rv.m.Amplifier, midi_in_always=True, midi_in_channel=7)
names = chunk_names(amp)
i = names.index(b"SMII")
check(names[i - 2 : i + 2] == [b"SVPR", b"SCOL", b"SMII", b"SMIC"], "chunk order (attached)")

# file round trip keeps both packed words
vis = amp.visualization
vis.level_mode = LevelMode.color
vis.orientation = Orientation.vertical
vis.oscilloscope_mode = OscilloscopeMode.phase_2
vis.oscilloscope_size = 200
vis.bg_transparency = 2
vis.shadow_opacity = 1
amp.visualization = int(vis)
buf = io.BytesIO()
proj.write_to(buf)
buf.seek(0)
proj2 = rv.read_sunvox_file(buf)
amp2 = proj2.modules[1]
check(amp2.midi_in_always is True and amp2.midi_in_channel == 7, "file: SMII")
check(int(amp2.visualization) == int(vis), "file: SVPR")
v2 = amp2.visualization
check(
    (v2.level_mode, v2.orientation, v2.oscilloscope_mode, v2.oscilloscope_size, v2.bg_transparency, v2.shadow_opacity)
    == (LevelMode.color, Orientation.vertical, OscilloscopeMode.phase_2, 200, 2, 1),
    "file: sub-fields",
)
buf2 = io.BytesIO()
proj2.write_to(buf2)
check(buf2.getvalue() == buf.getvalue(), "file byte-identical on second save")

if failures:
    print("FAIL", len(failures))
    for f in failures[:20]:
        print("  ", f)
    sys.exit(1)
print("PASS")
