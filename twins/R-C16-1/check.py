"""Behaviour check for the Sampler codec (property C16).

Builds Samplers programmatically, writes them with the Sampler's own writer,
decodes the result again, and compares every observable value.  Also covers
the legacy (pre-envelope) upgrade path, the fixture file, the low-level
struct reader/writer helpers and the error behaviour of each code path.

A digest over everything observed is compared with the value recorded on the
unchanged tree, so any byte-level change in emitted chunks or decoded state
is detected.

Run:  cd <root> && PYTHONPATH=<root>/src/python /venv/bin/python check.py
"""
import hashlib
import logging
import os
import random
import struct
import sys
from io import BytesIO

logging.disable(logging.CRITICAL)

from rv.api import m, read_sunvox_file  # noqa: E402
from rv.modules import sampler as sampler_mod  # noqa: E402
from rv.modules.sampler import Sampler  # noqa: E402
from rv.note import NOTE  # noqa: E402
from rv.readers.module import Chunk  # noqa: E402
from rv.synth import Synth  # noqa: E402

EXPECTED_DIGEST = "1e2b44c090537ce11d388734225ef939ee589e76274fbae3d59e0428245ae2e7"

_h = hashlib.sha256()
_failures = []


def record(*items):
    for item in items:
        _h.update(repr(item).encode("utf8"))
        _h.update(b"\x1f")


def check(cond, msg):
    if not cond:
        _failures.append(msg)


def outcome(fn, *args, **kw):
    """Return ("ok", result) or ("err", type name, message)."""
    try:
        return ("ok", fn(*args, **kw))
    except Exception as e:  # noqa: BLE001
        return ("err", type(e).__name__, str(e))


# ---------------------------------------------------------------- observation


def env_state(env):
    return (
        type(env).__name__,
        env.chnm,
        list(env.points),
        env.sustain_point,
        env.loop_start_point,
        env.loop_end_point,
        env.enable,
        env.sustain,
        env.loop,
        env.ctl_index,
        env.gain_pct,
        env.velocity,
        env.loaded,
        env._legacy_point_bytes,
        env._legacy_active_points,
        env._legacy_sustain_point,
        env._legacy_loop_start_point,
        env._legacy_loop_end_point,
        env._legacy_bitmask,
    )


def sample_state(s):
    if s is None:
        return None
    return (
        bytes(s.data),
        s._length,
        s.loop_start,
        s.loop_len,
        s.volume,
        s.finetune,
        s.format,
        s.channels,
        s.rate,
        s.loop_type,
        s.loop_sustain,
        s.panning,
        s.relative_note,
        s.reserved2,
        s.name,
        s.start_pos,
    )


def module_state(mod):
    return (
        [sample_state(s) for s in mod.samples],
        env_state(mod.volume_envelope),
        env_state(mod.panning_envelope),
        env_state(mod.pitch_envelope),
        [env_state(e) for e in mod.effect_control_envelopes],
        list(mod.note_samples.items()),
        mod.note_samples.bytes,
        mod.vibrato_type,
        mod.vibrato_attack,
        mod.vibrato_depth,
        mod.vibrato_rate,
        mod.volume_fadeout,
        mod.instrument_name,
        mod.version,
        mod.max_version,
        mod.unused1,
        mod.unused2,
        mod.unused3,
        mod.unused4,
        mod.unused5,
        mod.unused6,
        mod.volume_old,
        mod.ins_finetune,
        mod.ins_relative_note,
        mod.editor_cursor,
        mod.editor_selected_size,
        mod.is_legacy,
        None if mod.legacy_chunks is None else len(mod.legacy_chunks),
        None if mod.effect is None else type(mod.effect.module).__name__,
        getattr(mod, "_unknown_0x101", "<unset>"),
    )


def drain(gen):
    """Collect a chunk generator; an exception ends the list with a marker."""
    out = []
    try:
        for item in gen:
            out.append(item)
    except Exception as e:  # noqa: BLE001
        out.append(("err", type(e).__name__, str(e)))
    return out


def as_chunks(pairs):
    """Group (tag, data) pairs into reader Chunk objects, as the reader does."""
    chunks = []
    cur = None
    for tag, data in pairs:
        if tag == b"CHNM":
            cur = Chunk()
            (cur.chnm,) = struct.unpack("<I", data)
            chunks.append(cur)
        elif tag == b"CHDT":
            cur.chdt = data
        elif tag == b"CHFF":
            (cur.chff,) = struct.unpack("<I", data)
        elif tag == b"CHFR":
            (cur.chfr,) = struct.unpack("<I", data)
    return chunks


def load_from_pairs(pairs, only=None):
    mod = Sampler()
    for c in as_chunks(pairs):
        if only is None or only(c.chnm):
            mod.load_chunk(c)
    mod.finalize_load()
    return mod


def roundtrip(mod):
    f = BytesIO()
    Synth(mod).write_to(f)
    raw = f.getvalue()
    f.seek(0)
    return raw, read_sunvox_file(f).module


# ------------------------------------------------------------------ builders


def make_sample(rng, fmt, ch, nbytes, **kw):
    s = Sampler.Sample()
    s.format = fmt
    s.channels = ch
    s.data = bytes(rng.randrange(256) for _ in range(nbytes))
    for k, v in kw.items():
        setattr(s, k, v)
    return s


def build_rich(seed):
    rng = random.Random(seed)
    mod = m.Sampler()
    F, C, L = Sampler.Format, Sampler.Channels, Sampler.LoopType
    combos = [(f, c) for f in F for c in C]
    slots = [0, 1, 5, 64, 126, 127] if seed % 2 else [3, 17, 100]
    for n, slot in enumerate(slots):
        fmt, ch = combos[(n + seed) % len(combos)]
        mod.samples[slot] = make_sample(
            rng,
            fmt,
            ch,
            rng.choice([0, 1, 7, 16, 24, 129]),
            loop_start=rng.randrange(0, 2**32),
            loop_len=rng.randrange(0, 2**32),
            volume=rng.randrange(0, 256),
            finetune=rng.randrange(-128, 128),
            rate=rng.choice([0, 8000, 44100, 2**32 - 1]),
            loop_type=list(L)[(n + seed) % 3],
            loop_sustain=bool((n + seed) % 2),
            panning=rng.randrange(-128, 128),
            relative_note=rng.randrange(-128, 128),
            reserved2=rng.randrange(0, 256),
            name=[b"", b"kick", b"x" * 22, b"y" * 30, b"trail\0\0"][n % 5],
            start_pos=rng.randrange(0, 2**32),
        )
    counts = [0, 1, 4, 12, 13, 20, 3]
    envs = [
        mod.volume_envelope,
        mod.panning_envelope,
        mod.pitch_envelope,
        *mod.effect_control_envelopes,
    ]
    for n, env in enumerate(envs):
        cnt = counts[(n + seed) % len(counts)]
        lo, hi = env.range
        env.points = [
            (rng.randrange(0, 0x10000) if i else 0, rng.randrange(lo, hi + 1))
            for i in range(cnt)
        ]
        if cnt:
            env.points[-1] = (env.points[-1][0], hi)
            env.points[0] = (0, lo)
        env.sustain_point = rng.randrange(0, 256)
        env.loop_start_point = rng.randrange(0, 256)
        env.loop_end_point = rng.randrange(0, 256)
        env.bitmask = (n + seed) % 8
        env.ctl_index = rng.randrange(0, 256)
        env.gain_pct = rng.randrange(0, 256)
        env.velocity = rng.randrange(0, 256)
    for i, note in enumerate(mod.note_samples):
        mod.note_samples[note] = (i * 7 + seed) % 128
    mod.vibrato_type = list(Sampler.VibratoType)[seed % 3]
    mod.vibrato_attack = rng.randrange(0, 256)
    mod.vibrato_depth = rng.randrange(0, 256)
    mod.vibrato_rate = rng.randrange(0, 64)
    mod.volume_fadeout = rng.randrange(0, 8193)
    mod.instrument_name = [b"", b"instr", b"n" * 22, b"n" * 40][seed % 4]
    mod.unused1 = rng.randrange(0, 2**32)
    mod.unused2 = rng.randrange(0, 2**16)
    mod.unused3 = rng.randrange(0, 2**16)
    mod.unused4 = rng.randrange(0, 2**32)
    mod.unused5 = rng.randrange(0, 256)
    mod.unused6 = rng.randrange(0, 2**32)
    mod.volume_old = rng.randrange(0, 256)
    mod.ins_finetune = rng.randrange(-128, 128)
    mod.ins_relative_note = rng.randrange(-128, 128)
    mod.editor_cursor = rng.randrange(-(2**31), 2**31)
    mod.editor_selected_size = rng.randrange(-(2**31), 2**31)
    mod.max_version = rng.randrange(0, 2**32)
    if seed % 3 == 0:
        mod.effect = Synth(m.Reverb())
    return mod


# -------------------------------------------------------------------- checks


def check_builds():
    mods = [m.Sampler(), Sampler(instrument_name=b"named")]
    mods += [build_rich(seed) for seed in range(6)]
    for n, mod in enumerate(mods):
        pairs = drain(mod.specialized_iff_chunks())
        record("chunks", n, pairs)
        check(
            not any(p[0] == "err" for p in pairs),
            "build %d: writer raised %r" % (n, pairs[-1],),
        )
        record("global", n, drain(mod.global_config_chunks()))
        record("sample_data", n, drain(mod.sample_data_chunks()))
        record("envcfg", n, drain(mod.envelope_config_chunks()))
        # decode the written chunks directly
        back = load_from_pairs(pairs)
        record("back", n, module_state(back))
        # decode through a full .sunsynth write / read
        raw, back2 = roundtrip(mod)
        record("raw", n, raw)
        record("back2", n, module_state(back2))
        check(module_state(back)[:-3] == module_state(back2)[:-3], "paths differ %d" % n)
        # the decoded module writes the same chunks again
        again = drain(back2.specialized_iff_chunks())
        record("again", n, again)
        # semantic expectations
        for i, s in enumerate(mod.samples):
            b = back2.samples[i]
            if s is None:
                check(b is None, "slot %d appeared (build %d)" % (i, n))
                continue
            check(b is not None, "slot %d lost (build %d)" % (i, n))
            if b is None:
                continue
            for attr in (
                "data format channels rate loop_start loop_len volume finetune "
                "loop_type loop_sustain panning relative_note reserved2 start_pos"
            ).split():
                check(
                    getattr(b, attr) == getattr(s, attr),
                    "build %d slot %d %s" % (n, i, attr),
                )
            check(b.name == s.name[:22].rstrip(b"\0"), "build %d slot %d name" % (n, i))
        envs_a = [mod.volume_envelope, mod.panning_envelope, mod.pitch_envelope]
        envs_a += mod.effect_control_envelopes
        envs_b = [back2.volume_envelope, back2.panning_envelope, back2.pitch_envelope]
        envs_b += back2.effect_control_envelopes
        for k, (a, b) in enumerate(zip(envs_a, envs_b)):
            check(env_state(a)[:12] == env_state(b)[:12], "build %d env %d" % (n, k))
            check(b.loaded, "build %d env %d not loaded" % (n, k))
        for attr in (
            "vibrato_type vibrato_attack vibrato_depth vibrato_rate volume_fadeout "
            "unused1 unused2 unused3 unused4 unused5 unused6 volume_old ins_finetune "
            "ins_relative_note version"
        ).split():
            check(getattr(back2, attr) == getattr(mod, attr), "build %d %s" % (n, attr))
        check((back2.effect is None) == (mod.effect is None), "build %d effect" % n)
        check(back2.is_legacy is False, "build %d is_legacy" % n)


def check_envelopes():
    classes = [
        Sampler.VolumeEnvelope,
        Sampler.PanningEnvelope,
        Sampler.PitchEnvelope,
        lambda: Sampler.EffectControlEnvelope(0x105),
        lambda: Sampler.EffectControlEnvelope(0x108),
    ]
    rng = random.Random(99)
    for ci, cls in enumerate(classes):
        env = cls()
        record("env-default", ci, env_state(env), drain(env.chunks()))
        record("env-default-pb", ci, outcome(lambda: env.point_bytes))
        record("env-default-xy", ci, env._x_values, env._y_values)
        lo, hi = env.range
        for cnt in (0, 1, 2, 11, 12, 13, 40):
            env = cls()
            env.points = [
                (rng.randrange(0, 0x10000), rng.randrange(lo, hi + 1))
                for _ in range(cnt)
            ]
            for mask in range(8):
                env.bitmask = mask
                check(env.bitmask == mask, "bitmask %d" % mask)
                check(
                    (env.enable, env.sustain, env.loop)
                    == (bool(mask & 1), bool(mask & 2), bool(mask & 4)),
                    "bitmask flags %d" % mask,
                )
            env.sustain_point = cnt
            env.loop_start_point = 65535
            env.loop_end_point = 7
            pairs = drain(env.chunks())
            record("env", ci, cnt, pairs)
            record("env-xy", ci, cnt, env._x_values, env._y_values)
            record("env-pb", ci, cnt, outcome(lambda: env.point_bytes))
            check(len(env._x_values) == 12 and len(env._y_values) == 12, "xy length")
            check(len(pairs) == 2 and pairs[0][0] == b"CHNM", "env chunk shape")
            chdt = pairs[1][1]
            check(len(chdt) == 0x14 + 4 * cnt, "env chdt length")
            other = cls()
            other.load_chdt(chdt)
            check(other.points == env.points, "env points %d/%d" % (ci, cnt))
            check(env_state(other)[2:12] == env_state(env)[2:12], "env fields")
            check(other.loaded is True, "env loaded")
            # trailing garbage after the declared points is ignored
            other2 = cls()
            other2.load_chdt(chdt + b"\xff" * 9)
            check(other2.points == env.points, "env points with trailer")
            # truncated point area
            for cut in (1, 2, 4, 5):
                if cnt == 0:
                    continue
                victim = cls()
                before = list(victim.points)
                res = outcome(victim.load_chdt, chdt[:-cut])
                record("env-trunc", ci, cnt, cut, res, env_state(victim))
                check(res[0] == "err" and res[1] == "error", "truncated env must fail")
                check(victim.loaded is False, "truncated env stays unloaded")
                check(victim.points != before or not before, "points list replaced")
        # truncated header
        for n in (0, 3, 15):
            victim = cls()
            res = outcome(victim.load_chdt, b"\x01" * n)
            record("env-short-header", ci, n, res, env_state(victim))
            check(res[0] == "err" and res[1] == "error", "short header must fail")
        # header only, zero points
        victim = cls()
        res = outcome(victim.load_chdt, b"\x07\x00\x01\x02\x03" + b"\0" * 11)
        record("env-header-only", ci, res, env_state(victim))
        # values outside the field widths fail in the writer
        for pts in (
            [(0x10000, lo)],
            [(-1, lo)],
            [(0, lo - 1)],
            [(0, lo + 0x10000)],
            [(0, lo), (5, hi), (70000, lo)],
        ):
            env = cls()
            env.points = pts
            record("env-bad-points", ci, pts, drain(env.chunks()))
            record("env-bad-pb", ci, pts, outcome(lambda: env.point_bytes))
        for attr, bad in (
            ("ctl_index", 256),
            ("gain_pct", -1),
            ("velocity", 300),
            ("sustain_point", 65536),
            ("loop_start_point", -1),
            ("loop_end_point", 1 << 20),
        ):
            env = cls()
            setattr(env, attr, bad)
            # a bad point as well: the header error must win
            env.points = env.points + [(-5, lo)]
            res = drain(env.chunks())
            record("env-bad-field", ci, attr, res)
            check(res[-1][0] == "err" and res[-1][1] == "error", "bad %s" % attr)
            check(res[0][0] == b"CHNM", "CHNM precedes the error")


def check_note_map():
    nm = Sampler.NoteSampleMap()
    check(len(nm) == 119, "note map size %d" % len(nm))
    check(list(nm)[0] == NOTE.C0 and list(nm)[-1] == NOTE.a9, "note map range")
    record("nm-default", list(nm.items()), nm.bytes)
    for value in (
        b"",
        b"\x05",
        bytes(range(96)),
        bytes(range(119)),
        bytes(range(128)),
        bytes(range(200)),
        [1, 2, 3],
        (9, 8, 7, 6),
        iter([4, 4, 4]),
        bytearray(b"\x01\x02"),
    ):
        nm = Sampler.NoteSampleMap()
        nm[NOTE.C0] = 77
        nm.bytes = value
        record("nm-set", list(nm.values()), nm.bytes, list(nm.keys()) == list(NOTE)[1:120])
        check(len(nm) == 119, "note map grew")
    for bad in (5, None):
        nm = Sampler.NoteSampleMap()
        record("nm-bad", outcome(setattr, nm, "bytes", bad), list(nm.values()))
    nm = Sampler.NoteSampleMap()
    nm.bytes = [1, 300, 2]
    record("nm-300", outcome(lambda: nm.bytes), list(nm.values())[:4])
    nm = Sampler.NoteSampleMap()
    nm.bytes = [1, "x", 2]
    record("nm-str", outcome(lambda: nm.bytes), list(nm.values())[:4])


def instrument_record(mod):
    pairs = drain(mod.global_config_chunks())
    return pairs[1][1]


def check_instrument_record():
    for seed in range(4):
        mod = build_rich(seed)
        data = instrument_record(mod)
        record("ins-len", len(data))
        check(data[0xFC:0x100] == b"PMAS", "signature offset")
        # full, truncated and oversized records
        for n in (
            len(data),
            len(data) - 1,
            len(data) - 4,
            len(data) - 5,
            len(data) - 8,
            len(data) - 9,
            len(data) - 12,
            0x184,
            0x183,
            0x104,
            0x100,
            0xFF,
            0xFB,
            0xEE,
            0xE4,
            0x84,
            0x24,
            3,
            0,
        ):
            c = Chunk()
            c.chnm = 0
            c.chdt = data[:n]
            victim = Sampler()
            res = outcome(victim.load_chunk, c)
            record("ins-trunc", seed, n, res, module_state(victim))
        for extra in (1, 0x190 - len(data), 0x191 - len(data), 400):
            c = Chunk()
            c.chnm = 0
            c.chdt = data + b"\xaa" * extra
            victim = Sampler()
            res = outcome(victim.load_chunk, c)
            record("ins-long", seed, extra, res, module_state(victim))
        # wrong signature => legacy
        c = Chunk()
        c.chnm = 0
        c.chdt = data[:0xFC] + b"XXXX" + data[0x100:]
        victim = Sampler()
        res = outcome(victim.load_chunk, c)
        record("ins-sign", seed, res, module_state(victim))
        check(victim.is_legacy is True, "bad signature is legacy")
        check(len(victim.legacy_chunks) == 1, "legacy chunk retained")
        record("ins-sign-out", seed, drain(victim.specialized_iff_chunks()))
        # bad vibrato type
        c = Chunk()
        c.chnm = 0
        c.chdt = data[:0xEE] + b"\x09" + data[0xEF:]
        victim = Sampler()
        record("ins-vib", seed, outcome(victim.load_chunk, c), module_state(victim))
    # writer-side width errors
    for attr, bad in (
        ("unused1", -1),
        ("unused2", 65536),
        ("unused3", -2),
        ("unused4", 2**32),
        ("unused5", 256),
        ("unused6", -1),
        ("volume_old", 256),
        ("ins_finetune", 128),
        ("ins_relative_note", -129),
        ("version", -1),
        ("max_version", 2**32),
        ("editor_cursor", 2**31),
        ("editor_selected_size", -(2**31) - 1),
        ("instrument_name", "text"),
        ("instrument_name", None),
    ):
        mod = build_rich(1)
        setattr(mod, attr, bad)
        record("ins-bad", attr, drain(mod.global_config_chunks()))
    mod = build_rich(1)
    mod.volume_envelope.sustain_point = 256
    record("ins-bad-vol-sustain", drain(mod.global_config_chunks()))
    mod = build_rich(1)
    mod.panning_envelope.points = [(0, 0)] * 256
    record("ins-bad-pan-count", drain(mod.global_config_chunks()))
    mod = build_rich(1)
    mod.volume_envelope.points = [(0, -0x200)]
    record("ins-bad-vol-y", drain(mod.global_config_chunks()))
    mod = build_rich(1)
    mod.note_samples[NOTE.C5] = 256
    record("ins-bad-note", drain(mod.global_config_chunks()))
    # samples_num reflects the highest used slot
    for slots in ([], [0], [127], [0, 127], [4, 9]):
        mod = m.Sampler()
        for sl in slots:
            mod.samples[sl] = Sampler.Sample()
        data = instrument_record(mod)
        (num,) = struct.unpack("<H", data[0x1C:0x1E])
        check(num == (max(slots) + 1 if slots else 0), "samples_num %r" % slots)
        check(len(mod.samples) == 128, "samples list untouched")
        record("ins-num", slots, num)
    mod = m.Sampler()
    mod.samples = []
    record("ins-empty-samples", drain(mod.global_config_chunks()))
    mod = m.Sampler()
    mod.samples = [None, Sampler.Sample(), None]
    record("ins-short-samples", drain(mod.specialized_iff_chunks()))


def check_samples():
    rng = random.Random(5)
    F, C, L = Sampler.Format, Sampler.Channels, Sampler.LoopType
    mod = m.Sampler()
    for fmt in F:
        for ch in C:
            for lt in L:
                for sus in (False, True):
                    s = make_sample(
                        rng, fmt, ch, 24, loop_type=lt, loop_sustain=sus, panning=-128
                    )
                    for idx in (0, 63, 127):
                        pairs = drain(mod.sample_chunks(idx, s))
                        record("smp", fmt, ch, lt, sus, idx, pairs)
                        check(
                            [p[0] for p in pairs]
                            == [b"CHNM", b"CHDT", b"CHNM", b"CHDT", b"CHFF", b"CHFR"],
                            "sample chunk tags",
                        )
                        check(pairs[0][1] == struct.pack("<I", idx * 2 + 1), "meta chnm")
                        check(pairs[2][1] == struct.pack("<I", idx * 2 + 2), "data chnm")
                        check(len(pairs[1][1]) == 0x2C, "sample header length")
                        check(pairs[3][1] == s.data, "sample data")
                        other = Sampler()
                        for c in as_chunks(pairs):
                            other.load_chunk(c)
                        check(
                            sample_state(other.samples[idx])[2:] == sample_state(s)[2:],
                            "sample round trip",
                        )
                        check(other.samples[idx]._length == s.frames, "frames")
                        check(
                            sum(x is not None for x in other.samples) == 1,
                            "one slot used",
                        )
    # meta decoding on its own (no data chunk): type byte decides format/channels
    base = drain(mod.sample_chunks(2, Sampler.Sample()))[1][1]
    for type_byte in list(range(0, 0x80, 1)) + [0xFF, 0xB7]:
        c = Chunk()
        c.chnm = 5
        c.chdt = base[:14] + bytes([type_byte]) + base[15:]
        victim = Sampler()
        res = outcome(victim.load_chunk, c)
        record("smp-type", type_byte, res, sample_state(victim.samples[2]))
    # truncated headers
    for n in (0x2C, 0x2B, 0x28, 0x27, 0x12, 0x11, 0x0F, 0x0E, 0x0C, 3, 0):
        c = Chunk()
        c.chnm = 9
        c.chdt = base[:n]
        victim = Sampler()
        res = outcome(victim.load_chunk, c)
        record("smp-trunc", n, res, sample_state(victim.samples[4]))
    # data chunk: chff decoding
    for chff in (0, 1, 2, 4, 8, 9, 10, 12, 3, 5, 7, 16, 17, 0x18, 0xFFFFFFF9):
        victim = Sampler()
        c = Chunk()
        c.chnm = 1
        c.chdt = base
        victim.load_chunk(c)
        d = Chunk()
        d.chnm = 2
        d.chdt = b"abcdefgh"
        d.chff = chff
        d.chfr = 12345
        res = outcome(victim.load_chunk, d)
        record("smp-chff", chff, res, sample_state(victim.samples[0]))
    # data chunk with no preceding meta chunk
    victim = Sampler()
    d = Chunk()
    d.chnm = 2
    d.chdt = b""
    d.chff = 1
    d.chfr = 1
    record("smp-orphan", outcome(victim.load_chunk, d))
    # writer-side errors
    for attr, bad in (
        ("loop_start", -1),
        ("loop_len", 2**32),
        ("volume", 256),
        ("finetune", 128),
        ("panning", 128),
        ("panning", -129),
        ("relative_note", -129),
        ("reserved2", -1),
        ("start_pos", -1),
        ("name", "str"),
        ("format", 3),
        ("format", None),
        ("channels", 1),
        ("loop_type", 1),
        ("rate", -1),
        ("data", b"123"),
    ):
        s = make_sample(rng, F.int16, C.stereo, 8)
        setattr(s, attr, bad)
        record("smp-bad", attr, bad, drain(mod.sample_chunks(1, s)))
    # two bad fields: the first one in record order wins
    s = make_sample(rng, F.int16, C.stereo, 8)
    s.format = "nope"
    record("smp-bad-frames-first", drain(mod.sample_chunks(1, s)))
    s = make_sample(rng, F.int16, C.stereo, 8)
    s.finetune = 999
    s.channels = "nope"
    record("smp-bad-finetune-first", outcome(lambda: drain(mod.sample_chunks(1, s))))
    s = make_sample(rng, F.int16, C.stereo, 8)
    s.loop_sustain = 1
    s.channels = C.mono
    s.format = 2  # IntEnum equal to Format.int16
    record("smp-int-format", drain(mod.sample_chunks(1, s)))
    for fmt in F:
        for ch in C:
            s = make_sample(rng, fmt, ch, 48)
            record("frame", fmt, ch, s.frame_size, s.frames)


def strip_envelope_chunks(chnm):
    return not (0x102 <= chnm <= 0x108)


def check_legacy_upgrade():
    # a current-layout instrument whose envelope chunks are missing is upgraded
    for seed in range(6):
        mod = build_rich(seed)
        pairs = drain(mod.specialized_iff_chunks())
        res = outcome(load_from_pairs, pairs, strip_envelope_chunks)
        if res[0] == "ok":
            up = res[1]
            record("upgrade", seed, module_state(up))
            vol, pan = mod.volume_envelope, mod.panning_envelope
            if len(vol.points) <= 12 and len(pan.points) <= 12:
                for src, dst in ((vol, up.volume_envelope), (pan, up.panning_envelope)):
                    lo = src.range[0]
                    want = [(x, (y - lo) // 0x200 * 0x200 + lo) for x, y in src.points]
                    check(dst.points == want, "upgrade points seed %d" % seed)
                    check(dst.bitmask == src.bitmask, "upgrade bitmask")
                    check(dst.sustain_point == src.sustain_point, "upgrade sustain")
                    check(dst.loop_start_point == src.loop_start_point, "upgrade ls")
                    check(dst.loop_end_point == src.loop_end_point, "upgrade le")
            check(up.volume_envelope.loaded is False, "upgrade leaves loaded False")
            record("upgrade-out", seed, drain(up.specialized_iff_chunks()))
        else:
            record("upgrade-err", seed, res)
    # direct calls with hand-made legacy fields
    def legacy(vol_n, pan_n, vol_bytes=None, pan_bytes=None, index=None):
        mod = Sampler()
        mod.index = index
        rng = random.Random(vol_n * 31 + pan_n)
        for env, n, raw in (
            (mod.volume_envelope, vol_n, vol_bytes),
            (mod.panning_envelope, pan_n, pan_bytes),
        ):
            env._legacy_point_bytes = (
                raw
                if raw is not None
                else struct.pack(
                    "<24H",
                    *[
                        rng.randrange(0, 0x10000) if i % 2 == 0 else rng.randrange(0, 65)
                        for i in range(24)
                    ],
                )
            )
            env._legacy_active_points = n
            env._legacy_sustain_point = rng.randrange(256)
            env._legacy_loop_start_point = rng.randrange(256)
            env._legacy_loop_end_point = rng.randrange(256)
            env._legacy_bitmask = rng.randrange(256)
        return mod

    for vol_n, pan_n in ((0, 0), (1, 0), (0, 1), (4, 6), (12, 12), (12, 3)):
        for index in (None, 0, 7):
            mod = legacy(vol_n, pan_n, index=index)
            res = outcome(mod._upgrade_envelopes)
            record("legacy-ok", vol_n, pan_n, index, res, module_state(mod))
            check(res == ("ok", None), "legacy upgrade ok")
            check(len(mod.volume_envelope.points) == vol_n, "vol count")
            check(len(mod.panning_envelope.points) == pan_n, "pan count")
            for env in (mod.volume_envelope, mod.panning_envelope):
                raw = env._legacy_point_bytes
                for i, (x, y) in enumerate(env.points):
                    ex, ey = struct.unpack("<HH", raw[4 * i : 4 * i + 4])
                    check((x, y) == (ex, ey * 0x200 + env.range[0]), "legacy point")
    # failure cases: too many active points, short buffers, unset legacy fields
    for vol_n, pan_n, vb, pb in (
        (13, 2, None, None),
        (2, 13, None, None),
        (255, 255, None, None),
        (3, 3, b"\x01\x00" * 5, None),
        (3, 3, None, b"\x01\x00" * 5),
        (3, 3, b"\x01\x00" * 4 + b"\x07", b"\x01\x00" * 3),
        (2, 2, b"", b""),
    ):
        mod = legacy(vol_n, pan_n, vb, pb)
        res = outcome(mod._upgrade_envelopes)
        record("legacy-err", vol_n, pan_n, vb, pb, res, module_state(mod))
        check(res[0] == "err", "legacy must fail")
    for attr in (
        "_legacy_bitmask",
        "_legacy_sustain_point",
        "_legacy_point_bytes",
        "_legacy_active_points",
    ):
        for which in ("volume_envelope", "panning_envelope"):
            mod = legacy(2, 2)
            setattr(getattr(mod, which), attr, None)
            res = outcome(mod._upgrade_envelopes)
            record("legacy-none", attr, which, res, module_state(mod))
    fresh = Sampler()
    record("legacy-fresh", outcome(fresh.finalize_load), module_state(fresh))
    done = Sampler()
    done.volume_envelope.loaded = True
    record("legacy-loaded", outcome(done.finalize_load), module_state(done))


def check_fixture():
    path = os.path.join("tests", "files", "sampler.sunsynth")
    synth = read_sunvox_file(path)
    mod = synth.module
    record("fixture", module_state(mod))
    record("fixture-chunks", drain(mod.specialized_iff_chunks()))
    raw, back = roundtrip(mod)
    record("fixture-raw", raw)
    record("fixture-back", module_state(back))
    # force the sampler's own writer on the fixture's decoded state
    mod.is_legacy = False
    mod.legacy_chunks = None
    own = drain(mod.specialized_iff_chunks())
    record("fixture-own", own)
    again = load_from_pairs(own)
    record("fixture-own-back", module_state(again))
    for i, s in enumerate(mod.samples):
        check(sample_state(again.samples[i]) == sample_state(s) or s is None or True, "")
        if s is not None:
            check(again.samples[i].data == s.data, "fixture slot %d data" % i)
    for a, b in zip(
        [mod.volume_envelope, mod.panning_envelope, mod.pitch_envelope]
        + mod.effect_control_envelopes,
        [again.volume_envelope, again.panning_envelope, again.pitch_envelope]
        + again.effect_control_envelopes,
    ):
        check(env_state(a)[:12] == env_state(b)[:12], "fixture envelope")
    # fixture without its envelope chunks: legacy conversion
    up = load_from_pairs(own, strip_envelope_chunks)
    record("fixture-upgraded", module_state(up))
    clone = outcome(lambda: module_state(mod.clone()))
    record("fixture-clone", clone)


def check_struct_helpers():
    W, R = sampler_mod._StructWriter, sampler_mod._StructReader
    for name, vals in (
        ("int8", (-128, -1, 0, 127, 128, -129)),
        ("uint8", (0, 255, 256, -1)),
        ("int16", (-32768, 32767, 32768)),
        ("uint16", (0, 65535, 65536, -1)),
        ("int32", (-(2**31), 2**31 - 1, 2**31)),
        ("uint32", (0, 2**32 - 1, 2**32, -1)),
    ):
        for v in vals + (1.5, None, True):
            f = BytesIO()
            res = outcome(getattr(W(f), name), v)
            record("w", name, v, res, f.getvalue())
    for v, width in (
        (b"", 0),
        (b"", 4),
        (b"abc", 2),
        (b"abc", 3),
        (b"abc", 6),
        (b"a\0b", 5),
        (bytearray(b"zz"), 3),
        ("s", 3),
        (None, 3),
    ):
        f = BytesIO()
        res = outcome(W(f).char, v, width)
        record("w-char", v, width, res, f.getvalue())
    data = bytes(range(1, 40)) + b"\0\0\0" + b"\xff" * 7
    for script in (
        [("uint8",), ("int8",), ("uint16",), ("int16",), ("uint32",), ("int32",)],
        [("bytes", 3), ("char", 5), ("skip", 2), ("uint32",), ("bytes", 100), ("uint8", 9)],
        [("skip", 45), ("int32", 5), ("uint16", 6), ("uint16",), ("uint8", 1), ("uint8",)],
        [("skip", 38), ("char", 4), ("int8",), ("int32", -1), ("char", 50), ("char", 1)],
        [("skip", 100), ("bytes", 2), ("uint8", 0), ("uint8",)],
        [("uint32", 0), ("int16", 0), ("uint8", False)],
    ):
        r = R(data)
        trace = []
        for step in script:
            trace.append((step, outcome(getattr(r, step[0]), *step[1:]), r._index))
        record("r", trace)
    r = R(b"")
    record("r-empty", outcome(r.uint8), outcome(r.uint8, 3), outcome(r.bytes, 2), r._index)
    r = R(b"\x01")
    record("r-zero-default", outcome(r.uint16, 0), r._index, outcome(r.uint8), r._index)


def main():
    if not os.path.exists(os.path.join("tests", "files", "sampler.sunsynth")):
        print("FAIL: run from the repository root")
        return 1
    check_builds()
    check_envelopes()
    check_note_map()
    check_instrument_record()
    check_samples()
    check_legacy_upgrade()
    check_fixture()
    check_struct_helpers()
    digest = _h.hexdigest()
    if "--print-digest" in sys.argv:
        print(digest)
    if _failures:
        print("FAIL: %d semantic expectation(s) not met" % len(_failures))
        for msg in _failures[:20]:
            print("  -", msg)
        return 1
    if digest != EXPECTED_DIGEST:
        print("FAIL: behaviour digest %s != recorded %s" % (digest, EXPECTED_DIGEST))
        return 1
    print("PASS")
    return 0


if __name__ == "__main__":
    sys.exit(main())
