"""Behaviour check for C15 refactoring 2.

Focus: the MetaModule chunk writer/loader (specialized_iff_chunks, load_chunk,
load_label, load_project, chnk) and the Synth writer's attachment hook, plus full
save/load round trips (stand-alone and in-project, nested).

Run:  cd <root> && PYTHONPATH=<root>/src/python /venv/bin/python check.py
"""
import hashlib
import io
import logging
import sys
from struct import pack

from rv.api import Project, Synth, m, read_sunvox_file
from rv.controller import CompactRange, Range
from rv.modules import Chunk as ModChunk
from rv.modules.metamodule import MAX_USER_DEFINED_CONTROLLERS, MetaModule, UserDefined

logging.disable(logging.CRITICAL)

FAILURES = []
OBSERVED = []


def check(cond, msg):
    if not cond:
        FAILURES.append(msg)


def observe(*items):
    OBSERVED.append(repr(items))


def mapping_pairs(mm):
    return [(x.module, x.controller) for x in mm.mappings.values]


def attach_state(mm):
    return [c.attached(mm) for c in mm.user_defined]


def plain(v):
    return getattr(v, "value", v) if not isinstance(v, (int, bool)) else v


def snapshot(mm, depth=0):
    """Everything the property talks about, recursively."""
    snap = {
        "count": mm.user_defined_controllers,
        "mappings": mapping_pairs(mm),
        "labels": [c.label for c in mm.user_defined],
        "attached": attach_state(mm),
        "values": [plain(mm.controller_values[c.name]) for c in mm.user_defined],
        "types": [repr(c.value_type) for c in mm.user_defined],
        "fixed": [plain(mm.controller_values[k]) for k in list(mm.controllers)[:5]],
        "aliases": list(mm.user_defined_aliases),
        "inner": [],
    }
    for mod in mm.project.modules:
        if mod is None:
            snap["inner"].append(None)
        elif isinstance(mod, MetaModule):
            snap["inner"].append(("MetaModule", mod.name, snapshot(mod, depth + 1)))
        else:
            snap["inner"].append(
                (
                    mod.mtype,
                    mod.name,
                    [plain(mod.controller_values[k]) for k in mod.controllers],
                    list(mod.in_links),
                )
            )
    return snap


def build_inner(tag=0):
    p = Project()
    p.name = f"inner{tag}"
    gen = p.new_module(m.Generator, volume=77 + tag, name="g")
    ana = p.new_module(m.AnalogGenerator, waveform="saw")
    ms = p.new_module(m.MultiSynth, transpose=-5)
    flt = p.new_module(m.Filter, name="flt")
    amp = p.new_module(m.Amplifier, dc_offset=-20, inverse=True)
    gen >> flt >> amp >> p.output
    ana >> p.output
    return p


# (module, controller) targets covering range / enum / negative range / boolean
TARGETS = [
    (1, 0),  # Generator.volume
    (2, 1),  # AnalogGenerator.waveform (enum)
    (3, 0),  # MultiSynth.transpose (CompactRange, negative min)
    (4, 3),  # Filter.type (enum)
    (5, 2),  # Amplifier.dc_offset (negative min)
    (5, 3),  # Amplifier.inverse (bool)
    (0, 0),  # unmapped
    (1, 200),  # controller index out of range
    (77, 0),  # module index out of range
    (5, 0),
]


def build_mm(count, tag=0, project=None, labels=None):
    mm = MetaModule(project=project or build_inner(tag), name=f"mm{tag}")
    mm.user_defined_controllers = count
    for i in range(MAX_USER_DEFINED_CONTROLLERS):
        if i < count + 2:
            mm.mappings.values[i] = MetaModule.Mapping(TARGETS[(i + tag) % len(TARGETS)])
    for i, label in (labels or {}).items():
        mm.user_defined[i].label = label
    return mm


def roundtrip_synth(mm):
    data = Synth(mm).read()
    loaded = read_sunvox_file(io.BytesIO(data))
    return data, loaded.module


# ---------------------------------------------------------------------------
# 1. specialized_iff_chunks: exact chunk stream
# ---------------------------------------------------------------------------
def u32(n):
    return pack("<I", n)


def test_written_chunks():
    for count in (0, 1, 4, 9, 96):
        labels = {0: "Vol", 1: "", 3: "x y", 5: "été", 8: "eight", 9: "beyond", 95: "last"}
        mm = build_mm(count, tag=count, labels=labels)
        chunks = list(mm.specialized_iff_chunks())
        check(all(isinstance(c, tuple) and len(c) == 2 for c in chunks), "pairs")
        expect = [
            (b"CHNM", u32(0)),
            (b"CHDT", mm.project.read()),
            (b"CHNM", u32(1)),
            (b"CHDT", mm.mappings.bytes),
            (b"CHNM", u32(2)),
            (b"CHDT", bytes([count, 0, 0, 0, 0, 0, 0, 0])),
        ]
        for i in range(96):
            if i < count and i in labels:
                expect.append((b"CHNM", u32(8 + i)))
                expect.append((b"CHDT", labels[i].encode("utf8") + b"\0"))
        check(chunks == expect, f"chunk stream for count {count}")
        check(all(type(name) is bytes and type(data) is bytes for name, data in chunks), "bytes")
        check(mm.chnk == 104 and type(mm.chnk) is int, "chnk")
        observe(count, [(n, hashlib.sha256(d).hexdigest()) for n, d in chunks])

    # attach state, not the count option, decides which labels are written
    mm = build_mm(3, labels={0: "a", 1: "b", 2: "c", 3: "d"})
    mm.user_defined[1].detach(mm)
    mm.user_defined[3].attach(mm)
    names = [data for name, data in mm.specialized_iff_chunks() if name == b"CHNM"]
    check(names == [u32(0), u32(1), u32(2), u32(8), u32(10), u32(11)], "labels follow attach state")

    # generator is lazy: the embedded project is serialised when its CHDT is reached
    mm = build_mm(1, labels={0: "late"})
    gen = mm.specialized_iff_chunks()
    check(next(gen) == (b"CHNM", u32(0)), "first item")
    mm.project.name = "renamed after first yield"
    name, data = next(gen)
    check(name == b"CHDT" and b"renamed after first yield" in data, "project read lazily")
    rest = list(gen)
    check(rest[-2:] == [(b"CHNM", u32(8)), (b"CHDT", b"late\0")], "tail")

    # label evaluated lazily too
    mm = build_mm(2, labels={0: "one", 1: "two"})
    gen = mm.specialized_iff_chunks()
    for _ in range(6):
        next(gen)
    mm.user_defined[1].label = "changed"
    mm.user_defined[0].label = "first changed"
    tail = list(gen)
    check(tail == [(b"CHNM", u32(8)), (b"CHDT", b"first changed\0"), (b"CHNM", u32(9)), (b"CHDT", b"changed\0")], f"lazy labels {tail}")

    # non-str label -> AttributeError at the point it is reached
    mm = build_mm(1)
    mm.user_defined[0].label = 5
    gen = mm.specialized_iff_chunks()
    got = []
    try:
        for item in gen:
            got.append(item[0])
    except AttributeError:
        check(got == [b"CHNM", b"CHDT"] * 3 + [b"CHNM"], f"error position {got}")
    else:
        check(False, "int label must raise AttributeError")


# ---------------------------------------------------------------------------
# 2. load_chunk / load_label / load_project called directly
# ---------------------------------------------------------------------------
def mk_chunk(chnm, chdt):
    c = ModChunk()
    c.chnm = chnm
    c.chdt = chdt
    return c


def test_load_chunk():
    mm = MetaModule()
    original_project = mm.project
    # options
    mm.load_chunk(mk_chunk(2, bytes([5, 1, 1, 0, 1])))
    check(mm.user_defined_controllers == 5, "options count")
    check(mm.arpeggiator is True and mm.apply_velocity_to_project is True, "options flags")
    check(mm.event_output is True, "inverted option")
    check(mm.receive_notes_from_keyboard is True, "byte 4")
    check(sum(attach_state(mm)) == 0, "load_options alone doesn't recompute attachment")
    check(mm.project is original_project, "project untouched by options")
    # unknown chunk numbers are ignored silently
    before = snapshot(mm)
    for n in (3, 4, 5, 6, 7):
        mm.load_chunk(mk_chunk(n, b"\xff" * 12))
        mm.load_chunk(mk_chunk(n, None))
    check(snapshot(mm) == before, "chnm 3..7 ignored")
    # mappings
    mm.load_chunk(mk_chunk(1, pack("<HHHH", 1, 2, 3, 4)))
    check(mapping_pairs(mm)[:3] == [(1, 2), (3, 4), (0, 0)] and len(mm.mappings.values) == 96, "mappings short")
    mm.load_chunk(mk_chunk(1, b""))
    check(mapping_pairs(mm) == [(0, 0)] * 96, "mappings reset by empty chunk")
    mm.load_chunk(mk_chunk(1, pack("<" + "H" * 200, *range(200))))
    check(len(mm.mappings.values) == 100, "mappings over-long")
    try:
        mm.load_chunk(mk_chunk(1, None))
    except TypeError:
        check(mm.mappings.values == [], "mappings emptied before the failure")
        mm.mappings.reset()
    else:
        check(False, "None mapping payload must raise TypeError")
    # labels
    cases = [
        (8, b"first\0", 0, "first"),
        (9, b"no terminator", 1, "no terminator"),
        (10, b"cut\0here\0", 2, "cut"),
        (11, b"\0", 3, ""),
        (12, b"", 4, ""),
        (13, b"\0junk", 5, ""),
        (14, "été\0".encode("utf8"), 6, "été"),
        (103, b"last\0\0\0", 95, "last"),
        (8, bytearray(b"again\0x"), 0, "again"),
    ]
    for chnm, payload, idx, want in cases:
        mm.load_chunk(mk_chunk(chnm, payload))
        check(mm.user_defined[idx].label == want, f"label chnm {chnm}: {mm.user_defined[idx].label!r}")
        check(type(mm.user_defined[idx].label) is str, "label type")
    check(mm.user_defined[7].label is None, "untouched label stays None")
    check(UserDefined.label is None, "class default label untouched")
    for chnm in (104, 105, 1000):
        try:
            mm.load_chunk(mk_chunk(chnm, b"x\0"))
        except IndexError:
            pass
        else:
            check(False, f"label chnm {chnm} must raise IndexError")
    try:
        mm.load_chunk(mk_chunk(104, None))
    except IndexError:
        pass
    else:
        check(False, "slot is resolved before the payload is looked at")
    try:
        mm.load_chunk(mk_chunk(20, None))
    except TypeError:
        check(mm.user_defined[12].label is None, "label untouched after TypeError")
    else:
        check(False, "None label payload must raise TypeError")
    try:
        mm.load_chunk(mk_chunk(20, b"\xff\xfe\0"))
    except UnicodeDecodeError:
        pass
    else:
        check(False, "invalid utf8 label must raise UnicodeDecodeError")
    try:
        mm.load_chunk(mk_chunk(None, b""))
    except TypeError:
        pass
    else:
        check(False, "chnm None must raise TypeError from the >= comparison")
    # load_label used directly with a low number indexes from the end
    mm.load_label(mk_chunk(7, b"wrap\0"))
    check(mm.user_defined[95].label == "wrap", "load_label negative slot")
    # a subclass may move the options chunk; options win over project/mapping numbers
    class Moved(MetaModule):
        options_chnm = 1
    mv = Moved()
    mv.load_chunk(mk_chunk(1, bytes([9])))
    check(mv.user_defined_controllers == 9 and mapping_pairs(mv) == [(0, 0)] * 96, "options_chnm precedence")
    from rv.modules import MODULE_CLASSES
    MODULE_CLASSES["MetaModule"] = MetaModule  # undo registration side effect of the subclass
    # project
    inner = build_inner(4)
    payload = inner.read()
    mm.load_chunk(mk_chunk(0, payload))
    check(mm.project is not original_project and mm.project.name == "inner4", "project loaded")
    check(mm.project.metamodule is None, "loaded project is not back-linked")
    check(mm.project.read() == payload, "embedded project bytes stable")
    mm.load_project(mk_chunk(0, bytearray(payload)))
    check(mm.project.read() == payload, "bytearray payload")
    synth_payload = Synth(m.Generator()).read()
    mm.load_project(mk_chunk(0, synth_payload))
    check(type(mm.project).__name__ == "Synth", "a synth payload is accepted as is")
    mm.load_project(mk_chunk(0, payload))
    outcomes = []
    for bad in (b"", None, b"XXXX\0\0\0\0", payload[:-3], payload[:40], b"SVOX"):
        mm.load_project(mk_chunk(0, payload))
        keep = mm.project
        try:
            mm.load_project(mk_chunk(0, bad))
        except Exception as e:
            outcomes.append(type(e).__name__)
            check(mm.project is keep, "project kept after failed load")
        else:
            outcomes.append("->" + type(mm.project).__name__)
    observe("bad projects", outcomes)
    check(len(outcomes) == 6, "all malformed payloads tried")
    mm.load_project(mk_chunk(0, payload))
    observe(snapshot(mm))


# ---------------------------------------------------------------------------
# 3. Synth.chunks: recompute hook, plain modules, stale attach state
# ---------------------------------------------------------------------------
def test_synth_writer():
    from rv.errors import EmptySynthError

    try:
        Synth().read()
    except EmptySynthError:
        pass
    else:
        check(False, "empty synth must raise")
    for cls in (m.Generator, m.Amplifier, m.MultiSynth, m.Sampler, m.MultiCtl):
        mod = cls()
        check(not hasattr(mod, "recompute_controller_attachment"), "plain module has no hook")
        data = Synth(mod).read()
        again = read_sunvox_file(io.BytesIO(data))
        check(Synth(again.module).read() == data, f"{cls.__name__} synth stable")
        observe(cls.__name__, hashlib.sha256(data).hexdigest())
    # stale attach state is refreshed by the synth writer, not by the project writer
    mm = build_mm(4, labels={0: "a", 5: "f"})
    mm.option_values["user_defined_controllers"] = 6
    check(sum(attach_state(mm)) == 4, "stale state before write")
    p = Project()
    p.attach_module(mm)
    in_project = p.read()
    check(sum(attach_state(mm)) == 4, "project writer leaves attach state alone")
    loaded = read_sunvox_file(io.BytesIO(in_project)).modules[1]
    check(loaded.user_defined_controllers == 6 and [c.label for c in loaded.user_defined[:6]] == ["a"] + [None] * 5, "in-project stale")
    data = Synth(mm).read()
    check(sum(attach_state(mm)) == 6, "synth writer recomputed attach state")
    loaded = read_sunvox_file(io.BytesIO(data)).module
    check([c.label for c in loaded.user_defined[:6]] == ["a", None, None, None, None, "f"], "labels after recompute")
    observe(hashlib.sha256(in_project).hexdigest(), hashlib.sha256(data).hexdigest())

    # an AttributeError raised *inside* the hook is not swallowed
    class Boom:
        pass
    mm = build_mm(1)
    mm.option_values["user_defined_controllers"] = Boom()
    try:
        Synth(mm).read()
    except TypeError:
        pass
    else:
        check(False, "bad count must surface from the writer")
    mm = build_mm(1)
    del mm.option_values["user_defined_controllers"]
    try:
        Synth(mm).read()
    except KeyError:
        pass
    else:
        check(False, "KeyError inside the hook must surface")
    mm = build_mm(1)
    del mm.__dict__["user_defined"]
    try:
        list(Synth(mm).chunks())
    except AttributeError:
        pass
    else:
        check(False, "AttributeError inside the hook must surface")
    # order of the stream around the hook
    mm = build_mm(2)
    names = [n for n, _ in Synth(mm).chunks()]
    check(names[:2] == [b"SSYN", b"VERS"] and names[-1] == b"SEND", "synth envelope")
    check(names.count(b"CVAL") == 7 and names.count(b"CMID") == 1, "synth cvals")
    check(names[names.index(b"CHNK") + 1 : -1] == [b"CHNM", b"CHDT"] * 3, "chunk tail")


# ---------------------------------------------------------------------------
# 4. Round trips: stand-alone, in-project, nested
# ---------------------------------------------------------------------------
LABELS = {0: "Vol", 1: "", 2: "Trans pose", 4: "9 lives", 5: "été", 7: "a\0b", 40: "forty", 95: "last"}


def expected_label(i, count, labels):
    if i >= count or i not in labels:
        return None
    raw = labels[i]
    return raw.split("\0")[0]


def test_roundtrips():
    digest_src = []
    for count in (0, 1, 2, 3, 6, 8, 11, 41, 95, 96):
        mm = build_mm(count, tag=count, labels=LABELS)
        data, loaded = roundtrip_synth(mm)
        digest_src.append(data)
        check(loaded.user_defined_controllers == count, f"synth count {count}")
        check(mapping_pairs(loaded) == mapping_pairs(mm), f"synth mappings {count}")
        check(
            [c.label for c in loaded.user_defined]
            == [expected_label(i, count, LABELS) for i in range(96)],
            f"synth labels {count}: {[c.label for c in loaded.user_defined][:8]}",
        )
        check(attach_state(loaded) == [True] * count + [False] * (96 - count), f"attach {count}")
        check(loaded.project.name == f"inner{count}", f"embedded project name {count}")
        check(
            [type(x).__name__ for x in loaded.project.modules]
            == [type(x).__name__ for x in mm.project.modules],
            f"embedded modules {count}",
        )
        check(loaded.project.modules[5].dc_offset == -20, "embedded negative value")
        check(loaded.project.modules[5].inverse is True, "embedded bool value")
        data2, loaded2 = roundtrip_synth(loaded)
        if count <= 7:  # label 7 holds an embedded NUL and is truncated on load
            check(data2 == data, f"synth second write identical for count {count}")
        else:
            check(len(data2) == len(data) - 2, f"only the NUL label shrinks for count {count}")
        check(roundtrip_synth(loaded2)[0] == data2, f"synth write is a fixpoint for {count}")
        check(snapshot(loaded2) == snapshot(loaded), f"synth snapshot stable {count}")
        observe(count, snapshot(loaded))

        # drive values through the user controllers, then round trip again
        for i in range(min(count, 10)):
            t = loaded.user_defined[i].value_type
            name = f"user_defined_{i + 1}"
            if repr(t) == "<Range 0..44100>":
                continue  # unresolved mapping: nothing to drive
            if isinstance(t, Range):
                setattr(loaded, name, t.max - 1 if t.min >= 0 else 0)
            elif isinstance(t, type) and t is not bool:
                setattr(loaded, name, list(t)[-1])
        data3, loaded3 = roundtrip_synth(loaded)
        digest_src.append(data3)
        for i in range(count):
            name = f"user_defined_{i + 1}"
            check(
                plain(getattr(loaded3, name)) == plain(getattr(loaded, name)),
                f"count {count} {name} stored value: {getattr(loaded3, name)!r} != {getattr(loaded, name)!r}",
            )
        observe(count, "driven", snapshot(loaded3))

    # in-project and nested three deep
    level3 = build_mm(2, tag=3, labels={0: "deep", 1: "deeper"})
    p2 = build_inner(20)
    p2.attach_module(level3)
    level3 >> p2.output
    level2 = build_mm(7, tag=1, project=p2, labels={0: "l2", 6: "l2-6", 9: "nope"})
    level2.mappings.values[3] = MetaModule.Mapping((6, 2))  # play_patterns of nested mm
    level2.mappings.values[4] = MetaModule.Mapping((6, 6))  # user_defined_2 of nested mm
    top = Project()
    top.name = "top"
    top.attach_module(level2)
    other = top.new_module(m.MetaModule)  # default, empty metamodule
    third = build_mm(96, tag=5, labels={i: f"L{i}" for i in range(96)})
    top.attach_module(third)
    level2 >> top.output
    data = top.read()
    digest_src.append(data)
    loaded_top = read_sunvox_file(io.BytesIO(data))
    check(loaded_top.read() == data, "project second write identical")
    l2 = loaded_top.modules[1]
    check(isinstance(l2, MetaModule) and l2.user_defined_controllers == 7, "l2 count")
    check([c.label for c in l2.user_defined[:10]] == ["l2", None, None, None, None, None, "l2-6", None, None, None], "l2 labels")
    check(mapping_pairs(l2) == mapping_pairs(level2), "l2 mappings")
    l3 = l2.project.modules[6]
    check(isinstance(l3, MetaModule) and l3.user_defined_controllers == 2, "l3 count")
    check([c.label for c in l3.user_defined[:3]] == ["deep", "deeper", None], "l3 labels")
    check(mapping_pairs(l3) == mapping_pairs(level3), "l3 mappings")
    check(l3.project.name == "inner3" and l3.project.modules[1].volume == 80, "l3 project")
    check(loaded_top.modules[2].user_defined_controllers == 0, "empty mm count")
    check(len(loaded_top.modules[2].project.modules) == 1, "empty mm project")
    l96 = loaded_top.modules[3]
    check([c.label for c in l96.user_defined] == [f"L{i}" for i in range(96)], "96 labels")
    check(all(attach_state(l96)), "96 attached")
    observe("nested", snapshot(l2), snapshot(loaded_top.modules[2]), snapshot(l96))
    # stand-alone extraction of the nested module
    d_in, again = roundtrip_synth(l2)
    digest_src.append(d_in)
    check(snapshot(again) == snapshot(l2), "nested stand-alone snapshot")

    # bundled fixtures
    for fn in ("metamodule", "metamodule-option-78", "metamodule-option-79", "metamodule-option-7a"):
        try:
            with open(f"tests/files/{fn}.sunsynth", "rb") as f:
                raw = f.read()
        except OSError:
            continue
        mod = read_sunvox_file(io.BytesIO(raw)).module
        observe(fn, snapshot(mod))
        d1, mod2 = roundtrip_synth(mod)
        digest_src.append(d1)
        check(snapshot(mod2) == snapshot(mod), f"fixture {fn} snapshot stable")
    return hashlib.sha256(b"".join(digest_src)).hexdigest()



EXPECTED_BYTES_DIGEST = "a55a8b13a31c5f6f19d8eca31ea27433f4d8c57e94fc7da5e30f18efb5bbccc9"
EXPECTED_OBS_DIGEST = "fb5c284874ec0987f764e3da9ea5e8c025905d03e7adce04010b0aa18de43157"


def main():
    test_written_chunks()
    test_load_chunk()
    test_synth_writer()
    bytes_digest = test_roundtrips()
    obs_digest = hashlib.sha256("\n".join(OBSERVED).encode()).hexdigest()
    if "--digests" in sys.argv:
        print(bytes_digest, obs_digest)
    check(bytes_digest == EXPECTED_BYTES_DIGEST, f"serialized bytes digest changed: {bytes_digest}")
    check(obs_digest == EXPECTED_OBS_DIGEST, f"observation digest changed: {obs_digest}")
    if FAILURES:
        print("FAIL")
        for f in FAILURES[:40]:
            print(" -", f)
        sys.exit(1)
    print("PASS")


if __name__ == "__main__":
    main()
