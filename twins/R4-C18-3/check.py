"""C18-3 check: nested loads in MetaModule.load_chunk / Sampler.load_chunk.

Focus: embedded projects (MetaModule chunk 0) and embedded effects (Sampler
chunk 0x10A) are loaded by re-entering read_sunvox_file; whatever happens in
the nested load (success, I/O fault at any read of the inner stream, corrupted
or truncated inner data, failure several levels deep) the global strictness
switch is what it was before the outermost call.  Also pins which handler each
chunk number is routed to by the two load_chunk methods.

Run from the repository root:
    PYTHONPATH=<root>/src/python /venv/bin/python check.py
"""
import hashlib
import io
import logging
import os
import struct
import sys
from pathlib import Path
from unittest import mock

import rv.errors as E
import rv.modules.metamodule as MM
import rv.modules.sampler as SM
from rv.api import Project, Synth, m, read_sunvox_file
from rv.lib.iff import chunks as iff_chunks
from rv.lib.iff import write_chunk
from rv.modules.module import Chunk

logging.disable(logging.CRITICAL)

ROOT = Path(os.getcwd())
FILES = ROOT / "tests" / "files"
failures = []


def expect(cond, msg):
    if not cond:
        failures.append(msg)


def outcome(fn):
    try:
        obj = fn()
    except BaseException as e:  # noqa
        return "exc:" + type(e).__name__
    return "ok:" + type(obj).__name__


def parse(data):
    return list(iff_chunks(io.BytesIO(data)))


def serialize(items):
    b = io.BytesIO()
    for name, data in items:
        write_chunk(b, name, data)
    return b.getvalue()


def chunk_boundaries(data):
    pos, out = 0, [0]
    while pos + 8 <= len(data):
        (size,) = struct.unpack("<I", data[pos + 4 : pos + 8])
        out.append(pos + 8)
        pos += 8 + size
        out.append(min(pos, len(data)))
    return sorted(set(out))


def is_embedded(data):
    return data[:4] in (b"SVOX", b"SSYN")


def build_deep_project():
    inner2 = Project()
    sampler = inner2.new_module(m.Sampler)
    sampler.effect = Synth(m.Distortion())
    gen = inner2.new_module(m.Generator)
    gen >> inner2.output
    mm2 = m.MetaModule(project=inner2)
    inner1 = Project()
    inner1.attach_module(mm2)
    mm2 >> inner1.output
    mm1 = m.MetaModule(project=inner1)
    outer = Project()
    outer.attach_module(mm1)
    mm1 >> outer.output
    b = io.BytesIO()
    outer.write_to(b)
    return b.getvalue()


def sources():
    out = []
    for name in (
        "metamodule.sunsynth",
        "metamodule-option-78.sunsynth",
        "sampler.sunsynth",
    ):
        out.append((name, (FILES / name).read_bytes()))
    out.append(("deep", build_deep_project()))
    return out


# -------------------------------------------------- successful nested loads
def check_successful_nested_loads(srcs):
    by_name = dict(srcs)
    for initial in (True, False):
        E.RAISE_CONTROLLER_VALUE_ERRORS = initial
        synth = read_sunvox_file(io.BytesIO(by_name["metamodule.sunsynth"]))
        mm = synth.module
        expect(type(mm).__name__ == "MetaModule", "metamodule type")
        expect(type(mm.project).__name__ == "Project", "embedded project type")
        expect(
            [type(x).__name__ for x in mm.project.modules]
            == ["Output", "AnalogGenerator"],
            "embedded project modules",
        )
        synth = read_sunvox_file(io.BytesIO(by_name["sampler.sunsynth"]))
        expect(type(synth.module.effect).__name__ == "Synth", "embedded effect type")
        expect(synth.module.effect.module is not None, "embedded effect module")
        deep = read_sunvox_file(io.BytesIO(by_name["deep"]))
        lvl1 = deep.modules[1].project
        lvl2 = lvl1.modules[1].project
        expect(type(lvl2.modules[1]).__name__ == "Sampler", "deep sampler")
        expect(
            type(lvl2.modules[1].effect.module).__name__ == "Distortion", "deep effect"
        )
        # round trip is byte exact, so nothing was lost in the nested loads
        b = io.BytesIO()
        deep.write_to(b)
        expect(b.getvalue() == by_name["deep"], "deep round trip")
        expect(E.RAISE_CONTROLLER_VALUE_ERRORS is initial, "flag after ok loads")


# ----------------------------------- faults at every read of nested streams
class CountingBytesIO(io.BytesIO):
    """Stand-in for the BytesIO the modules wrap embedded data in."""

    reads = 0
    fail_at = None
    created = 0
    seen_flags = set()

    def __init__(self, *a, **k):
        type(self).created += 1
        super().__init__(*a, **k)

    def read(self, *a):
        cls = CountingBytesIO
        cls.seen_flags.add(E.RAISE_CONTROLLER_VALUE_ERRORS)
        n = cls.reads
        cls.reads += 1
        if cls.fail_at is not None and n == cls.fail_at:
            raise OSError("injected at nested read %d" % n)
        return super().read(*a)

    @classmethod
    def reset(cls, fail_at=None):
        cls.reads = 0
        cls.created = 0
        cls.fail_at = fail_at
        cls.seen_flags = set()


def check_nested_read_faults(srcs):
    with mock.patch.object(MM, "BytesIO", CountingBytesIO), mock.patch.object(
        SM, "BytesIO", CountingBytesIO
    ):
        for name, data in srcs:
            CountingBytesIO.reset()
            read_sunvox_file(io.BytesIO(data))
            total = CountingBytesIO.reads
            expect(total > 5, name + ": nested stream not read through BytesIO")
            expected_streams = {"deep": 3}.get(name, 1)
            expect(
                CountingBytesIO.created == expected_streams,
                "%s: %d nested streams" % (name, CountingBytesIO.created),
            )
            expect(CountingBytesIO.seen_flags == {False}, name + ": nested flag")
            for initial in (True, False):
                for n in range(total):
                    E.RAISE_CONTROLLER_VALUE_ERRORS = initial
                    CountingBytesIO.reset(fail_at=n)
                    res = outcome(lambda: read_sunvox_file(io.BytesIO(data)))
                    expect(res == "exc:OSError", "%s nested read %d: %s" % (name, n, res))
                    expect(
                        E.RAISE_CONTROLLER_VALUE_ERRORS is initial,
                        "%s: flag wrong after fault at nested read %d" % (name, n),
                    )
                    expect(CountingBytesIO.seen_flags <= {False}, "flag in nested")


# --------------------------------------- corrupted / truncated nested data
def corrupt_variants(inner):
    cuts = set(chunk_boundaries(inner))
    cuts.update(range(0, len(inner), 131))
    cuts.update((1, 4, 7, 8, 9, len(inner) - 1))
    for k in sorted(c for c in cuts if 0 <= c < len(inner)):
        yield "cut%d" % k, inner[:k]
    yield "empty", b""
    yield "garbage", b"\xff" * 64
    yield "swapped-magic", (b"SSYN" if inner[:4] == b"SVOX" else b"SVOX") + inner[4:]
    yield "huge-size", inner[:12] + b"\xff\xff\xff\x7f" + inner[16:]
    yield "doubled", inner + inner


def check_corrupted_nested_data(srcs):
    digest = hashlib.sha256()
    for name, data in srcs:
        items = parse(data)
        idxs = [i for i, (n, d) in enumerate(items) if n == b"CHDT" and is_embedded(d)]
        expect(len(idxs) == 1, name + ": expected one embedded chunk at top level")
        idx = idxs[0]
        inner = items[idx][1]
        variants = list(corrupt_variants(inner))
        # one level further down for the deep project
        if name == "deep":
            inner_items = parse(inner)
            j = [
                i
                for i, (n, d) in enumerate(inner_items)
                if n == b"CHDT" and is_embedded(d)
            ][0]
            inner_inner = inner_items[j][1]
            for label, bad in corrupt_variants(inner_inner):
                rebuilt = inner_items[:j] + [(b"CHDT", bad)] + inner_items[j + 1 :]
                variants.append(("L2-" + label, serialize(rebuilt)))
        # CHNM present but CHDT missing altogether
        variants.append(("no-chdt", None))
        for label, bad in variants:
            if bad is None:
                new_items = items[:idx] + items[idx + 1 :]
            else:
                new_items = items[:idx] + [(b"CHDT", bad)] + items[idx + 1 :]
            blob = serialize(new_items)
            results = set()
            for initial in (True, False):
                E.RAISE_CONTROLLER_VALUE_ERRORS = initial
                res = outcome(lambda: read_sunvox_file(io.BytesIO(blob)))
                results.add(res)
                expect(
                    E.RAISE_CONTROLLER_VALUE_ERRORS is initial,
                    "%s/%s: flag not restored (%s)" % (name, label, res),
                )
            expect(len(results) == 1, "%s/%s: outcome depends on flag" % (name, label))
            digest.update(("%s/%s=%s\n" % (name, label, sorted(results))).encode())
        # outer truncation, cutting through the embedded data as well
        for k in chunk_boundaries(data)[:: 3 if len(data) > 3000 else 1]:
            for initial in (True, False):
                E.RAISE_CONTROLLER_VALUE_ERRORS = initial
                res = outcome(lambda: read_sunvox_file(io.BytesIO(data[:k])))
                expect(
                    E.RAISE_CONTROLLER_VALUE_ERRORS is initial,
                    "%s: flag after outer cut %d" % (name, k),
                )
            digest.update(("%s@%d=%s\n" % (name, k, res)).encode())
    return digest.hexdigest()


def check_nested_out_of_range_value():
    """Lenient handling also applies inside nested loads, strictness after."""
    data = (FILES / "metamodule.sunsynth").read_bytes()
    items = parse(data)
    idx = [i for i, (n, d) in enumerate(items) if n == b"CHDT" and is_embedded(d)][0]
    inner = parse(items[idx][1])
    # first CVAL after the AnalogGenerator's STYP -> out of range volume
    styp = [i for i, (n, d) in enumerate(inner) if n == b"STYP" and d.startswith(b"Analog")][0]
    cval = [i for i, (n, d) in enumerate(inner) if n == b"CVAL" and i > styp][0]
    inner[cval] = (b"CVAL", struct.pack("<i", 0x7FFFFFF))
    items[idx] = (b"CHDT", serialize(inner))
    blob = serialize(items)
    for initial in (True, False):
        E.RAISE_CONTROLLER_VALUE_ERRORS = initial
        synth = read_sunvox_file(io.BytesIO(blob))
        gen = synth.module.project.modules[1]
        expect(gen.volume == 0x7FFFFFF, "nested lenient value kept")
        expect(E.RAISE_CONTROLLER_VALUE_ERRORS is initial, "flag after nested lenient")
    E.RAISE_CONTROLLER_VALUE_ERRORS = True
    try:
        gen.volume = 100000
    except E.ControllerValueError:
        pass
    else:
        expect(False, "API lenient after nested lenient load")


# ------------------------------------------------ load_chunk routing tables
def make_chunk(chnm, chdt=b"data", chff=0, chfr=44100):
    c = Chunk()
    c.chnm, c.chdt, c.chff, c.chfr = chnm, chdt, chff, chfr
    return c


def check_sampler_routing():
    calls = []

    def rec(label):
        def f(self, *args):
            calls.append((label, self, args))

        return f

    def fake_read(stream):
        calls.append(("read", type(stream).__name__, stream.getvalue(), stream.tell()))
        return "EFFECT"

    S = m.Sampler
    patches = [
        mock.patch.object(S, "load_options", rec("options")),
        mock.patch.object(S, "load_instrument", rec("instrument")),
        mock.patch.object(S, "load_sample_meta", rec("meta")),
        mock.patch.object(S, "load_sample_data", rec("data")),
        mock.patch.object(S.Envelope, "load_chdt", rec("env")),
        mock.patch.object(SM, "read_sunvox_file", fake_read),
    ]
    for p in patches:
        p.start()
    try:
        numbers = list(range(0, 0x120)) + [0x1FF, 0x200, 0xFFFF, 0xFFFFFFFF, True, False]
        for options_chnm in (None, 0x50, 0x103, 0x10A):
            for n in numbers:
                s = S()
                if options_chnm is not None:
                    s.options_chnm = options_chnm
                s.is_legacy = False
                opt = s.options_chnm
                chunk = make_chunk(n, b"body%d" % n)
                del calls[:]
                s.load_chunk(chunk)
                if n == opt:
                    want = [("options", s, (chunk,))]
                elif n == 0:
                    want = [("instrument", s, (chunk,))]
                elif n < 0x101:
                    want = [("meta" if n % 2 else "data", s, (chunk,))]
                elif n == 0x101:
                    want = []
                elif n in (0x102, 0x103, 0x104):
                    env = (s.volume_envelope, s.panning_envelope, s.pitch_envelope)[n - 0x102]
                    want = [("env", env, (chunk.chdt,))]
                elif 0x105 <= n <= 0x108:
                    want = [("env", s.effect_control_envelopes[n - 0x105], (chunk.chdt,))]
                elif n == 0x10A:
                    want = [("read", "BytesIO", chunk.chdt, 0)]
                else:
                    want = []
                expect(calls == want, "sampler chnm %r opt %r: %r" % (n, opt, calls))
                expect(
                    s.effect == ("EFFECT" if (n == 0x10A and n != opt) else None),
                    "sampler effect after chnm %r" % n,
                )
                if n == 0x101 and n != opt:
                    expect(s._unknown_0x101 == chunk.chdt, "unknown 0x101 stored")
                else:
                    expect(not hasattr(s, "_unknown_0x101"), "unknown 0x101 unset")
        # legacy bookkeeping happens first, for every chunk number
        for legacy in (None, True, []):
            s = S()
            s.is_legacy = legacy
            s.legacy_chunks = []
            sent = [make_chunk(n) for n in (0x101, 0, 1, 2, 0x103, 0x109, 0x10A, 0x300)]
            for c in sent:
                s.load_chunk(c)
            expect(s.legacy_chunks == sent, "legacy chunks recorded (%r)" % (legacy,))
        s = S()
        s.is_legacy = False
        s.legacy_chunks = None
        s.load_chunk(make_chunk(0x109))  # must not touch legacy_chunks
        # no chunk number at all
        s = S()
        s.is_legacy = False
        expect(outcome(lambda: s.load_chunk(make_chunk(None))) == "exc:TypeError", "None chnm")
        # nested load failing: error propagates, effect untouched
        def boom(stream):
            raise OSError("nested")

        with mock.patch.object(SM, "read_sunvox_file", boom):
            s = S()
            s.is_legacy = False
            s.effect = "previous"
            expect(outcome(lambda: s.load_chunk(make_chunk(0x10A))) == "exc:OSError", "boom")
            expect(s.effect == "previous", "effect changed by failed nested load")
        # missing CHDT is passed on as an empty stream
        del calls[:]
        s = S()
        s.is_legacy = False
        s.load_chunk(make_chunk(0x10A, None))
        expect(calls == [("read", "BytesIO", b"", 0)], "None chdt: %r" % (calls,))
    finally:
        for p in patches:
            p.stop()


class RecordingMappings:
    def __init__(self, log):
        self._log = log

    def reset(self):
        self._log.append(("mappings.reset",))

    @property
    def bytes(self):
        raise AssertionError("bytes getter not expected")

    @bytes.setter
    def bytes(self, value):
        self._log.append(("mappings.bytes", value))


def check_metamodule_routing():
    calls = []

    def rec(label):
        def f(self, *args):
            calls.append((label, self, args))

        return f

    def fake_read(stream):
        calls.append(("read", type(stream).__name__, stream.getvalue(), stream.tell()))
        return "PROJECT"

    M = m.MetaModule
    patches = [
        mock.patch.object(M, "load_options", rec("options")),
        mock.patch.object(M, "load_label", rec("label")),
        mock.patch.object(MM, "read_sunvox_file", fake_read),
    ]
    for p in patches:
        p.start()
    try:
        numbers = list(range(0, 0x80)) + [0x100, 0xFFFF, 0xFFFFFFFF, True, False]
        for options_chnm in (None, 0, 1, 5, 9):
            for n in numbers:
                mm = M()
                if options_chnm is not None:
                    mm.__dict__["options_chnm"] = options_chnm
                opt = mm.options_chnm
                original_project = mm.project
                mm.__dict__["mappings"] = RecordingMappings(calls)
                chunk = make_chunk(n, b"body%d" % n)
                del calls[:]
                result = mm.load_chunk(chunk)
                expect(result is None, "load_chunk returns None")
                if n == opt:
                    want = [("options", mm, (chunk,))]
                elif n == 0:
                    want = [("read", "BytesIO", chunk.chdt, 0)]
                elif n == 1:
                    want = [("mappings.reset",), ("mappings.bytes", chunk.chdt)]
                elif n >= 8:
                    want = [("label", mm, (chunk,))]
                else:
                    want = []
                expect(calls == want, "metamodule chnm %r opt %r: %r" % (n, opt, calls))
                if n == 0 and n != opt:
                    expect(mm.project == "PROJECT", "project assigned")
                else:
                    expect(mm.project is original_project, "project untouched")
        mm = M()
        expect(outcome(lambda: mm.load_chunk(make_chunk(None))) == "exc:TypeError", "None chnm")

        def boom(stream):
            raise OSError("nested")

        with mock.patch.object(MM, "read_sunvox_file", boom):
            mm = M()
            before = mm.project
            expect(outcome(lambda: mm.load_chunk(make_chunk(0))) == "exc:OSError", "boom")
            expect(mm.project is before, "project changed by failed nested load")
            expect(outcome(lambda: mm.load_project(make_chunk(77))) == "exc:OSError", "boom2")
        del calls[:]
        mm = M()
        mm.load_chunk(make_chunk(0, None))
        expect(calls == [("read", "BytesIO", b"", 0)], "None chdt: %r" % (calls,))
        # load_project is usable directly, whatever the chunk number says
        del calls[:]
        mm.load_project(make_chunk(1234, b"xyz"))
        expect(calls == [("read", "BytesIO", b"xyz", 0)], "direct load_project")
        expect(mm.project == "PROJECT", "direct load_project assigns")
    finally:
        for p in patches:
            p.stop()
    # real label/mapping loading still works end to end
    mm = m.MetaModule()
    mm.load_chunk(make_chunk(8, b"Cutoff\0junk"))
    expect(mm.user_defined[0].label == "Cutoff", "label with terminator")
    mm.load_chunk(make_chunk(9, b"Reso"))
    expect(mm.user_defined[1].label == "Reso", "label without terminator")
    src = m.MetaModule()
    pairs = list(src.specialized_iff_chunks())
    mapping_bytes = None
    for (n1, d1), (n2, d2) in zip(pairs, pairs[1:]):
        if n1 == b"CHNM" and d1 == struct.pack("<I", 1) and n2 == b"CHDT":
            mapping_bytes = d2
    expect(mapping_bytes is not None, "mapping chunk emitted")
    dst = m.MetaModule()
    dst.load_chunk(make_chunk(1, mapping_bytes))
    expect(dst.mappings.bytes == mapping_bytes, "mappings round trip through load_chunk")


EXPECTED_DIGEST = "e3d45a568141df9f84ebf4d1fe806f5d843d61b93e24e18d98bdff3ba6ab2ff5"


def main():
    saved = E.RAISE_CONTROLLER_VALUE_ERRORS
    try:
        srcs = sources()
        check_successful_nested_loads(srcs)
        check_nested_read_faults(srcs)
        digest = check_corrupted_nested_data(srcs)
        check_nested_out_of_range_value()
        check_sampler_routing()
        check_metamodule_routing()
    finally:
        E.RAISE_CONTROLLER_VALUE_ERRORS = saved
    if "--print-digest" in sys.argv:
        print(digest)
    expect(digest == EXPECTED_DIGEST, "nested corruption outcomes changed: " + digest)
    if failures:
        for f in sorted(set(failures))[:40]:
            print("FAIL:", f)
        print("FAIL (%d)" % len(failures))
        sys.exit(1)
    print("PASS")


if __name__ == "__main__":
    main()
