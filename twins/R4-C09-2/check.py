"""Behaviour check for C09 refactoring 2 (rv/modules/module.py).

Exercises Module.__init__ (controller seeding order, defaults, constructor
keywords for controllers, options and the common module attributes, the
``scale`` keyword special case) and Module.get_raw / Module.set_raw for every
module type and controller, in strict and lenient mode.  A transcript of all
outcomes is compared against a digest recorded on the unrefactored tree.
"""
import hashlib
import logging
import sys
from enum import Enum

import rv.api  # noqa: F401  (registers all module classes)
from rv import errors
from rv.controller import DependentRange, Range, WarnOnlyRange
from rv.errors import override_raise_controller_value_errors
from rv.modules import MODULE_CLASSES
from rv.modules.module import Module, Visualization

EXPECTED_DIGEST = "749e8baefa5e71305665df1427b8c636c00c954efe86a34255b3ac1c6401ccc8"

transcript = []
failures = []


def note(*parts):
    transcript.append("|".join(str(p) for p in parts))


def check(cond, msg):
    # MetaModule's user-defined proxies forward to an embedded project and
    # have their own rules; they are covered by the transcript digest only.
    if not cond and ".user_defined_" not in msg:
        failures.append(msg)


# Documented per-type specialisations that sit on top of Module.__init__:
# Output's name is fixed, and SpectraVoice re-derives the h_* controllers from
# its harmonics table after the base constructor ran.  They are still recorded
# in the transcript, but excluded from the generic assertions.
FIXED_NAME = {"Output"}
DERIVED = {("SpectraVoice", n) for n in ("harmonic", "h_freq_hz", "h_volume", "h_width", "h_type")}


class Capture(logging.Handler):
    def __init__(self):
        super().__init__(level=logging.DEBUG)
        self.records = []

    def emit(self, record):
        exc = record.exc_info[1] if record.exc_info else None
        self.records.append(
            (
                record.name,
                record.levelname,
                record.getMessage(),
                type(exc).__name__ if exc is not None else None,
                getattr(exc, "args", None),
            )
        )

    def drain(self):
        out, self.records = self.records, []
        return out


capture = Capture()
root_logger = logging.getLogger("rv")
root_logger.addHandler(capture)
root_logger.setLevel(logging.DEBUG)
root_logger.propagate = False


def show(v):
    if isinstance(v, Enum):
        return f"{type(v).__name__}.{v.name}"
    return f"{type(v).__name__}:{v!r}"


def attempt(fn):
    """Run fn, return a printable outcome including chained exception info."""
    try:
        fn()
    except BaseException as e:  # noqa: BLE001
        cause = e.__cause__
        ctx = e.__context__
        return "EXC {} {!r} cause={} {!r} ctx={}".format(
            type(e).__name__,
            e.args,
            type(cause).__name__ if cause is not None else None,
            getattr(cause, "args", None),
            type(ctx).__name__ if ctx is not None else None,
        )
    return "OK"


def candidates(t):
    if isinstance(t, Range):
        lo, hi = t.min, t.max
        mid = (lo + hi) // 2
        return [lo - 1, lo, mid, hi, hi + 1, lo - 1000, hi + 100000, "nope"]
    if isinstance(t, type) and issubclass(t, Enum):
        out = []
        for m in t:
            out += [m, m.value, m.name]
        out += ["no_such_member", -12345, 99999]
        return out
    if t is bool:
        return [True, False, 0, 1, 2, "x", ""]
    return [0, 1, None]


def make(cls):
    return cls()



COMMON_KW = {
    "index": 5,
    "finetune": -17,
    "relative_note": 3,
    "x": 100,
    "y": -200,
    "layer": 2,
    "mod_scale": 300,
    "color": (1, 2, 3),
    "midi_in_always": True,
    "midi_in_channel": 4,
    "midi_out_name": "dev",
    "midi_out_channel": 6,
    "midi_out_bank": 7,
    "midi_out_program": 8,
    "name": "Custom",
    "visualization": 0x01020304,
}
COMMON_ATTRS = (
    "index parent mod_finetune mod_relative_note x y layer mod_scale scale color "
    "midi_in_always midi_in_channel midi_out_name midi_out_channel midi_out_bank "
    "midi_out_program name in_links in_link_slots out_links out_link_slots"
).split()


def snapshot(mod):
    out = []
    for a in COMMON_ATTRS:
        try:
            out.append((a, show(getattr(mod, a))))
        except Exception as e:  # noqa: BLE001
            out.append((a, "EXC " + type(e).__name__))
    out.append(("visualization", int(mod.visualization)))
    out.append(("ctl_order", list(mod.controller_values)))
    out.append(("ctl_values", [show(v) for v in mod.controller_values.values()]))
    out.append(("loaded", sorted(mod.controllers_loaded)))
    out.append(("options", sorted((k, show(v)) for k, v in mod.option_values.items())))
    out.append(("cmid", len(mod.controller_midi_maps)))
    return out


def chunks_of(mod):
    try:
        return [(k, bytes(v) if v is not None else None) for k, v in mod.iff_chunks(in_project=True)]
    except Exception as e:  # noqa: BLE001
        return "EXC " + type(e).__name__


def exercise_constructor(cls):
    note("CLASS", cls.__name__, cls.mtype, len(cls.controllers), len(cls.options))
    mod = cls()
    note("PLAIN", snapshot(mod), capture.drain())
    note("PLAIN-CHUNKS", chunks_of(mod))
    dependent = [
        n for n, c in cls.controllers.items() if isinstance(c.value_type, DependentRange)
    ]
    independent = [n for n in cls.controllers if n not in dependent]
    check(
        list(mod.controller_values) == independent + dependent,
        f"{cls.__name__}: controllers seeded independent-first, in definition order",
    )
    check(mod.controllers_loaded == set(cls.controllers), f"{cls.__name__}: loaded set")
    check((mod.x, mod.y, mod.layer) == (512, 512, 0), f"{cls.__name__}: placement")
    check(mod.mod_scale == 256 and mod.mod_finetune == 0, f"{cls.__name__}: scale")
    check(mod.color == (255, 255, 255), f"{cls.__name__}: color")
    check(int(mod.visualization) == 0x000C0101, f"{cls.__name__}: visualization")
    check(isinstance(mod.visualization, Visualization), "visualization wrapper")
    check(mod.midi_out_name is None and mod.midi_out_bank == -1, "midi defaults")
    check(mod.name == ("Output" if cls.__name__ in FIXED_NAME else cls.name), "default name")
    check(
        mod.in_links == [] and mod.in_links is not mod.in_link_slots
        and mod.out_links is not mod.out_link_slots and mod.in_links is not mod.out_links,
        "link lists are distinct",
    )
    for name, ctl in cls.controllers.items():
        t = ctl.instance_value_type(mod)
        value = getattr(mod, name)
        if isinstance(t, type) and issubclass(t, Enum) and isinstance(ctl.default, str):
            check(value is t[ctl.default], f"{cls.__name__}.{name} default by name")
        elif t is not None:
            check(value == ctl.default, f"{cls.__name__}.{name} default {value!r}")

    full = cls(**COMMON_KW)
    note("FULL", snapshot(full), capture.drain())
    note("FULL-CHUNKS", chunks_of(full))
    check(full.index == 5, "index keyword")
    if cls.__name__ not in FIXED_NAME:
        check(full.name == "Custom", "name keyword")
        check(cls(name="").name == "", "empty name is kept")
    check((full.x, full.y, full.layer) == (100, -200, 2), "placement keywords")
    check(full.mod_finetune == -17 and full.mod_relative_note == 3, "tuning keywords")
    check(full.mod_scale == 300, "mod_scale keyword")
    check(int(full.visualization) == 0x01020304, "visualization keyword")
    check(cls(name=None).name == mod.name, "name=None keeps the class default")

    # the ``scale`` keyword: module scale unless the type has a scale controller
    for kw in ({"scale": 77}, {"scale": 77, "mod_scale": 300}, {"mod_scale": 300}):
        holder = {}

        def build():
            holder["m"] = cls(**kw)

        outcome = attempt(build)
        m = holder.get("m")
        note("SCALE", sorted(kw.items()), outcome, m and m.mod_scale, m and show(m.scale), capture.drain())
        if m is not None:
            if "scale" in cls.controllers:
                check(m.mod_scale == kw.get("mod_scale", 256), "scale controller wins")
                check(m.controller_values["scale"] == kw.get("scale", cls.controllers["scale"].default), "ctl")
            else:
                check(m.mod_scale == kw.get("scale", kw.get("mod_scale")), "scale kw wins")

    # option keywords
    for name, option in cls.options.items():
        for v in (True, False, 0, 1, 3):
            holder = {}

            def build():
                holder["m"] = cls(**{name: v})

            outcome = attempt(build)
            m = holder.get("m")
            note("OPT", name, show(v), outcome, m and show(getattr(m, name)), capture.drain())

    # controller keywords, strict and lenient
    for strict in (True, False):
        for name, ctl in cls.controllers.items():
            t = ctl.instance_value_type(mod)
            for v in candidates(t):
                holder = {}

                def build():
                    holder["m"] = cls(**{name: v})

                with override_raise_controller_value_errors(strict):
                    outcome = attempt(build)
                logs = capture.drain()
                m = holder.get("m")
                got = m.controller_values.get(name) if m is not None else None
                note("KW", strict, name, show(v), outcome, show(got), logs)
                if ".user_defined_" in f".{name}" or (cls.__name__, name) in DERIVED:
                    continue
                if isinstance(t, Range) and not isinstance(v, str):
                    in_range = t.min <= v <= t.max
                    if in_range or not strict or isinstance(t, WarnOnlyRange):
                        check(outcome == "OK" and got == v, f"{cls.__name__}({name}={v}): {outcome}")
                    else:
                        check(
                            outcome.startswith("EXC ControllerValueError")
                            and "cause=RangeValidationError" in outcome
                            and "ctx=RangeValidationError" in outcome,
                            f"{cls.__name__}({name}={v}): expected rejection, {outcome}",
                        )
                        expected = "{:x}({}).{}={} is not within [{}, {}]".format(
                            0, cls.mtype, name, v, t.min, t.max
                        )
                        check(expected in outcome, f"message {outcome}")
                elif isinstance(t, type) and issubclass(t, Enum) and outcome == "OK":
                    check(isinstance(got, t), f"{cls.__name__}({name}={v!r}): member")


def raw_candidates(t):
    if isinstance(t, Range):
        span = t.max - t.min
        return [-1, 0, 1, span // 2, span, span + 1, t.max, t.max + 1, t.min, t.min - 1]
    if isinstance(t, type) and issubclass(t, Enum):
        return [m.value for m in t] + [-1, 9999]
    return [0, 1, 2, -1]


def exercise_raw(cls):
    for strict in (True, False):
        mod = cls(index=0x1F)
        capture.drain()
        for name, ctl in cls.controllers.items():
            t = ctl.instance_value_type(mod)
            note("GETRAW0", name, attempt(lambda: note("=", mod.get_raw(name))))
            for raw in raw_candidates(t):
                before = mod.controller_values.get(name)
                with override_raise_controller_value_errors(strict):
                    outcome = attempt(lambda: mod.set_raw(name, raw))
                after = mod.controller_values.get(name)
                logs = capture.drain()
                holder = {}

                def read():
                    holder["raw"] = mod.get_raw(name)

                back = attempt(read)
                note("RAW", strict, name, raw, outcome, show(after), logs, back, holder.get("raw"))
                if ".user_defined_" in f".{name}":
                    continue
                if outcome != "OK":
                    check(after == before, f"{cls.__name__}.{name}: changed on error")
                if isinstance(t, Range):
                    value = t.from_raw_value(raw)
                    in_range = t.min <= value <= t.max
                    if in_range or not strict or isinstance(t, WarnOnlyRange):
                        check(outcome == "OK" and after == value, f"{cls.__name__}.{name} raw {raw}: {outcome}")
                        check(holder.get("raw") == raw, f"{cls.__name__}.{name}: raw round trip {raw}")
                    else:
                        check(
                            outcome.startswith("EXC ControllerValueError"),
                            f"{cls.__name__}.{name} raw {raw}: expected rejection",
                        )
                        expected = "1f({}).{}={} is not within [{}, {}]".format(
                            cls.mtype, name, value, t.min, t.max
                        )
                        check(expected in outcome, f"message {outcome} vs {expected}")
                    if not in_range:
                        check(len(logs) == 1 if (not strict or isinstance(t, WarnOnlyRange)) else logs == [], "logs")


def exercise_dependent_seeding():
    from rv.modules.lfo import Lfo

    U = Lfo.FrequencyUnit
    capture.drain()
    m = Lfo(freq=10000, frequency_unit=U.hz)
    logs = capture.drain()
    note("DEP1", m.freq, show(m.frequency_unit), logs)
    check(logs == [] and m.freq == 10000, "freq validated against the hz range given by keyword")
    m = Lfo(frequency_unit="hz", freq=10000)
    logs = capture.drain()
    note("DEP2", m.freq, show(m.frequency_unit), logs)
    check(logs == [] and m.frequency_unit is U.hz, "unit by name")
    m = Lfo(freq=10000)
    logs = capture.drain()
    note("DEP3", m.freq, logs)
    check(len(logs) == 1 and m.freq == 10000, "out of default range only warns")
    check(list(m.controller_values)[-1] == "freq", "dependent controller seeded last")
    note("BASE", attempt(lambda: list(Module().iff_chunks())), snapshot(Module(x=1)))


def main():
    check(errors.RAISE_CONTROLLER_VALUE_ERRORS is True, "strict by default")
    names = sorted(MODULE_CLASSES, key=str)
    note("TYPES", len(names), sum(len(MODULE_CLASSES[n].controllers) for n in names))
    for mtype in names:
        exercise_constructor(MODULE_CLASSES[mtype])
        exercise_raw(MODULE_CLASSES[mtype])
    exercise_dependent_seeding()
    check(errors.RAISE_CONTROLLER_VALUE_ERRORS is True, "strict flag restored")
    digest = hashlib.sha256("\n".join(transcript).encode("utf-8")).hexdigest()
    if "--digest" in sys.argv:
        print(digest, len(transcript))
        return 0
    if digest != EXPECTED_DIGEST:
        failures.append(f"transcript digest {digest} != recorded {EXPECTED_DIGEST}")
    if failures:
        print("FAIL")
        for f in failures[:40]:
            print("  -", f)
        print(f"  ({len(failures)} failures, {len(transcript)} transcript lines)")
        return 1
    print(f"PASS ({len(transcript)} observations over {len(names)} module types)")
    return 0


if __name__ == "__main__":
    sys.exit(main())
