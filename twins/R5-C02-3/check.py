"""Behaviour check for the reading side of the .sunsynth round trip:
ModuleReader (names, links, CVAL application order, warnings), SunSynthReader,
and the load_chunk() dispatch of SpectraVoice and MultiSynth.

Files are produced with the library, then individual chunks are replaced by
hand-made ones. Observations (values, exception types, log messages in order)
are asserted and also recorded in a transcript compared to a golden digest
taken on the unchanged tree.
"""
import hashlib
import io
import logging
import struct
import sys
from enum import Enum
from struct import pack

import rv.api  # noqa: F401
from rv.controller import DependentRange, Range
from rv.errors import override_raise_controller_value_errors
from rv.lib.iff import chunks as read_chunks
from rv.modules import MODULE_CLASSES, Chunk
from rv.modules.amplifier import Amplifier
from rv.modules.metamodule import MetaModule
from rv.modules.multisynth import MultiSynth
from rv.modules.spectravoice import SpectraVoice
from rv.readers.module import ModuleReader
from rv.readers.reader import read_sunvox_file
from rv.readers.sunsynth import SunSynthReader
from rv.synth import Synth

GOLDEN = "4a71d4085d3ac4d35c8441440a47ee4223f476c17e8a59aa1b146e99a71a8fc8"

failures = []
transcript = []


def check(cond, msg):
    if not cond:
        failures.append(msg)


def note(label, value):
    transcript.append(f"{label}={value!r}")


class Capture(logging.Handler):
    def __init__(self):
        super().__init__(logging.DEBUG)
        self.records = []

    def emit(self, record):
        if record.name in ("rv.readers.module", "rv.modules.module", "rv.controller"):
            self.records.append((record.name, record.levelname, record.getMessage()))

    def take(self):
        out, self.records = self.records, []
        return out


capture = Capture()
rv_logger = logging.getLogger("rv")
rv_logger.setLevel(logging.DEBUG)
rv_logger.addHandler(capture)
rv_logger.propagate = False


def outcome(fn):
    try:
        return ("ok", fn())
    except Exception as e:  # noqa
        return ("err", type(e).__name__, str(e)[:60])


def parse(data):
    return list(read_chunks(io.BytesIO(data)))


def encode(chunk_list):
    out = io.BytesIO()
    for name, data in chunk_list:
        out.write(name + pack("<I", len(data)) + data)
    return out.getvalue()


def replaced(chunk_list, name, *new_payloads):
    """Replace the first chunk called name by one chunk per payload."""
    out = []
    done = False
    for n, d in chunk_list:
        if n == name and not done:
            out.extend((name, p) for p in new_payloads)
            done = True
        else:
            out.append((n, d))
    assert done, name
    return out


def inserted_before(chunk_list, before, *new_chunks):
    i = [n for n, _ in chunk_list].index(before)
    return chunk_list[:i] + list(new_chunks) + chunk_list[i:]


def module_section(synth_chunks):
    names = [n for n, _ in synth_chunks]
    return synth_chunks[names.index(b"SFFF") :]


def read_module(section):
    return ModuleReader(io.BytesIO(encode(section)), index=1).object


def ctl_values(mod):
    out = []
    for n, c in mod.controllers.items():
        if c.attached(mod):
            v = getattr(mod, n)
            out.append((n, v.value if isinstance(v, Enum) else v))
    return out


amp_chunks = parse(Synth(Amplifier(name="Amp", volume=300, balance=-128, dc_offset=128)).read())
capture.take()

# ------------------------------------------------------------- A. C strings
for payload in (
    b"Hello".ljust(32, b"\0"),
    b"NoNul",
    b"",
    b"\0abc",
    b"a\0b\0c",
    "Ünï cöde".encode("utf8") + b"\0\0",
    b"tab\there\0",
):
    got = outcome(lambda: read_sunvox_file(io.BytesIO(encode(replaced(amp_chunks, b"SNAM", payload)))).module.name)
    expected = payload.split(b"\0")[0].decode("utf8")
    check(got == ("ok", expected), f"SNAM {payload!r}: {got}")
    note(f"SNAM{payload!r}", got)
got = outcome(lambda: read_sunvox_file(io.BytesIO(encode(replaced(amp_chunks, b"SNAM", b"\xff\xfe\0")))))
check(got[:2] == ("err", "UnicodeDecodeError"), f"SNAM invalid utf8: {got}")
got = outcome(lambda: read_sunvox_file(io.BytesIO(encode(replaced(amp_chunks, b"SNAM", b"ok\0\xff")))).module.name)
check(got == ("ok", "ok"), "bytes after the NUL are not decoded")

for payload, expect in (
    (b"Amplifier\0", "Amplifier"),
    (b"Amplifier", "Amplifier"),
    (b"Amplifier\0junk\0", "Amplifier"),
):
    mod = read_sunvox_file(io.BytesIO(encode(replaced(amp_chunks, b"STYP", payload)))).module
    check(type(mod).__name__ == expect and mod.mtype == payload.split(b"\0")[0].decode(), f"STYP {payload!r}")
    check(mod.name == "Amp", f"STYP {payload!r}: name carried over")
for payload in (b"Nope\0", b"\0Amplifier", b"", b"amplifier\0"):
    got = outcome(lambda: read_sunvox_file(io.BytesIO(encode(replaced(amp_chunks, b"STYP", payload)))))
    check(got[:2] == ("err", "KeyError"), f"STYP {payload!r}: {got}")
    note(f"STYP{payload!r}", got)
got = outcome(lambda: read_sunvox_file(io.BytesIO(encode(replaced(amp_chunks, b"STYP", b"\xff\0")))))
check(got[:2] == ("err", "UnicodeDecodeError"), "STYP invalid utf8")

check(read_sunvox_file(io.BytesIO(encode(amp_chunks))).module.midi_out_name is None, "no SMIN")
for payload, expect in ((b"IAC Bus 1\0", "IAC Bus 1"), (b"x", "x"), (b"", ""), (b"\0", ""), (b"a\0b", "a")):
    mod = read_sunvox_file(io.BytesIO(encode(inserted_before(amp_chunks, b"SMIC", (b"SMIN", payload))))).module
    check(mod.midi_out_name == expect, f"SMIN {payload!r}: {mod.midi_out_name!r}")
capture.take()

# ----------------------------------------------------------------- B. links
section = module_section(amp_chunks)


def links_after(*chunks_to_add):
    mod = read_module(inserted_before(section, b"CVAL", *chunks_to_add))
    return mod.in_links, mod.in_link_slots


def i32(*values):
    return pack("<%di" % len(values), *values)


cases = [
    ([(b"SLNK", b"")], ([], [])),
    ([(b"SLNK", i32(1, 2))], ([1, 2], [])),
    ([(b"SLNK", i32(1, -1, -1))], ([1], [])),
    ([(b"SLNK", i32(-1, -1, -1))], ([], [])),
    ([(b"SLNK", i32(-1, 2, -1))], ([-1, 2], [])),
    ([(b"SLNK", i32(-1))], ([], [])),
    ([(b"SLNK", i32(0, -2))], ([0, -2], [])),
    ([(b"SLNK", i32(3, 4)), (b"SLnK", i32(0, 1))], ([3, 4], [0, 1])),
    ([(b"SLNK", i32(3, 4)), (b"SLnK", i32(2, -1))], ([3, 4], [2])),
    ([(b"SLNK", i32(3, 4)), (b"SLnK", i32(-1, -1))], ([3, 4], [])),
    ([(b"SLNK", i32(3, 4)), (b"SLnK", b"")], ([3, 4], [])),
    ([(b"SLnK", i32(-1, 0, -1, -1))], ([], [-1, 0])),
    # a second chunk extends the list; trailing -1 stripping sees earlier entries too
    ([(b"SLNK", i32(5, 6)), (b"SLNK", i32(7, -1))], ([5, 6, 7], [])),
    ([(b"SLNK", i32(5, 6)), (b"SLNK", i32(-1, -1))], ([5, 6], [])),
    ([(b"SLNK", i32(5, -1)), (b"SLNK", i32(8))], ([5, 8], [])),
    ([(b"SLNK", i32(*range(1, 41)))], (list(range(1, 41)), [])),
]
for extra, expected in cases:
    got = links_after(*extra)
    check(got == expected, f"links {extra!r}: {got}")
    note(f"links{extra!r}", got)
for bad in (b"\x01", b"\x01\x00\x00", b"\x01\x00\x00\x00\x02", b"\0" * 7):
    for name in (b"SLNK", b"SLnK"):
        got = outcome(lambda: links_after((name, bad)))
        check(got[:2] == ("err", "error"), f"{name} with {len(bad)} bytes: {got}")
capture.take()

# ------------------------------------------------------------------ C. CVALs
# C1. order in which CVALs are applied, and the log messages
mod = read_sunvox_file(io.BytesIO(encode(amp_chunks))).module
logs = capture.take()
names = list(Amplifier.controllers)
setting = [m for (lg, lv, m) in logs if lg == "rv.readers.module" and m.startswith("Setting ")]
check(len(setting) == len(names), "one debug message per controller")
check([m.split()[1] for m in setting] == names[::-1], "controllers are set last one first")
check(setting[0] == f"Setting {names[-1]} from raw {mod.get_raw(names[-1])}", f"message text: {setting[0]}")
check((mod.volume, mod.balance, mod.dc_offset) == (300, -128, 128), "values at range ends")
check(mod.controllers_loaded == set(names), "controllers_loaded")
note("amp.logs", logs)

# C2. more CVALs than controllers: warnings first (highest index first), then the settings
sec = inserted_before(section, b"CMID", (b"CVAL", pack("<i", 111)), (b"CVAL", pack("<i", -5)), (b"CVAL", pack("<i", 7)))
mod = read_module(sec)
logs = [r for r in capture.take() if r[0] == "rv.readers.module"]
n = len(names)
expected_warnings = [
    ("rv.readers.module", "WARNING", f"Unsupported controller at index {n + 2} with raw value 7"),
    ("rv.readers.module", "WARNING", f"Unsupported controller at index {n + 1} with raw value -5"),
    ("rv.readers.module", "WARNING", f"Unsupported controller at index {n} with raw value 111"),
]
check([r for r in logs if r[1] == "WARNING"] == expected_warnings, f"warnings: {logs[:4]}")
order = [r[1] for r in logs if r[1] == "WARNING" or r[2].startswith("Setting ")]
check(order == ["WARNING"] * 3 + ["DEBUG"] * n, "warnings precede all settings")
check(ctl_values(mod) == ctl_values(read_module(section)), "extra CVALs do not disturb the known ones")
capture.take()
note("extra.logs", logs)

# C3. fewer CVALs than controllers: the leading controllers are set, the rest keep defaults
for keep in (0, 1, 3, n - 1):
    cvals_seen = 0
    sec = []
    for name, data in section:
        if name == b"CVAL":
            cvals_seen += 1
            if cvals_seen > keep:
                continue
        sec.append((name, data))
    mod = read_module(sec)
    logs = [r[2] for r in capture.take() if r[2].startswith("Setting ")]
    check([m.split()[1] for m in logs] == names[:keep][::-1], f"keep {keep}: set order")
    full = dict(ctl_values(read_module(section)))
    defaults = dict(ctl_values(Amplifier()))
    expected = [(k, full[k] if i < keep else defaults[k]) for i, k in enumerate(names)]
    check(ctl_values(mod) == expected, f"keep {keep}: values {ctl_values(mod)}")
    capture.take()

# C4. out-of-range raw value: warning + raw value kept when reading files; error when strict
sec = replaced(section, b"CVAL", pack("<i", 5000))
mod = read_sunvox_file(io.BytesIO(encode(amp_chunks[:2] + sec))).module
logs = capture.take()
check(mod.volume == 5000, "out-of-range value kept on read")
check(any(lv == "WARNING" and "volume=5000 is not within [0, 1024]" in m for (_, lv, m) in logs), "range warning")
note("oor.logs", [r for r in logs if r[1] == "WARNING"])
extra = inserted_before(sec, b"CMID", (b"CVAL", pack("<i", 9)))
with override_raise_controller_value_errors(True):
    got = outcome(lambda: read_module(extra))
logs = capture.take()
check(got[:2] == ("err", "ControllerValueError"), f"strict mode: {got}")
seq = [("W" if lv == "WARNING" else "S") for (lg, lv, m) in logs if lg == "rv.readers.module" and (lv == "WARNING" or m.startswith("Setting "))]
check(seq == ["W"] + ["S"] * n, f"strict mode: everything up to the failing (first) controller was processed: {seq}")

# C5. unit-dependent ranges: every unit, both range ends, stand-alone and via clone()
dependents = 0
for mtype, cls in sorted(MODULE_CLASSES.items()):
    for ctl_name, ctl in cls.controllers.items():
        vt = ctl.value_type
        if not isinstance(vt, DependentRange):
            continue
        for unit, rng in vt.range_map.items():
            for value in (rng.min, rng.max, (rng.min + rng.max) // 2):
                mod = cls(**{vt.ctl_name: unit})
                setattr(mod, ctl_name, value)
                data = Synth(mod).read()
                back = read_sunvox_file(io.BytesIO(data)).module
                check(getattr(back, vt.ctl_name) == unit and getattr(back, ctl_name) == value, f"{cls.__name__}.{ctl_name} {unit!r} {value}")
                check(ctl_values(back) == ctl_values(mod), f"{cls.__name__}.{ctl_name} {unit!r} {value}: all values")
                check(ctl_values(mod.clone()) == ctl_values(mod), f"{cls.__name__}.{ctl_name} {unit!r} {value}: clone")
                check(Synth(back).read() == data, f"{cls.__name__}.{ctl_name} {unit!r} {value}: re-serialise")
                logs = capture.take()
                out_of_range = [m for (_, lv, m) in logs if lv == "WARNING"]
                check(out_of_range == [], f"{cls.__name__}.{ctl_name} {unit!r} {value}: unexpected warnings {out_of_range[:2]}")
                dependents += 1
check(dependents > 50, f"dependent-range cases: {dependents}")
note("dependents", dependents)

# C6. MetaModule user defined controllers
meta = MetaModule()
meta.user_defined_controllers = 4
for i, v in enumerate((10, 20, 30, 32768), 1):
    meta.controller_values[f"user_defined_{i}"] = v
data = Synth(meta).read()
back = read_sunvox_file(io.BytesIO(data)).module
check([back.user_defined_1, back.user_defined_2, back.user_defined_3, back.user_defined_4] == [10, 20, 30, 32768], "MetaModule user defined values")
check(back.user_defined_controllers == 4 and [c.attached(back) for c in back.user_defined[:6]] == [True] * 4 + [False] * 2, "MetaModule attachment after load")
check(Synth(back).read() == data, "MetaModule re-serialise")
logs = [m for (lg, lv, m) in capture.take() if lg == "rv.readers.module" and (lv == "WARNING" or m.startswith("Setting "))]
note("meta.logs", logs)

# ----------------------------------------------------------- D. SunSynthReader
syn = read_sunvox_file(io.BytesIO(encode(amp_chunks)))
check(isinstance(syn, Synth) and syn.loaded_sunsynth_version == (2, 1, 2, 1) and isinstance(syn.loaded_sunsynth_version, tuple), "VERS default")
syn = read_sunvox_file(io.BytesIO(encode(replaced(amp_chunks, b"VERS", bytes([4, 3, 2, 1])))))
check(syn.loaded_sunsynth_version == (1, 2, 3, 4) and syn.sunsynth_version == (2, 1, 2, 1), "VERS reversed")
for bad in (b"", b"\1\2\3", b"\1\2\3\4\5"):
    got = outcome(lambda: read_sunvox_file(io.BytesIO(encode(replaced(amp_chunks, b"VERS", bad)))))
    check(got[:2] == ("err", "error"), f"VERS {bad!r}: {got}")
reader = SunSynthReader(io.BytesIO(encode(amp_chunks[1:])))
check(reader._object is None, "reader is lazy")
syn = reader.object
check(isinstance(syn, Synth) and type(syn.module) is Amplifier and syn.module.volume == 300, "SunSynthReader direct")
check(reader.object is syn, "reader object cached")
reader = SunSynthReader(f=io.BytesIO(encode(amp_chunks[1:2])))
check(reader.object.module is None, "synth file without module")
got = outcome(lambda: reader.object.read())
check(got[:2] == ("err", "EmptySynthError"), "module-less synth refuses to serialise")
# a module without STYP stays a base Module named by SNAM
sec = [c for c in amp_chunks if c[0] != b"STYP"]
syn = read_sunvox_file(io.BytesIO(encode(sec)))
check(type(syn.module).__name__ == "Module" and syn.module.name == "Amp", "no STYP")
capture.take()

# ------------------------------------------------- E. load_chunk() dispatch
def chunk(chnm, chdt):
    c = Chunk()
    c.chnm, c.chdt = chnm, chdt
    return c


sv = SpectraVoice()
HT = SpectraVoice.HarmonicType
sv.load_chunk(chunk(0, pack("<16H", *range(100, 1700, 100))))
check([h.freq_hz for h in sv.harmonics] == list(range(100, 1700, 100)) and sv.harmonic_freqs.values == list(range(100, 1700, 100)), "SV freqs")
check([h.volume for h in sv.harmonics] == [255] + [0] * 15, "SV freqs chunk leaves volumes")
sv.load_chunk(chunk(1, bytes(range(16, 0, -1))))
check([h.volume for h in sv.harmonics] == list(range(16, 0, -1)), "SV volumes")
sv.load_chunk(chunk(2, bytes(range(16))))
check([h.width for h in sv.harmonics] == list(range(16)), "SV widths")
sv.load_chunk(chunk(3, bytes(i % 5 for i in range(16))))
check([h.type for h in sv.harmonics] == [HT(i % 5) for i in range(16)] and sv.harmonic_types.values == [HT(i % 5) for i in range(16)], "SV types")
before = [(h.freq_hz, h.volume, h.width, h.type) for h in sv.harmonics]
for other in (4, 7, 255, None, -1):
    sv.load_chunk(chunk(other, b"\1\2\3"))
check([(h.freq_hz, h.volume, h.width, h.type) for h in sv.harmonics] == before, "SV unknown chnm ignored")
# short data: the array shrinks, remaining harmonics keep their value
sv.load_chunk(chunk(1, b"\x09\x08"))
check(sv.harmonic_volumes.values == [9, 8] and [h.volume for h in sv.harmonics] == [9, 8] + list(range(14, 0, -1)), "SV short volumes")
sv2 = SpectraVoice()
got = outcome(lambda: sv2.load_chunk(chunk(3, bytes([1, 2, 99, 0]))))
check(got[:2] == ("err", "ValueError"), "SV invalid type")
check([h.type for h in sv2.harmonics] == [HT.hsin] * 16, "SV invalid type: harmonics untouched")
got = outcome(lambda: sv2.load_chunk(chunk(0, None)))
check(got[:2] == ("err", "TypeError"), "SV None data")
note("sv", before)

ms = MultiSynth()
defaults = (list(ms.nv_curve.values), list(ms.vv_curve.values), list(ms.np_curve.values), dict(ms.option_values))
ms.load_chunk(chunk(0, bytes(range(128))))
check(ms.nv_curve.values == list(range(128)) and ms.vv_curve.values == defaults[1] and ms.np_curve.values == defaults[2], "MS chnm 0 -> nv curve")
ms.load_chunk(chunk(2, bytes(255 - (i % 256) for i in range(257))))
check(ms.vv_curve.values == [255 - (i % 256) for i in range(257)] and ms.np_curve.values == defaults[2], "MS chnm 2 -> vv curve")
ms.load_chunk(chunk(3, pack("<128H", *range(1000, 1128))))
check(ms.np_curve.values == list(range(1000, 1128)), "MS chnm 3 -> np curve")
check(ms.option_values == defaults[3], "MS curves leave options")
ms.load_chunk(chunk(1, bytes([1, 0, 1, 0, 1, 0, 1, 0, 1, 0, 1, 2])))
note("ms.options", sorted(ms.option_values.items()))
check(ms.option_values != defaults[3], "MS chnm 1 -> options")
check(ms.nv_curve.values == list(range(128)), "MS options chunk leaves curves")
opts = dict(ms.option_values)
for other in (4, 9, None):
    ms.load_chunk(chunk(other, b"\5\6"))
check((ms.nv_curve.values, ms.option_values) == (list(range(128)), opts), "MS unknown chnm ignored")
ms.load_chunk(chunk(3, b""))
check(ms.np_curve.values == [], "MS empty np curve")
ms2 = MultiSynth(nv_values=[i * 2 for i in range(128)], vv_values=[i % 256 for i in range(257)])
ms2.np_curve.values = list(range(128))
ms2.static_note_c5 = True if hasattr(ms2, "static_note_c5") else None
back = read_sunvox_file(io.BytesIO(Synth(ms2).read())).module
check((back.nv_curve.values, back.vv_curve.values, back.np_curve.values, back.option_values) == (ms2.nv_curve.values, ms2.vv_curve.values, ms2.np_curve.values, ms2.option_values), "MS file round trip")
capture.take()

# --------------------------------- F. every module type: write, read, compare
for mtype, cls in sorted(MODULE_CLASSES.items()):
    if mtype == "Output":
        continue
    for which in ("default", "min", "max"):
        mod = cls()
        if which != "default":
            plain = [k for k, c in cls.controllers.items() if not isinstance(c.value_type, DependentRange)]
            for k in plain + [k for k in cls.controllers if k not in plain]:
                c = cls.controllers[k]
                if not c.attached(mod):
                    continue
                t = c.instance_value_type(mod)
                if isinstance(t, Range):
                    setattr(mod, k, t.min if which == "min" else t.max)
                elif t is bool:
                    setattr(mod, k, which == "max")
                elif isinstance(t, type) and issubclass(t, Enum):
                    setattr(mod, k, list(t)[0 if which == "min" else -1])
        data = Synth(mod).read()
        back = read_sunvox_file(io.BytesIO(data)).module
        check(type(back) is cls, f"{cls.__name__}/{which}: type")
        check(ctl_values(back) == ctl_values(mod), f"{cls.__name__}/{which}: values")
        check(back.option_values == mod.option_values, f"{cls.__name__}/{which}: options")
        check(Synth(back).read() == data, f"{cls.__name__}/{which}: re-serialise")
        logs = capture.take()
        setting = [m.split()[1] for (lg, lv, m) in logs if lg == "rv.readers.module" and m.startswith("Setting ")]
        attached = [k for k, c in cls.controllers.items() if c.attached(mod)]
        if cls is not MetaModule:
            check(setting == attached[::-1], f"{cls.__name__}/{which}: application order")
        warnings = [(lg, m) for (lg, lv, m) in logs if lv == "WARNING"]
        note(f"{cls.__name__}/{which}", (ctl_values(back), warnings))

digest = hashlib.sha256("\n".join(transcript).encode("utf-8")).hexdigest()
if GOLDEN != "@" + "GOLDEN@":
    check(digest == GOLDEN, f"golden digest differs: {digest}")
else:
    print("digest", digest)

if failures:
    print("FAIL")
    for f in failures[:40]:
        print(" -", f)
    sys.exit(1)
print(f"PASS ({len(transcript)} recorded observations, {dependents} unit-dependent cases)")
