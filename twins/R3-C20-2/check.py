"""C20-2: MultiCtl.on_value_changed fan-out inside a project.

Compares the values delivered to target controllers with a golden model of the
scaling arithmetic, checks range containment / monotonicity, and pins the edge
cases of link walking.  Must PASS before and after the patch.
"""
import random
import sys

from rv.api import Project, m
from rv.controller import CompactRange, Range

failures = []


def check(cond, msg):
    if not cond:
        failures.append(msg)


def golden_convert(gain, qsteps, smin, smax, dmin, dmax, vmax, value, curve):
    value = (value * gain) / 256
    value = min(value, 32768)
    bucket = int(value / 128)
    offset = value - 128 * bucket
    b = curve[bucket]
    a = curve[bucket + 1] if bucket < 256 else b
    c = min(offset / 128, 1.0)
    value = int((c * a) + ((1.0 - c) * b))
    srange = smax - smin
    if qsteps < 32768:
        step = 32768 / max(qsteps - 1, 1)
        value = int(value / step)
        value = (value * step) / 32768
        value = smin + int(srange * value)
    else:
        value = smin + (srange * value) // 32768
    if vmax is not None:
        value /= 32768 / vmax
    if dmax - dmin > 0:
        value += dmin
    else:
        value = dmin - value
    return int(value)


def golden_delivery(mc, mapping, vt):
    span = vt.max - vt.min
    vmax = None if isinstance(vt, CompactRange) else span
    if mapping.min > mapping.max:
        args = (mapping.max, mapping.min, span, 0)
    else:
        args = (mapping.min, mapping.max, 0, span)
    return vt.min + golden_convert(
        mc.gain, mc.quantization, *args, vmax, mc.value, mc.curve.values
    )


LINEAR = [min(128 * i, 32768) for i in range(257)]
CURVES = {
    "default": None,
    "square": [int((i / 256) ** 2 * 32768) for i in range(257)],
    "steps": [(i // 32) * 4096 for i in range(257)],
    "flat-top": [min(i * 256, 32768) for i in range(257)],
}

# target (module class, controller name): positive, signed, wide, compact ranges
TARGETS = [
    (m.Amplifier, "volume"),
    (m.Amplifier, "balance"),
    (m.Amplifier, "fine_volume"),
    (m.Amplifier, "gain"),
    (m.Amplifier, "bipolar_dc_offset"),
    (m.Lfo, "freq_scale"),
    (m.MultiSynth, "transpose"),
    (m.MultiSynth, "random_pitch"),
]


def build(cls, cname, gain, q, wmin, wmax, curve):
    p = Project()
    mod = p.new_module(cls)
    kw = {} if curve is None else {"curve": list(curve)}
    mc = p.new_module(m.MultiCtl, gain=gain, quantization=q, **kw)
    mc >> mod
    mp = mc.mappings.values[0]
    mp.min, mp.max, mp.controller = wmin, wmax, cls.controllers[cname].number
    return p, mc, mod, mp


def sweep(cls, cname, gain, q, wmin, wmax, curve_name, values):
    p, mc, mod, mp = build(cls, cname, gain, q, wmin, wmax, CURVES[curve_name])
    vt = cls.controllers[cname].value_type
    label = f"{cls.__name__}.{cname} g={gain} q={q} w={wmin}..{wmax} {curve_name}"
    prev = None
    compact = isinstance(vt, CompactRange)
    for v in values:
        mc.value = v
        got = getattr(mod, cname)
        want = golden_delivery(mc, mp, vt)
        if got != want:
            check(False, f"{label}: value {v} -> {got}, expected {want}")
            return
        if not compact or max(wmin, wmax) <= vt.max - vt.min:
            if not vt.min <= got <= vt.max:
                check(False, f"{label}: value {v} -> {got} outside {vt}")
                return
        if prev is not None:
            ok = got >= prev if wmin <= wmax else got <= prev
            if not ok:
                check(False, f"{label}: not monotone at {v}: {prev} -> {got}")
                return
        prev = got


# --- 1. complete value axis for a handful of parameter tuples
FULL = range(0, 32769)
for cls, cname, gain, q, wmin, wmax, cv in [
    (m.Amplifier, "volume", 256, 32768, 0, 32768, "default"),
    (m.Amplifier, "volume", 256, 32768, 32768, 0, "default"),
    (m.Amplifier, "balance", 300, 7, 5000, 25000, "square"),
    (m.Amplifier, "bipolar_dc_offset", 1024, 32768, 25000, 5000, "steps"),
    (m.MultiSynth, "transpose", 256, 32768, 0, 256, "default"),
    (m.MultiSynth, "transpose", 511, 100, 256, 0, "flat-top"),
    (m.Amplifier, "gain", 77, 2, 12345, 12345, "default"),
]:
    sweep(cls, cname, gain, q, wmin, wmax, cv, FULL)

# --- 2. sampled parameter tuples, coarse value axis
rnd = random.Random(20)
COARSE = sorted(set(list(range(0, 32769, 97)) + [1, 127, 128, 129, 32767, 32768]))
EDGE_G = [0, 1, 255, 256, 257, 512, 1023, 1024]
EDGE_Q = [0, 1, 2, 3, 32767, 32768]
EDGE_W = [0, 1, 16384, 32767, 32768]
for n in range(260):
    cls, cname = TARGETS[n % len(TARGETS)]
    gain = rnd.choice(EDGE_G) if rnd.random() < 0.5 else rnd.randint(0, 1024)
    q = rnd.choice(EDGE_Q) if rnd.random() < 0.5 else rnd.randint(0, 32768)
    wmin = rnd.choice(EDGE_W) if rnd.random() < 0.4 else rnd.randint(0, 32768)
    wmax = rnd.choice(EDGE_W) if rnd.random() < 0.4 else rnd.randint(0, 32768)
    if cls.controllers[cname].value_type.__class__ is CompactRange:
        vt = cls.controllers[cname].value_type
        wmin, wmax = wmin % (vt.max - vt.min + 1), wmax % (vt.max - vt.min + 1)
    sweep(cls, cname, gain, q, wmin, wmax, rnd.choice(sorted(CURVES)), COARSE)

# --- 3. pinned numbers (from the library's own test) and multi-link walking
p = Project()
amp1, amp2, amp3 = (p.new_module(m.Amplifier) for _ in range(3))
lfo = p.new_module(m.Lfo)
mc = p.new_module(m.MultiCtl)
mc >> [amp1, amp2, amp3, lfo]
vol = amp1.controllers["volume"].number
mc.mappings.values[0].min, mc.mappings.values[0].max = 32768, 0
mc.mappings.values[0].controller = vol
mc.mappings.values[1].controller = vol
# link 2 (amp3) stays unmapped; link 3 maps to enum / bool / dependent-range controllers
for v, e1, e2 in ((0, 1024, 0), (16384, 512, 512), (32768, 0, 1024), (8192, 768, 256)):
    mc.value = v
    check((amp1.volume, amp2.volume) == (e1, e2), f"pinned {v}: {amp1.volume} {amp2.volume}")
    check(amp3.controller_values == m.Amplifier().controller_values, "unmapped link touched")
before = dict(lfo.controller_values)
for cname in ("type", "waveform", "generator", "freq"):
    mc.mappings.values[3].controller = lfo.controllers[cname].number
    mc.value = 20000
    check(lfo.controller_values == before, f"non-range target {cname} touched")
mc.mappings.values[3].controller = lfo.controllers["amplitude"].number
mc.value = 32768
check(lfo.amplitude == 256 and lfo.volume == 256, "neighbouring controller picked")
mc.mappings.values[3].controller = len(lfo.controllers) + 1
try:
    mc.value = 5
    check(False, "controller number past the end accepted")
except IndexError:
    check(mc.value == 5 and amp2.volume == 0, "earlier links not driven before failure")
mc.mappings.values[3].controller = 0

# --- 4. value is only pushed on a downward propagation and when attached
mc.value = 0
amp2.volume = 777
m.MultiCtl.value.propagate(mc, 32768, down=False, up=True)
check(mc.value == 32768 and amp2.volume == 777, "pushed although down=False")
m.MultiCtl.value.propagate(mc, 32768, down=True, up=False)
check(amp2.volume == 1024, "not pushed on down=True")
mc.controller_values["value"] = 0
check(amp2.volume == 1024, "raw store pushed")
loose = m.MultiCtl()
loose.out_links.append(0)
loose.mappings.values[0].controller = 1
loose.value = 123
check(loose.value == 123, "detached MultiCtl value")
# the handler's own `value` argument is ignored in favour of the stored value
mc.controller_values["value"] = 16384
mc.on_value_changed(0, down=True, up=False)
check(amp2.volume == 512, "handler should use stored value")

# --- 5. more out links than mapping slots: 16 driven, then IndexError
p = Project()
amps = [p.new_module(m.Amplifier) for _ in range(17)]
mc = p.new_module(m.MultiCtl)
mc >> amps
for mp in mc.mappings.values:
    mp.controller = vol
try:
    mc.value = 32768
    check(False, "17 links accepted")
except IndexError:
    pass
check([a.volume for a in amps] == [1024] * 16 + [256], "17 links: which targets were driven")

# --- 6. a broken (-1) link addresses the last module, as before
p = Project()
a, b = p.new_module(m.Amplifier), p.new_module(m.Amplifier)
mc = p.new_module(m.MultiCtl)
last = p.new_module(m.Amplifier)
mc >> [a, b]
mc.mappings.values[0].controller = vol
mc.mappings.values[1].controller = vol
p.connect(~mc, a)
check(mc.out_links == [-1, b.index], f"out_links after disconnect {mc.out_links}")
mc.value = 32768
check((a.volume, b.volume, last.volume) == (256, 1024, 1024), "broken link behaviour")

# --- 7. parameters are read per link: a link to itself changes gain for later links
p = Project()
mc = p.new_module(m.MultiCtl)
amp = p.new_module(m.Amplifier)
mc >> [mc, amp]
mc.mappings.values[0].controller = m.MultiCtl.controllers["gain"].number
mc.mappings.values[1].controller = vol
mc.value = 16384  # gain := 512 first, so the amplifier then sees full scale
check(mc.gain == 512 and amp.volume == 1024, f"self link: gain={mc.gain} vol={amp.volume}")
mc.value = 4096
check(mc.gain == 256 and amp.volume == 128, f"self link 2: gain={mc.gain} vol={amp.volume}")

# --- 8. MultiCtl -> MultiCtl chains
p = Project()
top, mid = p.new_module(m.MultiCtl), p.new_module(m.MultiCtl)
amp = p.new_module(m.Amplifier)
top >> mid >> amp
top.mappings.values[0].controller = m.MultiCtl.controllers["value"].number
top.mappings.values[0].min, top.mappings.values[0].max = 32768, 0
mid.mappings.values[0].controller = amp.controllers["balance"].number
for v, e in ((0, 128), (16384, 0), (32768, -128), (8192, 64)):
    top.value = v
    check(mid.value == 32768 - v and amp.balance == e, f"chain {v}: {mid.value} {amp.balance}")

if failures:
    print("FAIL")
    for f in failures[:40]:
        print("  ", f)
    sys.exit(1)
print("PASS")
