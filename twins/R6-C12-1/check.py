"""Behaviour check for Note.raw_data / Pattern.raw_data (C12, patch 1).

Runs against the tree on PYTHONPATH; prints PASS and exits 0 when the
observable behaviour matches the reference model written here with plain
``struct`` calls.
"""
import io
import random
import struct
import sys

import rv.api as rv
from rv.note import NOTECMD, Note
from rv.pattern import Pattern

FMT = "<BBHHH"
failures = []


def check(cond, msg):
    if not cond:
        failures.append(msg)


def fields(n):
    return (n.note, n.vel, n.module, n.ctl, n.val)


# ---------------------------------------------------------------- Note
EDGE16 = [0, 1, 0xFF, 0x100, 0x1234, 0x7FFF, 0x8000, 0xFFFE, 0xFFFF]
rng = random.Random(12)

for cmd in NOTECMD:
    for vel in (0, 1, 64, 128, 129):
        m, c, v = rng.choice(EDGE16), rng.choice(EDGE16), rng.randrange(0x10000)
        n = Note(note=cmd, vel=vel, module=m, ctl=c, val=v)
        raw = n.raw_data
        check(type(raw) is bytes and len(raw) == 8, f"raw type/len {cmd!r}")
        check(raw == struct.pack(FMT, int(cmd), vel, m, c, v), f"pack {cmd!r} {vel}")
        n2 = Note()
        n2.raw_data = raw
        check(fields(n2) == (int(cmd), vel, m, c, v), f"unpack {cmd!r} {vel}")
        check(all(type(x) is int for x in fields(n2)), "decoded fields are plain ints")
        check(n2 == n, f"roundtrip equality {cmd!r}")
        check(n2.raw_data == raw, "re-encode")

for vel in range(130):
    n = Note(vel=vel)
    check(n.raw_data == struct.pack(FMT, 0, vel, 0, 0, 0), f"vel {vel}")

for m in EDGE16:
    for c in EDGE16:
        for v in EDGE16:
            n = Note(module=m, ctl=c, val=v)
            raw = n.raw_data
            check(raw == struct.pack(FMT, 0, 0, m, c, v), "16-bit fields")
            n2 = Note()
            n2.raw_data = raw
            check(fields(n2) == (0, 0, m, c, v), "16-bit decode")

# every byte image decodes to exactly what struct says, whatever the content
for _ in range(500):
    raw = bytes(rng.randrange(256) for _ in range(8))
    n = Note()
    n.raw_data = raw
    check(fields(n) == struct.unpack(FMT, raw), "arbitrary image decode")
    check(n.raw_data == raw, "arbitrary image re-encode")

# bytes-like inputs
for conv in (bytearray, memoryview):
    n = Note()
    n.raw_data = conv(bytes(range(1, 9)))
    check(fields(n) == struct.unpack(FMT, bytes(range(1, 9))), f"{conv.__name__} input")

# wrong sizes -> struct.error, fields untouched
for bad in (b"", b"1234567", b"123456789"):
    n = Note(vel=7, ctl=9)
    try:
        n.raw_data = bad
    except struct.error:
        pass
    else:
        check(False, f"no struct.error for len {len(bad)}")
    check(fields(n) == (0, 7, 0, 9, 0), "failed decode leaves note untouched")

# out-of-range attribute (assignments are not validated) -> struct.error on encode
for name, value in (("vel", 256), ("module", 0x10000), ("ctl", -1), ("val", 1 << 20)):
    n = Note()
    setattr(n, name, value)
    try:
        n.raw_data
    except struct.error:
        pass
    else:
        check(False, f"no struct.error for {name}={value}")

# ------------------------------------------------------------- Pattern
def image(lines, tracks, seed):
    r = random.Random(seed)
    return bytes(r.randrange(256) for _ in range(lines * tracks * 8))


for lines in (1, 2, 3, 5, 8):
    for tracks in (1, 2, 3, 4, 7, 32):
        p = Pattern(tracks=tracks, lines=lines)
        empty = p.raw_data
        check(type(empty) is bytes and empty == b"\0" * (lines * tracks * 8), "empty image")
        img = image(lines, tracks, lines * 100 + tracks)
        p.raw_data = img
        check(p.raw_data == img, f"pattern roundtrip {lines}x{tracks}")
        for ln in range(lines):
            for tr in range(tracks):
                off = (ln * tracks + tr) * 8
                check(
                    fields(p.data[ln][tr]) == struct.unpack(FMT, img[off : off + 8]),
                    f"cell ({ln},{tr}) in {lines}x{tracks}",
                )
                check(p.data[ln][tr].pattern is p, "cell keeps owner")
        # row-major join of the cells
        check(
            p.raw_data == b"".join(n.raw_data for row in p.data for n in row),
            "row-major order",
        )
        # other buffer types, and trailing bytes are ignored
        for conv in (bytearray, memoryview):
            q = Pattern(tracks=tracks, lines=lines)
            q.raw_data = conv(img + b"\xAA" * 13)
            check(q.raw_data == img, f"{conv.__name__} + trailing bytes")

# short data: cells before the first incomplete one are written, then struct.error
p = Pattern(tracks=2, lines=3)
img = image(3, 2, 5)
for cut in (0, 5, 8, 20, 40, 47):
    p = Pattern(tracks=2, lines=3)
    try:
        p.raw_data = img[:cut]
    except struct.error:
        pass
    else:
        check(False, f"short data {cut} accepted")
    done = cut // 8
    want = img[: done * 8] + b"\0" * (48 - done * 8)
    check(p.raw_data == want, f"partial load for cut={cut}")

# shape changed after the cells were created -> IndexError once outside the grid
p = Pattern(tracks=2, lines=2)
p.data
p.lines = 3
try:
    p.raw_data = image(3, 2, 1)
except IndexError:
    pass
else:
    check(False, "no IndexError for grown lines")
check(p.raw_data == image(3, 2, 1)[:32], "rows inside old grid were loaded")

p = Pattern(tracks=2, lines=2)
p.data
p.tracks = 3
try:
    p.raw_data = image(2, 3, 2)
except IndexError:
    pass
else:
    check(False, "no IndexError for grown tracks")
check(p.raw_data[:16] == image(2, 3, 2)[:16], "first row loaded with new stride")

# shrunk shape: only the addressed cells are replaced, using the new stride
p = Pattern(tracks=4, lines=4)
base = image(4, 4, 3)
p.raw_data = base
p.tracks, p.lines = 2, 3
small = image(3, 2, 4)
p.raw_data = small
for ln in range(4):
    for tr in range(4):
        got = p.data[ln][tr].raw_data
        if ln < 3 and tr < 2:
            off = (ln * 2 + tr) * 8
            check(got == small[off : off + 8], "shrunk: replaced cell")
        else:
            off = (ln * 4 + tr) * 8
            check(got == base[off : off + 8], "shrunk: untouched cell")

# zero-sized shapes set after construction are a no-op
p = Pattern(tracks=2, lines=2)
p.raw_data = image(2, 2, 9)
p.tracks = 0
p.raw_data = b""
p.tracks, p.lines = 2, 0
p.raw_data = b""
p.lines = 2
check(p.raw_data == image(2, 2, 9), "zero-sized load is a no-op")

# cells replaced through the public API are encoded too
p = Pattern(tracks=3, lines=2)
p.set_via_fn(lambda pat, ln, tr: Note(note=NOTECMD.C4, vel=ln + 1, module=tr + 1, ctl=0x0102, val=0xA0B0))
want = b"".join(
    struct.pack(FMT, int(NOTECMD.C4), ln + 1, tr + 1, 0x0102, 0xA0B0)
    for ln in range(2)
    for tr in range(3)
)
check(p.raw_data == want, "set_via_fn cells")

# the PDTA chunk is the raw image
chunks = dict((k, v) for k, v in p.iff_chunks())
check(chunks[b"PDTA"] == want, "PDTA chunk")

# --------------------------------------------------- whole-file round trip
proj = rv.Project()
pat = Pattern(tracks=5, lines=6)
img = bytearray(image(6, 5, 77))
pat.raw_data = bytes(img)
proj.attach_pattern(pat)
buf = io.BytesIO()
proj.write_to(buf)
buf.seek(0)
proj2 = rv.read_sunvox_file(buf)
check(proj2.patterns[0].raw_data == bytes(img), "file round trip")
buf2 = io.BytesIO()
proj2.write_to(buf2)
check(buf2.getvalue() == buf.getvalue(), "file byte-identical on second save")

if failures:
    print("FAIL")
    for f in failures[:20]:
        print("  ", f)
    sys.exit(1)
print("PASS")
