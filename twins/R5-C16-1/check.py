"""Behaviour check for C16 refactoring 1 (Sampler codec). Prints PASS and exits 0.

Run from the repository root:
    PYTHONPATH=$PWD/src/python python check.py
"""
import hashlib
import logging
import random
import struct
import sys
from io import BytesIO

from rv.api import NOTE, Synth, m, read_sunvox_file
from rv.chunks.chunk import Chunk

logging.disable(logging.CRITICAL)

Sampler = m.Sampler
FORMATS = [Sampler.Format.int8, Sampler.Format.int16, Sampler.Format.float32]
CHANNELS = [Sampler.Channels.mono, Sampler.Channels.stereo]
LOOPS = list(Sampler.LoopType)
FAILURES = []


def check(cond, label):
    if not cond:
        FAILURES.append(label)
        print("FAIL:", label, file=sys.stderr)


def expect_raises(exc_type, fn, label):
    try:
        fn()
    except exc_type as e:
        check(type(e) is exc_type, f"{label}: exact type {exc_type.__name__}")
    except Exception as e:  # noqa
        check(False, f"{label}: raised {type(e).__name__}, wanted {exc_type.__name__}")
    else:
        check(False, f"{label}: did not raise {exc_type.__name__}")


# ---------------------------------------------------------------- file helpers


def write(mod):
    f = BytesIO()
    Synth(mod).write_to(f)
    return f.getvalue()


def read(raw):
    return read_sunvox_file(BytesIO(raw)).module


def iff_chunks(raw):
    pos = 0
    out = []
    while pos < len(raw):
        tag = raw[pos : pos + 4]
        (size,) = struct.unpack("<I", raw[pos + 4 : pos + 8])
        out.append((tag, raw[pos + 8 : pos + 8 + size]))
        pos += 8 + size
    return out


def iff_join(chunks):
    return b"".join(t + struct.pack("<I", len(d)) + d for t, d in chunks)


def specialized(raw):
    """[(chnm, {tag: data})] for the module-specific chunks of a written synth."""
    out = []
    seen_chnk = False
    for tag, data in iff_chunks(raw):
        if tag == b"CHNK":
            seen_chnk = True
        elif seen_chnk and tag == b"CHNM":
            out.append((struct.unpack("<I", data)[0], {}))
        elif seen_chnk and tag in (b"CHDT", b"CHFF", b"CHFR"):
            out[-1][1][tag] = data
    return out


def drop_chnms(raw, chnms):
    """Remove whole CHNM groups (CHNM + CHDT/CHFF/CHFR) with the given numbers."""
    out = []
    skipping = False
    seen_chnk = False
    for tag, data in iff_chunks(raw):
        if tag == b"CHNK":
            seen_chnk = True
        if seen_chnk and tag == b"CHNM":
            skipping = struct.unpack("<I", data)[0] in chnms
        elif tag not in (b"CHDT", b"CHFF", b"CHFR"):
            skipping = False
        if not skipping:
            out.append((tag, data))
    return iff_join(out)


def patch_chdt(raw, chnm, fn):
    """Replace CHDT of module chunk `chnm` by fn(old)."""
    out = []
    current = None
    seen_chnk = False
    for tag, data in iff_chunks(raw):
        if tag == b"CHNK":
            seen_chnk = True
        if seen_chnk and tag == b"CHNM":
            current = struct.unpack("<I", data)[0]
        if seen_chnk and tag == b"CHDT" and current == chnm:
            data = fn(data)
        out.append((tag, data))
    return iff_join(out)


# ---------------------------------------------------------------- snapshots


def env_snapshot(env):
    return (
        env.chnm,
        list(env.points),
        env.enable,
        env.sustain,
        env.loop,
        env.sustain_point,
        env.loop_start_point,
        env.loop_end_point,
        env.ctl_index,
        env.gain_pct,
        env.velocity,
        env.loaded,
    )


def sample_snapshot(s):
    if s is None:
        return None
    return (
        bytes(s.data),
        int(s.format),
        int(s.channels),
        s.rate,
        int(s.loop_type),
        s.loop_sustain,
        s.loop_start,
        s.loop_len,
        s.volume,
        s.finetune,
        s.panning,
        s.relative_note,
        s.reserved2,
        s.name,
        s.start_pos,
    )


def snapshot(mod, loaded=True):
    envs = [mod.volume_envelope, mod.panning_envelope, mod.pitch_envelope]
    envs += list(mod.effect_control_envelopes)
    snap = {
        "samples": [sample_snapshot(s) for s in mod.samples],
        "envelopes": [env_snapshot(e)[:-1] + ((e.loaded,) if loaded else ()) for e in envs],
        "note_samples": [(int(k), v) for k, v in mod.note_samples.items()],
        "vibrato": (
            int(mod.vibrato_type),
            mod.vibrato_attack,
            mod.vibrato_depth,
            mod.vibrato_rate,
            mod.volume_fadeout,
        ),
        "ins": (
            mod.instrument_name,
            mod.volume_old,
            mod.ins_finetune,
            mod.ins_relative_note,
            mod.editor_cursor,
            mod.editor_selected_size,
            mod.version,
            mod.max_version,
            mod.unused1,
            mod.unused2,
            mod.unused3,
            mod.unused4,
            mod.unused5,
            mod.unused6,
        ),
        "effect": None if mod.effect is None else mod.effect.read(),
    }
    return snap


def digest(*parts):
    h = hashlib.sha256()
    for p in parts:
        h.update(p if isinstance(p, bytes) else repr(p).encode())
    return h.hexdigest()[:20]


# ---------------------------------------------------------------- builders


def random_points(rng, lo, hi, n):
    xs = sorted(rng.randrange(0, 0x10000) for _ in range(n))
    return [(x, rng.randrange(lo, hi + 1)) for x in xs]


def randomize_envelope(rng, env, n=None, coarse=False):
    lo, hi = env.range
    if n is None:
        n = rng.choice([0, 1, 2, 3, 5, 12, 13, 40])
    pts = random_points(rng, lo, hi, n)
    if coarse:
        pts = [(x, (y // 0x200) * 0x200) for x, y in pts]
    env.points = pts
    env.enable = rng.random() < 0.5
    env.sustain = rng.random() < 0.5
    env.loop = rng.random() < 0.5
    top = max(n - 1, 0)
    env.sustain_point = rng.randint(0, top)
    env.loop_start_point = rng.randint(0, top)
    env.loop_end_point = rng.randint(0, top)
    env.ctl_index = rng.randrange(256)
    env.gain_pct = rng.randrange(256)
    env.velocity = rng.randrange(256)


def random_sample(rng, mod, fmt=None, ch=None, nbytes=None):
    s = mod.Sample()
    s.format = fmt if fmt is not None else rng.choice(FORMATS)
    s.channels = ch if ch is not None else rng.choice(CHANNELS)
    frames = rng.choice([0, 1, 2, 7, 100]) if nbytes is None else None
    if nbytes is None:
        nbytes = frames * s.frame_size
    s.data = bytes(rng.randrange(256) for _ in range(nbytes))
    s.rate = rng.choice([0, 1, 8000, 44100, 48000, 0xFFFFFFFF])
    s.loop_type = rng.choice(LOOPS)
    s.loop_sustain = rng.random() < 0.5
    s.loop_start = rng.choice([0, 1, 0xFFFFFFFF, rng.randrange(1 << 32)])
    s.loop_len = rng.choice([0, 1, 0xFFFFFFFF, rng.randrange(1 << 32)])
    s.volume = rng.randrange(256)
    s.finetune = rng.randint(-128, 127)
    s.panning = rng.randint(-128, 127)
    s.relative_note = rng.randint(-128, 127)
    s.reserved2 = rng.randrange(256)
    s.name = bytes(rng.randrange(1, 256) for _ in range(rng.choice([0, 1, 5, 21, 22])))
    s.start_pos = rng.choice([0, 1, 0xFFFFFFFF, rng.randrange(1 << 32)])
    return s


def random_sampler(seed, slots=None, with_effect=False, coarse_env=False, env_n=None):
    rng = random.Random(seed)
    mod = Sampler()
    if slots is None:
        slots = sorted(rng.sample(range(128), rng.choice([0, 1, 2, 5])))
    for i in slots:
        mod.samples[i] = random_sample(rng, mod)
    for k in mod.note_samples:
        mod.note_samples[k] = rng.randrange(1, 256) if rng.random() < 0.9 else 0
    envs = [mod.volume_envelope, mod.panning_envelope, mod.pitch_envelope]
    envs += mod.effect_control_envelopes
    for env in envs:
        randomize_envelope(rng, env, n=env_n, coarse=coarse_env)
    mod.vibrato_type = rng.choice(list(mod.VibratoType))
    mod.vibrato_attack = rng.randrange(256)
    mod.vibrato_depth = rng.randrange(256)
    mod.vibrato_rate = rng.randrange(64)
    mod.volume_fadeout = rng.randrange(8193)
    mod.instrument_name = bytes(
        rng.randrange(1, 256) for _ in range(rng.choice([0, 3, 22]))
    )
    mod.volume_old = rng.randrange(256)
    mod.ins_finetune = rng.randint(-128, 127)
    mod.ins_relative_note = rng.randint(-128, 127)
    mod.editor_cursor = rng.randint(-(1 << 31), (1 << 31) - 1)
    mod.editor_selected_size = rng.randint(-(1 << 31), (1 << 31) - 1)
    mod.unused1 = rng.randrange(1 << 32)
    mod.unused2 = rng.randrange(1 << 16)
    mod.unused3 = rng.randrange(1 << 16)
    mod.unused4 = rng.randrange(1 << 32)
    mod.unused5 = rng.randrange(256)
    mod.unused6 = rng.randrange(1 << 32)
    if with_effect:
        fx = m.Filter()
        fx.freq = rng.randrange(100, 14000)
        mod.effect = Synth(fx)
    return mod


def chunk(chnm, chdt, chff=None, chfr=None):
    c = Chunk()
    c.chnm = chnm
    c.chdt = chdt
    if chff is not None:
        c.chff = chff
    if chfr is not None:
        c.chfr = chfr
    return c


def roundtrip_ok(mod, label):
    """write -> read -> compare; returns (raw, loaded module)."""
    raw = write(mod)
    back = read(raw)
    before = snapshot(mod, loaded=False)
    after = snapshot(back, loaded=False)
    for key in before:
        check(before[key] == after[key], f"{label}: {key} survives save/load")
    check(back.is_legacy is False and back.legacy_chunks is None, f"{label}: not legacy")
    raw2 = write(back)
    check(raw2 == raw, f"{label}: second write is byte-identical")
    return raw, back


GOLDEN_RESULTS = {}


def golden(name, value):
    GOLDEN_RESULTS[name] = value
    if REGEN:
        return
    check(name in GOLDEN, f"golden {name} known")
    check(GOLDEN.get(name) == value, f"golden {name}: {value} == {GOLDEN.get(name)}")


def finish():
    if REGEN:
        print("GOLDEN = {")
        for k, v in GOLDEN_RESULTS.items():
            print(f"    {k!r}: {v!r},")
        print("}")
        return
    check(set(GOLDEN) == set(GOLDEN_RESULTS), "all goldens visited")
    if FAILURES:
        print(f"{len(FAILURES)} check(s) failed")
        sys.exit(1)
    print("PASS")


REGEN = "--regen" in sys.argv

GOLDEN = {
    'rt-100': '93de0efb0935d18077d4',
    'rt-101': '679b1eab3d7f3e150d2f',
    'rt-102': '19ecb0be938e84f40ad3',
    'rt-103': '5d9a6fbcff9705c5224b',
    'rt-104': '52b3f6076a4cb924333e',
    'rt-105': '391572d0c913acde39b5',
    'rt-106': '09e51ac43493a2b15327',
    'rt-107': 'c80985e6ca3de296a1c9',
    'rt-108': 'c74d19fcf0bad74cdbe1',
    'rt-109': 'a1bffff81d80311b77bc',
    'rt-110': 'c0cbcbe7f73f533384fc',
    'rt-111': '590befa7d0d68869a2ee',
    'rt-default': 'c665ea9372f6fad33025',
    'rt-fixture': 'e8e81adb230cc3628026',
    'env-defaults': 'c9c62d6f33470ac3d84a',
    'env-default-point-bytes': '77c51c8d71535748587a',
    'env-random': '17f63f0e64a39812070b',
    'env-extreme': '19d904b152300db3e2ed',
    'notemap': '8b60ed6e98a3b657331c',
    'legacy-noenv-200': '29c4cb7a7bcfb4dd436e',
    'legacy-unsigned-200': '2ff8c609cd84aa10b34b',
    'legacy-noenv-201': 'b98d4c47ed958d6c9cdd',
    'legacy-unsigned-201': 'aa3be1ebbe61aa8f348b',
    'legacy-noenv-202': 'ca7f07483c6e03c84642',
    'legacy-unsigned-202': '5efee1889166d91e6052',
    'legacy-noenv-203': '39396faf08b88092e025',
    'legacy-unsigned-203': '32ebef153f9e8dfc1f04',
    'legacy-noenv-204': 'd00829902eafb503bf7c',
    'legacy-unsigned-204': 'e438ed251e3c29eaacf2',
    'legacy-noenv-205': 'cf70a82a5857479a3f5e',
    'legacy-unsigned-205': '4b9f0fcaa5a37bb45af9',
}


# ---------------------------------------------------------------- round trips


def section_roundtrips(seeds):
    for seed in seeds:
        mod = random_sampler(seed, with_effect=(seed % 3 == 0))
        raw, back = roundtrip_ok(mod, f"random sampler {seed}")
        golden(f"rt-{seed}", digest(raw))
        # slots stay where they were put
        check(
            [i for i, s in enumerate(back.samples) if s is not None]
            == [i for i, s in enumerate(mod.samples) if s is not None],
            f"random sampler {seed}: slot indices kept",
        )
        clone = Synth(mod).clone().module
        check(snapshot(clone) == snapshot(back), f"random sampler {seed}: clone == reload")
    # default, untouched sampler
    raw, back = roundtrip_ok(Sampler(), "default sampler")
    golden("rt-default", digest(raw))
    # shipped fixture
    fixture = read_sunvox_file("tests/files/sampler.sunsynth").module
    raw, back = roundtrip_ok(fixture, "fixture")
    golden("rt-fixture", digest(raw, snapshot(back)))


# ---------------------------------------------------------------- envelopes


def expected_env_chdt(env):
    """Independent re-statement of the envelope CHDT layout."""
    flags = (1 if env.enable else 0) | (2 if env.sustain else 0) | (4 if env.loop else 0)
    out = struct.pack("<H", flags)
    out += bytes([env.ctl_index, env.gain_pct, env.velocity, 0, 0, 0])
    out += struct.pack(
        "<4H", len(env.points), env.sustain_point, env.loop_start_point, env.loop_end_point
    )
    out += bytes(4)
    for x, y in env.points:
        out += struct.pack("<H", x) + struct.pack("<H", y - env.range[0])
    return out


def expected_point_bytes(env):
    """Independent re-statement of the 12-point legacy table (incl. padding quirk)."""
    base = env.range[0] // 0x200
    out = b""
    for i in range(12):
        if i < len(env.points):
            x, y = env.points[i]
            out += struct.pack("<HH", x, y // 0x200 - base)
        else:
            out += struct.pack("<HH", 0, 0 - base)
    return out


def all_envelopes(mod):
    return [mod.volume_envelope, mod.panning_envelope, mod.pitch_envelope] + list(
        mod.effect_control_envelopes
    )


def section_envelopes():
    rng = random.Random(1601)
    mod = Sampler()
    envs = all_envelopes(mod)
    check([e.chnm for e in envs] == list(range(0x102, 0x109)), "envelope chunk numbers")
    check(
        [type(e).__name__ for e in envs]
        == ["VolumeEnvelope", "PanningEnvelope", "PitchEnvelope"]
        + ["EffectControlEnvelope"] * 4,
        "envelope classes",
    )
    # defaults
    for env in envs:
        got = list(env.chunks())
        check(
            got == [(b"CHNM", struct.pack("<I", env.chnm)), (b"CHDT", expected_env_chdt(env))],
            f"default chunks {env.chnm:#x}",
        )
        check(env.points is not type(env).initial_points, "points list is a copy")
        check(env.points == type(env).initial_points, "points start at the defaults")
        check(env.loaded is False, "fresh envelope not loaded")
    golden("env-defaults", digest([list(e.chunks()) for e in envs]))
    golden("env-default-point-bytes", digest([e.point_bytes for e in envs]))

    # many random envelopes: chunks() layout, load_chdt inverse, point_bytes
    acc = []
    for trial in range(60):
        for env in envs:
            randomize_envelope(rng, env)
            tag_chnm, tag_chdt = list(env.chunks())
            chdt = tag_chdt[1]
            check(tag_chnm == (b"CHNM", struct.pack("<I", env.chnm)), "CHNM first")
            check(tag_chdt[0] == b"CHDT" and chdt == expected_env_chdt(env), "CHDT layout")
            check(len(chdt) == 0x14 + 4 * len(env.points), "CHDT length")
            pb = env.point_bytes
            check(pb == expected_point_bytes(env), f"point_bytes {env.chnm:#x} n={len(env.points)}")
            check(len(pb) == 48, "point_bytes is 12 x/y pairs")
            check(len(env._x_values) == 12 and len(env._y_values) == 12, "padded columns")
            check(
                env._x_values == ([x for x, _ in env.points] + [0] * 12)[:12], "x column"
            )
            check(
                env._y_values == ([y // 0x200 for _, y in env.points] + [0] * 12)[:12],
                "y column",
            )
            fresh = type(env)(env.chnm) if type(env).__name__ == "EffectControlEnvelope" else type(env)()
            fresh.load_chdt(chdt)
            check(fresh.loaded is True, "load_chdt marks loaded")
            check(env_snapshot(fresh)[:-1] == env_snapshot(env)[:-1], "load_chdt inverts chunks")
            check(all(type(p) is tuple for p in fresh.points), "points are tuples")
            # trailing garbage after the declared points is ignored
            fresh2 = type(fresh)(env.chnm) if type(env).__name__ == "EffectControlEnvelope" else type(env)()
            fresh2.load_chdt(chdt + b"\xff" * 7)
            check(fresh2.points == env.points, "extra trailing bytes ignored")
            acc.append((chdt, pb))
    golden("env-random", digest(acc))

    # bitmask property both ways
    env = Sampler.VolumeEnvelope()
    for value in range(16):
        env.bitmask = value
        check(
            (env.enable, env.sustain, env.loop)
            == (bool(value & 1), bool(value & 2), bool(value & 4)),
            "bitmask setter",
        )
        check(env.bitmask == value & 7, "bitmask getter")
        check(type(env.enable) is bool, "flags are bools")

    # header-only CHDT of exactly 16 bytes with zero points is accepted
    env = Sampler.PanningEnvelope()
    env.load_chdt(struct.pack("<HBBB3xHHHH", 5, 9, 8, 7, 0, 3, 2, 1))
    check(
        env_snapshot(env)
        == (0x103, [], True, False, True, 3, 2, 1, 9, 8, 7, True),
        "16-byte header-only CHDT",
    )
    # the three pad bytes and the four reserved bytes are ignored on load
    env = Sampler.PitchEnvelope()
    body = struct.pack("<HBBB", 2, 1, 2, 3) + b"\xaa\xbb\xcc" + struct.pack("<HHHH", 2, 0, 1, 1)
    body += b"\xde\xad\xbe\xef" + struct.pack("<HHHH", 7, 0, 9, 0x8000)
    env.load_chdt(body)
    check(env.points == [(7, -0x4000), (9, 0x4000)], "pitch points rebased by range")
    check((env.enable, env.sustain, env.loop) == (False, True, False), "pitch flags")

    # truncated data: struct.error, and what was decoded so far stays
    env = Sampler.VolumeEnvelope()
    good = struct.pack("<HBBB3xHHHH4x", 1, 0, 100, 0, 3, 0, 0, 0) + struct.pack(
        "<HHHH", 1, 2, 3, 4
    )
    expect_raises(struct.error, lambda: env.load_chdt(good), "3 points declared, 2 present")
    check(env.points == [(1, 2), (3, 4)], "points decoded before the failure are kept")
    check(env.loaded is False, "failed load does not mark loaded")
    env = Sampler.VolumeEnvelope()
    expect_raises(struct.error, lambda: env.load_chdt(good + b"\x01\x02"), "half a point")
    check(env.points == [(1, 2), (3, 4)], "half point: earlier points kept")
    env = Sampler.VolumeEnvelope()
    before = env_snapshot(env)
    expect_raises(struct.error, lambda: env.load_chdt(good[:15]), "short header")
    check(env_snapshot(env) == before, "short header leaves envelope untouched")
    expect_raises(struct.error, lambda: env.load_chdt(b""), "empty CHDT")

    # out-of-range values: struct.error on write, after the CHNM was produced
    env = Sampler.PanningEnvelope()
    env.points = [(0, -0x4001)]
    it = env.chunks()
    check(next(it) == (b"CHNM", struct.pack("<I", 0x103)), "CHNM produced first")
    expect_raises(struct.error, lambda: next(it), "y below range")
    env.points = [(0x10000, 0)]
    expect_raises(struct.error, lambda: list(env.chunks()), "x too wide")
    env.points = [(0, 0)]
    env.gain_pct = 256
    expect_raises(struct.error, lambda: list(env.chunks()), "gain too wide")
    env.gain_pct = 100
    env.sustain_point = -1
    expect_raises(struct.error, lambda: list(env.chunks()), "negative sustain point")
    env.sustain_point = 0
    env.points = [(1, 2, 3)]
    expect_raises(ValueError, lambda: list(env.chunks()), "malformed point")
    env.points = [(0x10000, 0)]
    expect_raises(struct.error, lambda: env.point_bytes, "legacy x too wide")
    env.points = [(0, -0x4200)]
    expect_raises(struct.error, lambda: env.point_bytes, "legacy y below range")

    # extreme but legal values
    env = Sampler.VolumeEnvelope()
    env.points = [(0, 0), (0xFFFF, 0x8000)] + [(i, 0x200 * i) for i in range(30)]
    env.sustain_point = env.loop_start_point = env.loop_end_point = 0xFFFF
    env.ctl_index = env.gain_pct = env.velocity = 255
    check(list(env.chunks())[1][1] == expected_env_chdt(env), "extreme values layout")
    check(env.point_bytes == expected_point_bytes(env), "extreme values legacy table")
    golden("env-extreme", digest(list(env.chunks()), env.point_bytes))
    # y above the range top still fits the 16-bit field and survives
    env = Sampler.VolumeEnvelope()
    env.points = [(5, 0xFFFF)]
    twin = Sampler.VolumeEnvelope()
    twin.load_chdt(list(env.chunks())[1][1])
    check(twin.points == [(5, 0xFFFF)], "y up to 16-bit max survives")


def section_note_map():
    nm = Sampler.NoteSampleMap()
    keys = list(nm)
    check(len(nm) == 119, "119 notes")
    check(keys[0] is NOTE.C0 and keys[-1] is NOTE.a9, "C0..a9")
    check([k.value for k in keys] == list(range(NOTE.C0.value, NOTE.a9.value + 1)), "ordered")
    check(all(type(k) is NOTE for k in keys), "NOTE keys")
    check(nm.bytes == bytes(119), "default map bytes")
    check(isinstance(nm, dict) and type(nm.bytes) is bytes, "types")
    other = Sampler.NoteSampleMap()
    check(other == nm and other is not nm, "independent maps")
    rng = random.Random(1602)
    acc = []
    for n in (0, 1, 96, 118, 119, 120, 128, 300):
        value = bytes(rng.randrange(256) for _ in range(n))
        nm = Sampler.NoteSampleMap()
        for k in list(nm)[100:]:
            nm[k] = 200
        nm.bytes = value
        untouched = bytes(100) + bytes([200] * 19)
        expect = (value + untouched[n:])[:119]
        check(nm.bytes == expect, f"setter with {n} bytes")
        check(len(nm) == 119 and list(nm) == keys, "setter never adds or reorders keys")
        acc.append(nm.bytes)
    golden("notemap", digest(acc))
    nm = Sampler.NoteSampleMap()
    nm.bytes = [1, 2, 3]
    check(nm.bytes[:4] == b"\x01\x02\x03\x00", "setter accepts any iterable of ints")
    nm.bytes = iter([9, 8])
    check(nm.bytes[:4] == b"\x09\x08\x03\x00", "setter accepts an iterator")
    nm[NOTE.C0] = 256
    expect_raises(ValueError, lambda: nm.bytes, "value above 255")
    nm[NOTE.C0] = -1
    expect_raises(ValueError, lambda: nm.bytes, "negative value")
    nm = Sampler.NoteSampleMap()
    expect_raises(TypeError, lambda: setattr(nm, "bytes", 5), "non-iterable")
    # in a module: every one of the 119 entries survives save/load
    mod = Sampler()
    for i, k in enumerate(mod.note_samples):
        mod.note_samples[k] = 255 - i
    back = read(write(mod))
    check(back.note_samples == mod.note_samples, "full map survives")
    check(list(back.note_samples.values()) == [255 - i for i in range(119)], "map values")


# ---------------------------------------------------------------- legacy layouts

ENVELOPE_CHNMS = set(range(0x102, 0x109))


def chdts(raw):
    return [(n, parts[b"CHDT"]) for n, parts in specialized(raw)]


def expected_upgraded_points(env):
    """What a pre-envelope file can carry: at most 12 points, y in 0x200 steps."""
    lo = env.range[0]
    if len(env.points) > 12:
        return None
    return [(x, ((y // 0x200 - lo // 0x200) * 0x200) + lo) for x, y in env.points]


def section_legacy(seeds):
    for seed in seeds:
        rng = random.Random(seed)
        mod = random_sampler(seed, coarse_env=True, env_n=rng.choice([0, 1, 4, 11, 12]))
        raw = write(mod)

        # variant 1: file written before the envelope chunks existed
        old = read(drop_chnms(raw, ENVELOPE_CHNMS))
        check(old.is_legacy is False, f"legacy {seed}: signature still current")
        for name in ("volume_envelope", "panning_envelope"):
            src, got = getattr(mod, name), getattr(old, name)
            check(got.loaded is False, f"legacy {seed}: {name} came from the record")
            check(got.points == src.points, f"legacy {seed}: {name} points converted")
            check(got.points == expected_upgraded_points(src), f"legacy {seed}: {name} formula")
            check(
                (got.enable, got.sustain, got.loop) == (src.enable, src.sustain, src.loop),
                f"legacy {seed}: {name} flags converted",
            )
            check(
                (got.sustain_point, got.loop_start_point, got.loop_end_point)
                == (src.sustain_point, src.loop_start_point, src.loop_end_point),
                f"legacy {seed}: {name} sustain/loop points converted",
            )
            check(
                (got.ctl_index, got.gain_pct, got.velocity) == (0, 100, 0),
                f"legacy {seed}: {name} new-style fields at defaults",
            )
        check(
            env_snapshot(old.pitch_envelope) == env_snapshot(Sampler.PitchEnvelope()),
            f"legacy {seed}: pitch envelope at defaults",
        )
        before, after = snapshot(mod, loaded=False), snapshot(old, loaded=False)
        for key in ("samples", "note_samples", "vibrato", "ins", "effect"):
            check(before[key] == after[key], f"legacy {seed}: {key} kept")
        # saving the converted instrument loses nothing it carried
        again = read(write(old))
        check(snapshot(again, loaded=False) == snapshot(old, loaded=False), f"legacy {seed}: resave")
        golden(f"legacy-noenv-{seed}", digest(write(old), snapshot(old)))

        # variant 2: record without the "SAMP" signature -> raw chunks replayed
        unsigned = patch_chdt(raw, 0, lambda d: d[:0xFC] + b"\0\0\0\0" + d[0x100:])
        leg = read(unsigned)
        check(leg.is_legacy is True, f"legacy {seed}: unsigned record flagged")
        check(len(leg.legacy_chunks) == len(specialized(raw)), f"legacy {seed}: all chunks kept")
        check(snapshot(leg, loaded=False)["samples"] == before["samples"], f"legacy {seed}: samples read")
        out = write(leg)
        check(chdts(out) == chdts(unsigned), f"legacy {seed}: chunk data replayed verbatim")
        golden(f"legacy-unsigned-{seed}", digest(out))

        # variant 3: over-long record -> also replayed
        longrec = patch_chdt(raw, 0, lambda d: d + bytes(0x191 - len(d)))
        leg = read(longrec)
        check(leg.is_legacy is True, f"legacy {seed}: long record flagged")
        check(chdts(write(leg)) == chdts(longrec), f"legacy {seed}: long record replayed")
        atlimit = patch_chdt(raw, 0, lambda d: d + bytes(0x190 - len(d)))
        ok = read(atlimit)
        check(ok.is_legacy is False and ok.legacy_chunks is None, f"legacy {seed}: 0x190 is current")

        # variant 4: record that stops before the editor fields / max_version
        for cut, label in ((0x18C, "no editor_selected_size"), (0x188, "no editor fields"), (0x184, "no max_version")):
            short = read(patch_chdt(raw, 0, lambda d: d[:cut]))
            s = snapshot(short, loaded=False)
            want = list(before["ins"])
            if cut <= 0x18C:
                want[5] = 0
            if cut <= 0x188:
                want[4] = 0
            if cut <= 0x184:
                want[7] = Sampler.INS_VERSION
            check(s["ins"] == tuple(want), f"legacy {seed}: {label} -> defaults")
            check(s["note_samples"] == before["note_samples"], f"legacy {seed}: {label} map kept")
            check(short.is_legacy is False, f"legacy {seed}: {label} still current")

    # envelopes with more than 12 points cannot be carried by the old table
    mod = random_sampler(77, env_n=13)
    raw = drop_chnms(write(mod), ENVELOPE_CHNMS)
    expect_raises(struct.error, lambda: read(raw), "13 legacy points overflow the table")
    # a record that ends inside the fixed part
    raw = write(Sampler())
    expect_raises(RuntimeError, lambda: read(patch_chdt(raw, 0, lambda d: d[:0x90])), "record cut at 0x90")
    expect_raises(RuntimeError, lambda: read(patch_chdt(raw, 0, lambda d: d[:0x102])), "record cut in version")
    expect_raises(RuntimeError, lambda: read(patch_chdt(raw, 0, lambda d: b"")), "empty record")
    # no record and no envelope chunks at all
    expect_raises(TypeError, lambda: read(drop_chnms(raw, ENVELOPE_CHNMS | {0})), "nothing to upgrade from")
    # no record but envelopes present: fine, stays undecided
    norec = read(drop_chnms(raw, {0}))
    check(norec.is_legacy is None and len(norec.legacy_chunks) == 8, "no record: undecided")

    # direct call path with hand-set legacy fields
    mod = Sampler()
    table = b"".join(struct.pack("<HH", 10 * i, i) for i in range(12))
    for env, n in ((mod.volume_envelope, 3), (mod.panning_envelope, 12)):
        env._legacy_point_bytes = table
        env._legacy_active_points = n
        env._legacy_bitmask = 6
        env._legacy_sustain_point = 2
        env._legacy_loop_start_point = 1
        env._legacy_loop_end_point = 2
    mod.finalize_load()
    check(mod.volume_envelope.points == [(0, 0), (10, 0x200), (20, 0x400)], "direct: vol points")
    check(
        mod.panning_envelope.points == [(10 * i, i * 0x200 - 0x4000) for i in range(12)],
        "direct: pan points",
    )
    for env in (mod.volume_envelope, mod.panning_envelope):
        check((env.enable, env.sustain, env.loop) == (False, True, True), "direct: flags")
        check((env.sustain_point, env.loop_start_point, env.loop_end_point) == (2, 1, 2), "direct: pts")
    mod.volume_envelope.loaded = True
    mod.volume_envelope.points = []
    mod.finalize_load()
    check(mod.volume_envelope.points == [], "finalize_load leaves loaded envelopes alone")
    # failure while converting the second envelope leaves both point lists as they were
    mod = Sampler()
    for env, n in ((mod.volume_envelope, 2), (mod.panning_envelope, 13)):
        env._legacy_point_bytes = table
        env._legacy_active_points = n
        env._legacy_bitmask = 1
        env._legacy_sustain_point = env._legacy_loop_start_point = env._legacy_loop_end_point = 0
    vol_before = list(mod.volume_envelope.points)
    expect_raises(struct.error, mod.finalize_load, "direct: 13 points")
    check(mod.volume_envelope.points == vol_before, "direct: vol points untouched on failure")
    check(mod.panning_envelope.enable is True, "direct: flags were already converted")


if __name__ == "__main__":
    section_roundtrips(range(100, 112))
    section_envelopes()
    section_note_map()
    section_legacy(range(200, 206))
    finish()
