"""C18 check (reader side): read_sunvox_file restores the strictness flag and
closes path-opened files on every exit path.

Run from the repository root:
    PYTHONPATH=<root>/src/python python check.py
"""
import glob
import hashlib
import io
import logging
import os
import shutil
import struct
import sys
import tempfile
from pathlib import Path

import rv.api as rv
import rv.errors as E
import rv.readers.reader as R
from rv.synth import Synth

logging.disable(logging.CRITICAL)

ORIG_OPEN = Path.open
OPENED = []  # every file the library opened through Path.open
FAILS = []
# sha256 over the outcome (result class or exception type) of every load below
EXPECTED_DIGEST = "c72856b85d74ffae"


def expect(cond, msg):
    if not cond:
        FAILS.append(msg)


class Spy:
    """File proxy: records the flag at every read, optionally fails."""

    def __init__(self, f, fail_at=None, fail_close=False, exc=OSError):
        self._f = f
        self.reads = 0
        self.flags = []
        self.fail_at = fail_at
        self.fail_close = fail_close
        self.exc = exc
        self.close_calls = 0

    def read(self, *a):
        self.flags.append(E.RAISE_CONTROLLER_VALUE_ERRORS)
        if self.fail_at is not None and self.reads == self.fail_at:
            self.reads += 1
            raise self.exc("injected read fault")
        self.reads += 1
        return self._f.read(*a)

    def seek(self, *a):
        return self._f.seek(*a)

    def tell(self):
        return self._f.tell()

    def close(self):
        self.close_calls += 1
        self._f.close()
        if self.fail_close:
            raise OSError("injected close fault")

    @property
    def closed(self):
        return self._f.closed


class patched_open:
    """Wrap Path.open so the check sees the files the library opens."""

    def __init__(self, **spy_kw):
        self.spy_kw = spy_kw

    def __enter__(self):
        spy_kw = self.spy_kw
        flag_at_open = self.flag_at_open = []

        def _open(self_path, *a, **kw):
            flag_at_open.append(E.RAISE_CONTROLLER_VALUE_ERRORS)
            f = Spy(ORIG_OPEN(self_path, *a, **kw), **spy_kw)
            OPENED.append(f)
            return f

        Path.open = _open
        del OPENED[:]
        return self

    def __exit__(self, *exc):
        Path.open = ORIG_OPEN


def load(arg, initial):
    """Run a load with the flag preset; return (outcome, flag_after_is_same)."""
    E.RAISE_CONTROLLER_VALUE_ERRORS = initial
    try:
        obj = rv.read_sunvox_file(arg)
        outcome = type(obj).__name__
    except BaseException as e:  # noqa
        outcome = "!" + type(e).__name__
    same = E.RAISE_CONTROLLER_VALUE_ERRORS is initial
    E.RAISE_CONTROLLER_VALUE_ERRORS = True
    return outcome, same


def fixtures():
    files = sorted(
        glob.glob("tests/files/**/*.sunvox", recursive=True)
        + glob.glob("tests/files/**/*.sunsynth", recursive=True)
    )
    assert len(files) >= 40, "run from the repository root"
    return files


def chunk_boundaries(data):
    pos, out = 0, []
    while pos + 8 <= len(data):
        out.append(pos)
        out.append(pos + 8)
        (size,) = struct.unpack("<I", data[pos + 4 : pos + 8])
        pos += 8 + size
    out.append(len(data))
    return sorted(set(b for b in out if b <= len(data)))


def nested_document():
    inner = rv.Project()
    s = inner.new_module(rv.m.Sampler)
    s.effect = Synth(rv.m.Amplifier(volume=300))
    s >> inner.output
    outer = rv.Project()
    outer.new_module(rv.m.MetaModule, project=inner)
    f = io.BytesIO()
    outer.write_to(f)
    return f.getvalue()


def main():
    digest = hashlib.sha256()
    files = fixtures()
    initials = (True, False)
    tmpdir = tempfile.mkdtemp(prefix="c18chk")

    # -- A. successful loads: str path, Path, caller-owned file, BytesIO ------------
    for name in files:
        data = Path(name).read_bytes()
        for initial in initials:
            for arg in (name, Path(name)):
                with patched_open() as po:
                    outcome, same = load(arg, initial)
                expect(same, f"A flag not restored {name} {initial}")
                expect(not outcome.startswith("!"), f"A load failed {name} {outcome}")
                expect(len(OPENED) == 1, f"A opened {len(OPENED)} files for {name}")
                expect(all(f.closed for f in OPENED), f"A not closed {name}")
                expect(all(f.close_calls == 1 for f in OPENED), f"A close calls {name}")
                expect(po.flag_at_open == [False], f"A open outside override {name}")
                expect(
                    OPENED and set(OPENED[0].flags) == {False},
                    f"A load not lenient {name}",
                )
                digest.update(outcome.encode())
            with ORIG_OPEN(Path(name), "rb") as own:
                spy = Spy(own)
                with patched_open():
                    outcome, same = load(spy, initial)
                expect(same and not outcome.startswith("!"), f"A fileobj {name}")
                expect(not own.closed, f"A caller's file was closed {name}")
                expect(spy.close_calls == 0, f"A caller's file close() called {name}")
                expect(OPENED == [], f"A opened a path for a file object {name}")
            bio = io.BytesIO(data)
            outcome, same = load(bio, initial)
            expect(same and not bio.closed, f"A BytesIO {name}")
            digest.update(outcome.encode())

    # -- B. I/O fault at each read call index --------------------------------------
    for name in files:
        with patched_open():
            load(name, True)
        nreads = OPENED[0].reads
        step = 1 if nreads <= 400 else 7
        for exc in (OSError, ValueError):
            for initial in initials:
                for k in range(0, nreads, step):
                    with patched_open(fail_at=k, exc=exc):
                        outcome, same = load(name, initial)
                    expect(same, f"B flag not restored {name} read {k} {initial}")
                    expect(
                        outcome == "!" + exc.__name__,
                        f"B fault swallowed {name} read {k}: {outcome}",
                    )
                    expect(
                        len(OPENED) == 1 and OPENED[0].closed, f"B leak {name} read {k}"
                    )
            step = max(step, 5)  # second exception type: sample

    # -- C. truncation at chunk boundaries and sampled byte offsets ----------------
    docs = [(n, Path(n).read_bytes()) for n in files]
    docs.append(("<nested>", nested_document()))
    for name, data in docs:
        cuts = set(chunk_boundaries(data)) | set(range(0, len(data), 97))
        cuts |= {1, 3, 4, 7, 9, len(data) - 1}
        for cut in sorted(c for c in cuts if 0 <= c <= len(data)):
            blob = data[:cut]
            p = os.path.join(tmpdir, "t.bin")
            with open(p, "wb") as out:
                out.write(blob)
            res = []
            for initial in initials:
                o1, same1 = load(io.BytesIO(blob), initial)
                with patched_open():
                    o2, same2 = load(p, initial)
                expect(same1 and same2, f"C flag not restored {name}@{cut} {initial}")
                expect(o1 == o2, f"C path/file disagree {name}@{cut}: {o1} {o2}")
                expect(len(OPENED) == 1 and OPENED[0].closed, f"C leak {name}@{cut}")
                res.append(o1)
            expect(res[0] == res[1], f"C outcome depends on flag {name}@{cut}")
            digest.update(f"{cut}:{res[0]};".encode())

    # -- D. nested loads (MetaModule project, Sampler effect) ----------------------
    data = nested_document()
    assert data.count(b"SVOX") == 2 and data.count(b"SSYN") == 1
    broken_type = data.replace(b"Amplifier", b"Amplifiex")  # KeyError, 2 levels deep
    j = data.find(b"CVAL", data.find(b"Amplifier"))
    out_of_range = data[: j + 8] + struct.pack("<i", 99999) + data[j + 12 :]
    p = os.path.join(tmpdir, "n.sunvox")
    for initial in initials:
        for blob, want in (
            (data, "Project"),
            (broken_type, "!KeyError"),
            (out_of_range, "Project"),
        ):
            with open(p, "wb") as out:
                out.write(blob)
            with patched_open():
                outcome, same = load(p, initial)
            expect(outcome == want, f"D outcome {outcome} != {want}")
            expect(same, f"D flag not restored {want} {initial}")
            expect(len(OPENED) == 1 and OPENED[0].closed, f"D leak {want}")
            expect(set(OPENED[0].flags) == {False}, "D outer not lenient")
            outcome, same = load(io.BytesIO(blob), initial)
            expect(outcome == want and same, f"D BytesIO {want} {initial}")
    proj = rv.read_sunvox_file(io.BytesIO(out_of_range))
    amp = proj.modules[1].project.modules[1].effect.module
    expect(amp.volume == 99999, "D lenient nested load lost the raw value")
    # the strict switch used for reads is the one bound in rv.readers.reader
    R_saved = R.RAISE_RANGE_ERRORS_ON_READ
    expect(R_saved is False, "default RAISE_RANGE_ERRORS_ON_READ")
    try:
        R.RAISE_RANGE_ERRORS_ON_READ = True
        for initial in initials:
            outcome, same = load(io.BytesIO(out_of_range), initial)
            expect(outcome == "!ControllerValueError" and same, f"D strict {outcome}")
            with patched_open():
                outcome, same = load(files[0], initial)
            expect(same and set(OPENED[0].flags) == {True}, "D strict flag in load")
    finally:
        R.RAISE_RANGE_ERRORS_ON_READ = R_saved
    E_saved = E.RAISE_RANGE_ERRORS_ON_READ
    try:
        E.RAISE_RANGE_ERRORS_ON_READ = True  # bound at import: no effect on reader
        outcome, same = load(io.BytesIO(out_of_range), True)
        expect(outcome == "Project" and same, f"D errors-module switch {outcome}")
    finally:
        E.RAISE_RANGE_ERRORS_ON_READ = E_saved

    # -- E. failures before/after the body -----------------------------------------
    for initial in initials:
        for bad in (os.path.join(tmpdir, "missing.sunvox"), Path(tmpdir) / "nope"):
            outcome, same = load(bad, initial)
            expect(outcome == "!FileNotFoundError" and same, f"E missing {outcome}")
        outcome, same = load(tmpdir, initial)
        expect(outcome in ("!IsADirectoryError", "!PermissionError"), f"E dir {outcome}")
        expect(same, "E dir flag")
        for bad in (None, 5, b"tests/files/empty.sunvox"):
            outcome, same = load(bad, initial)
            expect(outcome.startswith("!") and same, f"E bad arg {bad!r} {outcome}")
            digest.update(outcome.encode())
        # close() itself fails after a good load
        with patched_open(fail_close=True):
            outcome, same = load(files[0], initial)
        expect(outcome == "!OSError" and same, f"E close fault {outcome}")
        expect(OPENED[0].closed and OPENED[0].close_calls == 1, "E close fault leak")
        # both the body and close() fail: close's error wins, body's is its context
        E.RAISE_CONTROLLER_VALUE_ERRORS = initial
        with patched_open(fail_at=2, exc=ValueError, fail_close=True):
            try:
                rv.read_sunvox_file(files[0])
                expect(False, "E double fault: no exception")
            except OSError as e:
                expect(isinstance(e.__context__, ValueError), "E double fault context")
            except BaseException as e:  # noqa
                expect(False, f"E double fault wrong type {type(e).__name__}")
        expect(E.RAISE_CONTROLLER_VALUE_ERRORS is initial, "E double fault flag")
        E.RAISE_CONTROLLER_VALUE_ERRORS = True
        # KeyboardInterrupt-like BaseException in a read
        with patched_open(fail_at=1, exc=KeyboardInterrupt):
            outcome, same = load(files[0], initial)
        expect(outcome == "!KeyboardInterrupt" and same, f"E BaseException {outcome}")
        expect(OPENED[0].closed, "E BaseException leak")

    # -- F. after any load the API is strict again ---------------------------------
    for blob in (data, broken_type, out_of_range, data[:100]):
        load(io.BytesIO(blob), True)
        amp = rv.m.Amplifier()
        try:
            amp.volume = 99999
            expect(False, "F lenient mode leaked")
        except E.ControllerValueError:
            pass

    # -- G. Reader.process_chunks dispatch -----------------------------------------
    class Probe(R.Reader):
        def __init__(self, f):
            super().__init__(f)
            self.seen = []

        def process_AAAA(self, d):
            self.seen.append(("AAAA", d))

        def process_BB(self, d):  # names are stripped of padding
            self.seen.append(("BB", d))

        process_CCCC = "not callable"

        def process_STOP(self, d):
            self.object = "stopped"
            raise R.ReaderFinished()

    def iff(*pairs):
        return b"".join(n + struct.pack("<I", len(d)) + d for n, d in pairs)

    pr = Probe(io.BytesIO(iff((b"AAAA", b"12"), (b"BB  ", b""), (b"CCCC", b"x"), (b"ZZZZ", b"yy"))))
    try:
        pr.object
        expect(False, "G end of file handler")
    except RuntimeError as e:
        expect(str(e) == "Reached end of file without a handler", "G message")
    expect(pr.seen == [("AAAA", b"12"), ("BB", b"")], f"G seen {pr.seen}")
    pr = Probe(io.BytesIO(iff((b"AAAA", b"1"), (b"STOP", b""), (b"AAAA", b"2"))))
    expect(pr.object == "stopped" and pr.seen == [("AAAA", b"1")], "G finish")
    try:
        pr.object = "again"
        expect(False, "G object set twice")
    except AttributeError:
        pass
    pr = Probe(io.BytesIO(iff((b"\xff\xfe\xfd\xfc", b""))))
    try:
        pr.object
        expect(False, "G undecodable name")
    except UnicodeDecodeError:
        pass
    except RuntimeError:
        pass
    f = io.BytesIO(iff((b"AAAA", b"12345"), (b"BB  ", b"")))
    pr = Probe(f)
    f.seek(8 + 5)
    pr.rewind(b"12345")
    expect(f.tell() == 0, "G rewind")

    shutil.rmtree(tmpdir, ignore_errors=True)
    expect(E.RAISE_CONTROLLER_VALUE_ERRORS is True, "final flag")
    expect(
        digest.hexdigest()[:16] == EXPECTED_DIGEST,
        "outcome digest changed: " + digest.hexdigest()[:16],
    )
    if FAILS:
        print("FAIL (%d)" % len(FAILS))
        for m in FAILS[:25]:
            print("  ", m)
        sys.exit(1)
    print("outcome digest", digest.hexdigest()[:16])
    print("PASS")


if __name__ == "__main__":
    main()
