"""Behaviour check for refactoring C01-1 (passes before and after the patch)."""
import hashlib
import logging
import struct
import sys
from enum import Enum
from io import BytesIO

logging.disable(logging.CRITICAL)

from rv.api import NOTECMD, Pattern, PatternClone, Project, Synth, read_sunvox_file
from rv.cmidmap import MidiMessageType, Slope
from rv.controller import DependentRange, Range
from rv.modules import MODULE_CLASSES
from rv.modules.output import Output

FAILURES = []


def expect(cond, label):
    if not cond:
        FAILURES.append(label)
        print("FAIL:", label)


class Lcg:
    """Tiny deterministic generator (independent of the random module)."""

    def __init__(self, seed):
        self.state = seed & 0xFFFFFFFF

    def next(self):
        self.state = (self.state * 1664525 + 1013904223) & 0xFFFFFFFF
        return self.state >> 8

    def below(self, n):
        return self.next() % n

    def between(self, lo, hi):
        return lo + self.below(hi - lo + 1)

    def pick(self, seq):
        return seq[self.below(len(seq))]


NAMES = [
    "",
    "a",
    "x" * 31,
    "x" * 32,
    "x" * 33,
    "y" * 70,
    "x" * 31 + "é",  # two-byte char straddling byte 32
    "x" * 30 + "€",  # three-byte char straddling byte 32
    "x" * 29 + "\U0001f600",  # four-byte char straddling byte 32
    "x" * 28 + "\U0001f600",  # four-byte char ending exactly at byte 32
    "é" * 16,
    "é" * 17,
    "€" * 11,
    "\U0001f600" * 9,
    "Café del mar",
    " spaced  name ",
]


def stored_name(name):
    """Longest prefix of name whose UTF-8 form fits 32 bytes."""
    out = ""
    for ch in name:
        if len((out + ch).encode("utf8")) > 32:
            break
        out += ch
    return out


def set_some_controllers(rng, mod):
    for cname, ctl in mod.controllers.items():
        if rng.below(3) == 0:
            continue
        if isinstance(ctl.value_type, DependentRange) or not ctl.attached(mod):
            continue
        t = ctl.instance_value_type(mod)
        try:
            if isinstance(t, Range):
                choice = rng.below(3)
                value = (t.min, t.max, rng.between(t.min, t.max))[choice]
            elif isinstance(t, type) and issubclass(t, Enum):
                value = rng.pick(list(t))
            elif t is bool:
                value = bool(rng.below(2))
            else:
                continue
            setattr(mod, cname, value)
        except Exception:
            pass


def set_some_options(rng, mod):
    for oname, opt in mod.options.items():
        if rng.below(2):
            continue
        try:
            if opt.size == 1:
                setattr(mod, oname, bool(rng.below(2)))
            else:
                setattr(mod, oname, rng.below(1 << opt.size))
        except Exception:
            pass


def set_some_midi_maps(rng, mod):
    for cname in list(mod.controllers)[:: 1 + rng.below(3)]:
        mm = mod.controller_midi_maps[cname]
        mm.channel = rng.below(17)
        mm.message_type = rng.pick(list(MidiMessageType))
        mm.message_parameter = rng.below(0x10000)
        mm.slope = rng.pick(list(Slope))


def build_project(seed, n_modules=12, holes=True, every_type=False):
    rng = Lcg(seed)
    p = Project()
    p.name = rng.pick(NAMES + ["Proj ♫ %d" % seed])
    p.flags = rng.pick([0, 1, 0xFFFFFFFF, rng.below(1 << 24)])
    p.initial_bpm = rng.pick([1, 125, 0xFFFFFFFF, rng.between(1, 800)])
    p.initial_tpl = rng.between(1, 31)
    p.global_volume = rng.between(0, 256)
    p.time_grid = rng.between(0, 64)
    p.time_grid2 = rng.between(0, 64)
    p.modules_scale = rng.between(0, 1024)
    p.modules_zoom = rng.between(0, 1024)
    p.modules_x_offset = rng.pick([0, -1, -(2**31), 2**31 - 1, rng.between(-999, 999)])
    p.modules_y_offset = rng.pick([0, -1, -(2**31), 2**31 - 1, rng.between(-999, 999)])
    p.modules_layer_mask = rng.pick([0, 0xFF, 0xFFFFFFFF])
    p.modules_current_layer = rng.below(8)
    p.timeline_position = rng.pick([0, 0, 1, -1, -(2**31), 2**31 - 1, 77])
    p.restart_position = rng.pick([0, 0, 1, -5, 2**31 - 1, 300])
    p.selected_module = rng.below(20)
    p.selected_generator = rng.pick([-1, 0, 3, -(2**31)])
    p.current_pattern = rng.below(9)
    p.current_track = rng.below(32)
    p.current_line = rng.below(999)
    p.receive_sync_midi = rng.below(8)
    p.receive_sync_other = rng.below(8)
    p.output.name = rng.pick(["Output", "Out é", "o" * 40])
    p.output.x, p.output.y = rng.between(-50, 1500), rng.between(-50, 1500)

    type_names = [n for n in MODULE_CLASSES if n != "Output"]
    if every_type:
        chosen = list(type_names)
    else:
        chosen = [rng.pick(type_names) for _ in range(n_modules)]
    mods = []
    for i, tname in enumerate(chosen):
        if holes and rng.below(5) == 0:
            p.attach_module(None)
        cls = MODULE_CLASSES[tname]
        kw = dict(
            x=rng.between(-2000, 2000),
            y=rng.between(-2000, 2000),
            layer=rng.below(8),
            color=(rng.below(256), rng.below(256), rng.below(256)),
            midi_in_always=bool(rng.below(2)),
            midi_in_channel=rng.below(17),
            midi_out_channel=rng.below(17),
            midi_out_bank=rng.between(-1, 16383),
            midi_out_program=rng.between(-1, 127),
        )
        if rng.below(3):
            kw["name"] = rng.pick(NAMES)
        if rng.below(3) == 0:
            kw["midi_out_name"] = rng.pick(["", "dev", "Gerät 1"])
        if rng.below(2):
            kw["visualization"] = rng.below(1 << 28)
        if rng.below(2):
            kw["mod_scale"] = rng.between(1, 1024)
        kw = {k: v for k, v in kw.items() if k not in cls.controllers}
        mod = cls(**kw)
        mod.mod_finetune = rng.between(-256, 256)
        mod.mod_relative_note = rng.between(-64, 64)
        p.attach_module(mod, loading=bool(rng.below(4) == 0))
        mod.flags |= rng.pick([0, 0x80, 0x100, 0x4000, 0x02000000])
        set_some_controllers(rng, mod)
        set_some_options(rng, mod)
        set_some_midi_maps(rng, mod)
        mods.append(mod)
    everything = [p.output] + mods
    for _ in range(len(mods) * 2):
        a, b = rng.pick(mods), rng.pick(everything)
        if a is not b:
            p.connect(a, b)
    for _ in range(len(mods) // 3):
        a, b = rng.pick(mods), rng.pick(everything)
        if a is not b:
            p.connect(~a, b)

    n_pat = rng.below(6)
    real = []
    for i in range(n_pat):
        kind = rng.below(5)
        if kind == 0:
            p.attach_pattern(None)
        elif kind == 1 and real:
            p.attach_pattern(
                PatternClone(
                    source=rng.pick(real),
                    x=rng.between(-100, 4000),
                    y=rng.between(-500, 500),
                )
            )
        else:
            pat = Pattern(
                tracks=rng.between(1, 6),
                lines=rng.between(1, 12),
                x=rng.between(-100, 4000),
                y=rng.between(-500, 500),
                y_size=rng.between(1, 64),
                flags_PFLG=rng.below(4),
                flags_PFFF=rng.pick([0, 2, 8, 16]),
                fg_color=(rng.below(256), rng.below(256), rng.below(256)),
                bg_color=(rng.below(256), rng.below(256), rng.below(256)),
                icon=bytes(rng.below(256) for _ in range(32)),
            )
            if rng.below(2):
                pat.name = rng.pick(NAMES + ["paté"])
            for line in pat.data:
                for note in line:
                    if rng.below(2):
                        note.note = rng.pick(
                            [0, 1, 60, 120, 128, 129, 130, 131, 132, 133, 134, 140]
                        )
                        note.vel = rng.pick([0, 1, 129, rng.below(130)])
                        note.module = rng.pick([0, 1, 255, 256, 0xFFFF, rng.below(40)])
                        note.ctl = rng.pick([0, 0xFFFF, rng.below(0x10000)])
                        note.val = rng.pick([0, 0xFFFF, 0x8000, rng.below(0x10000)])
            real.append(p.attach_pattern(pat))
    return p


def snap_module(mod):
    if mod is None:
        return None
    return dict(
        cls=type(mod).__name__,
        mtype=mod.mtype,
        index=mod.index,
        name=mod.name,
        flags=mod.flags,
        x=mod.x,
        y=mod.y,
        layer=mod.layer,
        scale=mod.mod_scale,
        vis=int(mod.visualization),
        color=tuple(mod.color),
        finetune=mod.mod_finetune,
        relnote=mod.mod_relative_note,
        midi=(
            mod.midi_in_always,
            mod.midi_in_channel,
            mod.midi_out_name or None,
            mod.midi_out_channel,
            mod.midi_out_bank,
            mod.midi_out_program,
        ),
        ctl={k: repr(v) for k, v in mod.controller_values.items()},
        raw={k: mod.get_raw(k) for k, c in mod.controllers.items() if c.attached(mod)},
        opt={k: int(v) for k, v in mod.option_values.items()},
        cmid={
            k: mod.controller_midi_maps[k].cmid_data
            for k, c in mod.controllers.items()
            if c.attached(mod)
        },
        special=list(mod.specialized_iff_chunks()) if mod.chnk else None,
        in_links=list(mod.in_links),
        in_link_slots=list(mod.in_link_slots),
        out_links=list(mod.out_links),
        out_link_slots=list(mod.out_link_slots),
    )


def snap_pattern(pat):
    if pat is None:
        return None
    if isinstance(pat, PatternClone):
        return ("clone", pat.source, pat.flags_PFFF, pat.x, pat.y)
    return (
        "pattern",
        pat.name,
        pat.tracks,
        pat.lines,
        pat.y_size,
        pat.flags_PFLG,
        pat.icon,
        tuple(pat.fg_color),
        tuple(pat.bg_color),
        pat.flags_PFFF,
        pat.x,
        pat.y,
        [
            [(int(n.note), n.vel, n.module, n.ctl, n.val) for n in line]
            for line in pat.data
        ],
    )


PROJECT_FIELDS = [
    "sunvox_version", "based_on_version", "flags", "initial_bpm", "initial_tpl",
    "global_volume", "name", "time_grid", "time_grid2", "modules_scale",
    "modules_zoom", "modules_x_offset", "modules_y_offset", "modules_layer_mask",
    "modules_current_layer", "timeline_position", "restart_position",
    "selected_module", "selected_generator", "current_pattern", "current_track",
    "current_line",
]


def snap_project(p, as_stored=False):
    """Observable state; with as_stored, apply the documented storage limits."""
    fields = {k: getattr(p, k) for k in PROJECT_FIELDS}
    fields["sync"] = (int(p.receive_sync_midi), int(p.receive_sync_other))
    modules = [snap_module(mod) for mod in p.modules]
    if as_stored:
        while modules and modules[-1] is None:
            modules.pop()
        for ms in modules:
            if ms is not None:
                ms["name"] = stored_name(ms["name"])
                # trailing "disconnected" markers are not kept by the reader
                for key in ("in_links", "in_link_slots", "out_links", "out_link_slots"):
                    while ms[key] and ms[key][-1] == -1:
                        ms[key].pop()
    patterns = [snap_pattern(pat) for pat in p.patterns]
    return dict(fields=fields, modules=modules, patterns=patterns)


def digest(data):
    return hashlib.sha256(data).hexdigest()


def finish():
    if FAILURES:
        print("%d check(s) failed" % len(FAILURES))
        sys.exit(1)
    print("PASS")


# --------------------------------------------------------------------------
# C01-1: Project.chunks() / Container.read() / Container.clone()
# --------------------------------------------------------------------------
from struct import pack

from rv.container import Container
from rv.lib.iff import chunks as iff_chunks


def reference_chunks(p):
    """Independent statement of the .sunvox chunk sequence for a project."""
    out = [(b"SVOX", b"")]
    out.append((b"VERS", bytes(reversed(p.sunvox_version))))
    out.append((b"BVER", bytes(reversed(p.based_on_version))))
    out.append((b"FLGS", pack("<I", p.flags)))
    out.append((b"SFGS", pack("<I", p.receive_sync_midi | (p.receive_sync_other << 3))))
    for tag, fmt, attr in [
        (b"BPM ", "<I", "initial_bpm"),
        (b"SPED", "<I", "initial_tpl"),
        (b"TGRD", "<I", "time_grid"),
        (b"TGD2", "<I", "time_grid2"),
        (b"GVOL", "<I", "global_volume"),
    ]:
        out.append((tag, pack(fmt, getattr(p, attr))))
    out.append((b"NAME", p.name.encode("utf8") + b"\0"))
    for tag, fmt, attr in [
        (b"MSCL", "<I", "modules_scale"),
        (b"MZOO", "<I", "modules_zoom"),
        (b"MXOF", "<i", "modules_x_offset"),
        (b"MYOF", "<i", "modules_y_offset"),
        (b"LMSK", "<I", "modules_layer_mask"),
        (b"CURL", "<I", "modules_current_layer"),
    ]:
        out.append((tag, pack(fmt, getattr(p, attr))))
    if p.timeline_position:
        out.append((b"TIME", pack("<i", p.timeline_position)))
    if p.restart_position:
        out.append((b"REPS", pack("<i", p.restart_position)))
    for tag, fmt, attr in [
        (b"SELS", "<I", "selected_module"),
        (b"LGEN", "<i", "selected_generator"),
        (b"PATN", "<I", "current_pattern"),
        (b"PATT", "<I", "current_track"),
        (b"PATL", "<I", "current_line"),
    ]:
        out.append((tag, pack(fmt, getattr(p, attr))))
    for pat in p.patterns:
        if pat is not None:
            out.extend(pat.iff_chunks())
        out.append((b"PEND", b""))
    for mod in p.modules:
        if mod is not None:
            out.extend(mod.iff_chunks())
            n = len(mod.in_links)
            out.append((b"SLNK", pack("<%di" % n, *mod.in_links) if n else b""))
            if n and set(mod.in_link_slots) - {0, -1}:
                out.append((b"SLnK", pack("<%di" % n, *mod.in_link_slots)))
            names = [k for k, c in mod.controllers.items() if c.attached(mod)]
            for k in names:
                out.append((b"CVAL", pack("<i", mod.get_raw(k))))
            if names:
                out.append(
                    (b"CMID", b"".join(mod.controller_midi_maps[k].cmid_data for k in names))
                )
            if mod.chnk:
                out.append((b"CHNK", pack("<I", mod.chnk)))
                out.extend(mod.specialized_iff_chunks())
        out.append((b"SEND", b""))
    return out


def serialize(chunk_list):
    out = b""
    for name, data in chunk_list:
        if name is None:
            continue
        out += name + pack("<I", len(data)) + data
    return out


def tags_of(data):
    return [name for name, _ in iff_chunks(BytesIO(data))]


def check_project(label, p):
    expected = reference_chunks(p)
    actual = list(p.chunks())
    expect(actual == expected, label + ": chunk sequence matches reference")
    expect(all(type(c) is tuple and len(c) == 2 for c in actual), label + ": pairs")
    data = p.read()
    expect(data == serialize(expected), label + ": read() bytes match reference")
    buf = BytesIO()
    p.write_to(buf)
    expect(buf.getvalue() == data, label + ": write_to() == read()")
    expect(p.read() == data, label + ": read() is repeatable")
    loaded = read_sunvox_file(BytesIO(data))
    want = snap_project(p, as_stored=True)
    expect(snap_project(loaded) == want, label + ": round trip preserves project")
    cloned = p.clone()
    expect(cloned is not p and isinstance(cloned, Project), label + ": clone type")
    expect(snap_project(cloned) == want, label + ": clone preserves project")
    tags = tags_of(data)
    expect((b"TIME" in tags) == (p.timeline_position != 0), label + ": TIME sparse")
    expect((b"REPS" in tags) == (p.restart_position != 0), label + ": REPS sparse")
    expect(tags.count(b"PEND") == len(p.patterns), label + ": one PEND per slot")
    expect(tags.count(b"SEND") == len(p.modules), label + ": one SEND per slot")
    return data


check_project("empty", Project())
DIGESTS = {}
for seed in range(1, 61):
    data = check_project("seed%d" % seed, build_project(seed))
    if seed <= 8:
        DIGESTS[seed] = digest(data)
full = build_project(4242, every_type=True)
expect(len({type(m) for m in full.modules if m is not None}) == 43, "all 43 types")
DIGESTS["full"] = digest(check_project("every-type", full))
check_project("no-holes", build_project(77, n_modules=25, holes=False))

EXPECTED_DIGESTS = {1: 'b269110cef6a5a82191f49b2f6a797c44ff0acbc3a7b259f5b55423bbe6ef55f',
 2: '35911673eec8b7c688d9b13fecff3e4893f021d51bb31b274f12e3d2c9c1e52e',
 3: '0aaf7ceb6b05fee87a7193141ada611b0dd41a1025ff23e94f5eeef066304e1d',
 4: '1e5eb81e48a56f3834379f9ff42cdc2520817ed9d62e7fb45add092c027cbc54',
 5: 'f155afc7e8b8cb7671e16d8f47dd118733900508604f059501f0a3431d8db659',
 6: '7c810b8a54286f3a2fdbb38c09a087f35166c292c9bbd73e2153a57fca4de41d',
 7: 'd4a642155ecd1821b2ec5c0bab4fdaa0ef30d597860dc59eb6b217fd426a4015',
 8: '833ef007439d61448c0dd0af5ab2aadfdba8dd1d8dcbfc248caa06b2ab9bf774',
 'full': '29117a9072f8944e874fab647353a82fad84a98e65ae3f55464cb39f078d84a1'}
if "--print-digests" in sys.argv:
    print(DIGESTS)
else:
    expect(DIGESTS == EXPECTED_DIGESTS, "serialized bytes are the recorded ones")

# SLnK is written only when some slot is neither 0 nor -1.
p = Project()
a, b, c = (p.new_module(MODULE_CLASSES["Amplifier"]) for _ in range(3))
p.connect(a, p.output)
expect(b"SLnK" not in tags_of(p.read()), "SLnK absent for all-zero slots")
p.connect(a, b)
p.connect(c, b)
p.connect(b, p.output)
expect(tags_of(p.read()).count(b"SLnK") == 1, "SLnK present for non-zero slot")
p.connect(~a, p.output)
check_project("after-disconnect", p)
for mod_count in (0, 1):
    q = Project()
    for _ in range(mod_count):
        q.attach_module(None)
    q.attach_pattern(None)
    check_project("only-empty-slots-%d" % mod_count, q)

# Chunks are produced lazily: a bad field fails exactly when it is reached,
# with struct.error, and everything before it has already been written.
def written_before_error(p):
    buf = BytesIO()
    try:
        p.write_to(buf)
    except struct.error:
        return tags_of(buf.getvalue())
    return None


p = build_project(5)
p.initial_bpm = -1
expect(
    written_before_error(p) == [b"SVOX", b"VERS", b"BVER", b"FLGS", b"SFGS"],
    "bad BPM stops after SFGS",
)
p = build_project(5)
p.timeline_position = 2**31
got = written_before_error(p)
expect(got is not None and got[-1] == b"CURL", "bad TIME stops after CURL")
p = build_project(5)
p.current_line = 2**32
got = written_before_error(p)
expect(got is not None and got[-1] == b"PATT", "bad PATL stops after PATT")
p = build_project(5)
p.flags = "zero"
expect(written_before_error(p) == [b"SVOX", b"VERS", b"BVER"], "bad FLGS stops after BVER")
p = Project()
amp = p.new_module(MODULE_CLASSES["Amplifier"])
p.connect(amp, p.output)
p.output.in_link_slots.clear()  # inconsistent link tables
got = written_before_error(p)
expect(got is not None and got[-1] == b"SMIP" and b"SLNK" not in got, "bad slots: no SLNK")
for bad in (p.read, p.clone):
    try:
        bad()
        expect(False, "%s should fail" % bad.__name__)
    except struct.error:
        pass

# Container basics.
try:
    Container().read()
    expect(False, "abstract read")
except NotImplementedError:
    pass
try:
    Container().clone()
    expect(False, "abstract clone")
except NotImplementedError:
    pass
synth = Synth(MODULE_CLASSES["Generator"](name="gén" * 20))
sdata = synth.read()
expect(sdata[:4] == b"SSYN" and synth.read() == sdata, "synth read")
s2 = synth.clone()
expect(isinstance(s2, Synth) and s2.module.name == stored_name("gén" * 20), "synth clone")

finish()
