"""Behaviour check for the performance tidy-up of the chunk encoders.

Covers ArrayChunk (bytes getter/setter, reset, set_via_fn), WaveformChunk,
rv.chunks.chunk.Chunk, Module.iff_chunks, Module.options_chunks /
Module.load_options and the module-level Chunk record, and finishes with a
.sunsynth / in-project round trip of every module type at several controller
settings.  Expected values are computed independently with the struct module.
"""
import contextlib
import hashlib
import io
import itertools
import random
import struct
import sys
from enum import Enum

from rv.api import Project
from rv.chunks import ArrayChunk, DrawnWaveformChunk, WaveformChunk
from rv.chunks.chunk import Chunk as EncoderChunk
from rv.controller import Range
from rv.errors import EmptySynthError
from rv.modules import MODULE_CLASSES, Chunk, Module
from rv.modules.metamodule import MetaModule
from rv.modules.multictl import MultiCtl
from rv.modules.spectravoice import SpectraVoice
from rv.readers.reader import read_sunvox_file
from rv.synth import Synth

import logging

logging.disable(logging.CRITICAL)

FAILURES = []


def check(cond, label):
    if not cond:
        FAILURES.append(label)
        print("FAIL:", label)


def raises(exc_type, fn, label):
    try:
        fn()
    except exc_type:
        return True
    except Exception as e:  # wrong type
        check(False, f"{label}: raised {type(e).__name__} instead of {exc_type}")
        return False
    check(False, f"{label}: did not raise")
    return False


def quiet(fn, *a, **kw):
    with contextlib.redirect_stdout(io.StringIO()):
        return fn(*a, **kw)


# --------------------------------------------------------------------------
# ArrayChunk
# --------------------------------------------------------------------------


def array_chunk_classes():
    from rv.modules.base.fmx import BaseFmx  # noqa
    from rv.modules.fmx import Fmx
    from rv.modules.multisynth import MultiSynth
    from rv.modules.waveshaper import WaveShaper

    return [
        WaveShaper.curve_chunk,
        MultiSynth.note_velocity_curve_chunk,
        MultiSynth.velocity_velocity_curve_chunk,
        MultiSynth.note_pitch_curve_chunk,
        Fmx.custom_waveform_chunk,
        SpectraVoice.harmonic_freqs_chunk,
        SpectraVoice.harmonic_volumes_chunk,
        SpectraVoice.harmonic_widths_chunk,
        MultiCtl.curve_chunk,
    ]


def check_scalar_arrays():
    rnd = random.Random(1234)
    for cls in array_chunk_classes():
        c = cls()
        name = cls.__qualname__
        check(len(c.values) == c.length, f"{name} default length")
        # default serialization
        expected = struct.pack("<" + c.type * c.length, *c.values)
        check(c.bytes == expected, f"{name} default bytes")
        check(c.chdt() == expected, f"{name} chdt")
        check(
            list(c.chunks())[:2]
            == [(b"CHNM", struct.pack("<I", c.chnm)), (b"CHDT", expected)],
            f"{name} chunks",
        )
        # several contents incl. both ends of the element type
        if c.type == "f":
            lo, hi = -1.0, 1.0
            contents = [
                [lo] * c.length,
                [hi] * c.length,
                [rnd.uniform(-1, 1) for _ in range(c.length)],
                [0.0] * c.length,
            ]
        else:
            hi = (1 << (8 * c.element_size)) - 1
            contents = [
                [0] * c.length,
                [hi] * c.length,
                [rnd.randint(0, hi) for _ in range(c.length)],
                [i % (hi + 1) for i in range(c.length)],
            ]
        for values in contents:
            c.values = list(values)
            data = c.bytes
            expected = struct.pack("<" + c.type * c.length, *values)
            check(data == expected, f"{name} bytes for contents")
            d = cls()
            d.bytes = data
            want = [
                struct.unpack("<" + c.type, data[i : i + c.element_size])[0]
                for i in range(0, len(data), c.element_size)
            ]
            check(d.values == want, f"{name} setter values")
            check(all(type(v) is c.python_type for v in d.values), f"{name} types")
            check(d.bytes == data, f"{name} re-encode")
        # shorter data, empty data, trailing partial element, other buffer types
        d = cls()
        d.bytes = b""
        check(d.values == [], f"{name} empty data")
        full = cls().bytes
        for cut in (c.element_size, 3 * c.element_size, 3 * c.element_size + 1):
            d = cls()
            d.bytes = full[:cut] if cut % c.element_size == 0 else full[:cut]
            check(len(d.values) == cut // c.element_size, f"{name} cut {cut}")
            check(
                d.values == cls().values[: cut // c.element_size],
                f"{name} cut values {cut}",
            )
        if c.element_size > 1:
            d = cls()
            d.bytes = full[: c.element_size - 1]
            check(d.values == [], f"{name} less than one element")
        for wrap in (bytearray, memoryview):
            d = cls()
            d.bytes = wrap(full)
            check(d.values == cls().values, f"{name} from {wrap.__name__}")
        # values list is a fresh list each time
        d = cls()
        before = d.values
        d.bytes = full
        check(d.values is not before, f"{name} new list")
        # too many / too few / out of range values refuse to pack
        c = cls()
        c.values = c.values + [0]
        raises(struct.error, lambda: c.bytes, f"{name} too many values")
        c.values = c.values[:-2]
        raises(struct.error, lambda: c.bytes, f"{name} too few values")
        if c.type != "f":
            c = cls()
            c.values[0] = -1
            raises(struct.error, lambda: c.bytes, f"{name} negative value")
        # setter needs a sized bytes-like value
        d = cls()
        raises(TypeError, lambda: setattr(d, "bytes", None), f"{name} None data")
        check(d.values == [], f"{name} values cleared before failure")


def check_harmonic_types():
    cls = SpectraVoice.harmonic_types_chunk
    HT = SpectraVoice.HarmonicType
    c = cls()
    check(c.values == [HT.hsin] * 16, "harmonic types default")
    check(c.default is not c.default, "harmonic types default is rebuilt")
    check(c.bytes == bytes([HT.hsin.value] * 16), "harmonic types bytes")
    members = list(HT)
    values = [members[i % len(members)] for i in range(16)]
    c.values = values
    data = c.bytes
    check(data == bytes(m.value for m in values), "harmonic types encode")
    d = cls()
    d.bytes = data
    check(d.values == values, "harmonic types decode")
    # An unknown type number fails with ValueError; what was decoded so far stays.
    bad = bytes([members[1].value, members[2].value, 250, members[0].value])
    d = cls()
    raises(ValueError, lambda: setattr(d, "bytes", bad), "harmonic types bad")
    check(d.values == [members[1], members[2]], "harmonic types partial state")


def check_mapping_arrays():
    # MultiCtl: eight 32-bit fields per element
    arr = MultiCtl.MappingArray()
    check(len(arr.values) == 16, "multictl mappings length")
    check(
        arr.bytes == struct.pack("<" + "I" * 128, *([0, 0x8000, 0, 0, 0, 0, 0, 0] * 16)),
        "multictl mappings default bytes",
    )
    rows = [
        (i, 0xFFFFFFFF - i, i * 3, i & 1, 5, 6, 7, 0xFFFFFFFF) for i in range(16)
    ]
    arr.values = [MultiCtl.Mapping(r) for r in rows]
    data = arr.bytes
    check(
        data == b"".join(struct.pack("<IIIIIIII", *r) for r in rows),
        "multictl mappings bytes",
    )
    other = MultiCtl.MappingArray()
    other.bytes = data + b"\x01\x02\x03"  # trailing partial element ignored
    got = [
        (
            m.min,
            m.max,
            m.controller,
            m.flags,
            m.future_use2,
            m.future_use3,
            m.future_use4,
            m.future_use5,
        )
        for m in other.values
    ]
    check(got == rows, "multictl mappings decode")
    check(all(type(m) is MultiCtl.Mapping for m in other.values), "mapping type")
    other.bytes = data[: 32 * 3]
    check(len(other.values) == 3, "multictl short mappings are not padded")

    # MetaModule: two 16-bit fields per element, padded up to full length
    marr = MetaModule.MappingArray()
    n = marr.length
    pairs = [(i, 0xFFFF - i) for i in range(n)]
    marr.values = [MetaModule.Mapping(p) for p in pairs]
    mdata = marr.bytes
    check(mdata == b"".join(struct.pack("<HH", *p) for p in pairs), "meta bytes")
    m2 = MetaModule.MappingArray()
    m2.bytes = mdata[: 4 * 5 + 2]
    check(len(m2.values) == n, "meta mappings padded")
    got = [(m.module, m.controller) for m in m2.values]
    check(got == pairs[:5] + [(0, 0)] * (n - 5), "meta mappings decode + pad")
    m2.bytes = b""
    check(
        [(m.module, m.controller) for m in m2.values] == [(0, 0)] * n,
        "meta mappings empty data",
    )


def check_reset_and_set_via_fn():
    class Plain(ArrayChunk):
        length = 5
        type = "H"
        element_size = 2

    class Scalar(Plain):
        default = 7

    class Listed(Plain):
        default = [5, 4, 3, 2, 1]

    class Fn(Plain):
        min_value = 0
        max_value = 6

        def default(self, x):
            return x * 3 - 3

    class LowBound(Plain):
        min_value = 4
        max_value = None

        def default(self, x):
            return x * 2

    class Mismatch(Plain):
        element_size = 4  # does not agree with "H"

    class Pair(ArrayChunk):
        length = 2
        type = "Bh"
        element_size = 3
        python_type = list

        @property
        def encoded_values(self):
            return list(itertools.chain.from_iterable(self.values))

    check(Plain().values == [0, 0, 0, 0, 0], "reset None default")
    check(Scalar().values == [7] * 5, "reset scalar default")
    li = Listed()
    check(li.values == [5, 4, 3, 2, 1], "reset list default")
    check(li.values is not Listed.default, "reset copies list default")
    li.values[0] = 99
    check(Listed.default[0] == 5, "class default untouched")
    li.reset()
    check(li.values == [5, 4, 3, 2, 1], "reset restores")
    # min_value == 0 is falsy and therefore not applied; max_value is
    check(Fn().values == [-3, 0, 3, 6, 6], "set_via_fn clamps as before")
    check(LowBound().values == [4, 4, 4, 6, 8], "set_via_fn lower bound only")
    p = Plain()
    calls = []
    p.set_via_fn(lambda x: calls.append(x) or 10 - x)
    check(calls == [0, 1, 2, 3, 4], "set_via_fn call order")
    check(p.values == [10, 9, 8, 7, 6], "set_via_fn unclamped")
    # failing fn leaves the values alone
    keep = p.values

    def boom(x):
        if x == 3:
            raise KeyError(x)
        return x

    raises(KeyError, lambda: p.set_via_fn(boom), "set_via_fn propagates")
    check(p.values is keep, "set_via_fn failure keeps values")

    # element_size that disagrees with the format is a struct.error on read
    m = Mismatch()
    raises(struct.error, lambda: setattr(m, "bytes", bytes(8)), "mismatch read")
    check(m.values == [], "mismatch leaves empty values")
    m.bytes = bytes(3)  # less than one element: nothing decoded, no error
    check(m.values == [], "mismatch short data")

    # multi-field element without a mapping class
    pr = Pair()
    pr.bytes = struct.pack("<BhBh", 1, -2, 255, 32767) + b"\x00"
    check(pr.values == [[1, -2], [255, 32767]], "pair decode")
    check(pr.bytes == struct.pack("<BhBh", 1, -2, 255, 32767), "pair encode")

    # unconfigured array classes keep failing the same way
    from rv.modules.base.multictl import BaseMultiCtl

    raw = BaseMultiCtl.mappings_chunk()
    check(len(raw.values) == 16 and raw.values[0] is raw.values[1], "dict default")
    raises(TypeError, lambda: raw.bytes, "type None cannot be packed")
    raises(TypeError, lambda: setattr(raw, "bytes", b"1234"), "size None")


# --------------------------------------------------------------------------
# WaveformChunk / DrawnWaveformChunk / encoder Chunk
# --------------------------------------------------------------------------


def check_waveforms():
    class W(DrawnWaveformChunk):
        chnm = 0

    w = W()
    check(w.is_default, "drawn default")
    check(list(w.chunks()) == [], "default waveform not written")
    check(w.samples is not W.default, "samples copied")
    ref = bytes(y % 256 for y in W.default)
    check(w.bytes == ref and w.chdt() == ref, "default waveform bytes")
    for samples in (
        list(range(-128, 128)),
        [-128, 127, 0, -1, 1],
        [255, 256, -129, -256, 1000, -1000, 2**40 + 5, -(2**40) - 5],
        [True, False],
        [],
    ):
        w = W()
        w.samples = list(samples)
        want = bytes(int(y) % 256 for y in samples)
        check(w.bytes == want, f"waveform bytes {samples[:4]}")
        got = list(w.chunks())
        check(
            got
            == [
                (b"CHNM", struct.pack("<I", 0)),
                (b"CHDT", want),
                (b"CHFR", struct.pack("<I", 44100)),
            ],
            f"waveform chunks {samples[:4]}",
        )
    w = W()
    w.samples = [1.5]
    raises(TypeError, lambda: w.bytes, "float sample")
    for fmt in WaveformChunk.Format:
        w = W()
        w.samples = [1, 2, 3]
        w.format = fmt
        check(w.chff() == struct.pack("<I", fmt.value), f"chff {fmt}")
        if fmt is WaveformChunk.Format.mono_8bit:
            check(w.bytes == b"\x01\x02\x03", "mono 8 bit bytes")
        else:
            raises(NotImplementedError, lambda: w.bytes, f"format {fmt}")
    w = W()
    w.format = None
    w.samples = [-1]
    check(w.bytes == b"\xff", "format None is treated as 8 bit")
    for freq in (0, 1, 44100, 2**32 - 1):
        w.freq = freq
        check(w.chfr() == struct.pack("<I", freq), f"chfr {freq}")
    w.freq = 2**32
    raises(struct.error, w.chfr, "chfr overflow")
    w.freq = -1
    raises(struct.error, w.chfr, "chfr negative")

    class E(EncoderChunk):
        chnm = 9
        has_chff = True
        has_chfr = True

    zero = struct.pack("<I", 0)
    check(
        list(E().chunks())
        == [(b"CHNM", struct.pack("<I", 9)), (b"CHDT", b""), (b"CHFF", zero), (b"CHFR", zero)],
        "encoder chunk defaults",
    )
    e = E()
    e.chnm = 2**32 - 1
    check(next(e.chunks()) == (b"CHNM", b"\xff\xff\xff\xff"), "chnm max")
    e.chnm = None
    raises(struct.error, lambda: next(e.chunks()), "chnm None")

    # module-level Chunk record
    c = Chunk()
    c.chnm, c.chdt = 3, b"abc"
    check(
        list(c.chunks())
        == [
            (b"CHNM", struct.pack("<I", 3)),
            (b"CHDT", b"abc"),
            (b"CHFF", zero),
            (b"CHFR", struct.pack("<I", 44100)),
        ],
        "record chunk",
    )
    c.chff = None
    c.chfr = None
    check(list(c.chunks()) == [(b"CHNM", struct.pack("<I", 3)), (b"CHDT", b"abc")], "no ff/fr")
    c.chff = 2**32 - 1
    c.chfr = 1
    check(
        list(c.chunks())[2:] == [(b"CHFF", b"\xff" * 4), (b"CHFR", struct.pack("<I", 1))],
        "ff/fr values",
    )


# --------------------------------------------------------------------------
# Module.iff_chunks
# --------------------------------------------------------------------------


def reference_iff_chunks(m, in_project):
    P = struct.pack
    out = [(b"SFFF", P("<I", m.flags))]
    raw = m.name.encode("utf8")[:32].decode("utf8", "ignore").encode("utf8")
    out.append((b"SNAM", raw + b"\0" * (32 - len(raw))))
    if m.mtype is not None and m.mtype != "Output":
        out.append((b"STYP", m.mtype.encode("utf8") + b"\0"))
    out.append((b"SFIN", P("<i", m.mod_finetune)))
    out.append((b"SREL", P("<i", m.mod_relative_note)))
    if in_project:
        out.append((b"SXXX", P("<i", m.x)))
        out.append((b"SYYY", P("<i", m.y)))
        out.append((b"SZZZ", P("<i", m.layer)))
    out.append((b"SSCL", P("<I", m.mod_scale)))
    if in_project:
        out.append((b"SVPR", P("<I", m._visualization)))
    out.append((b"SCOL", bytes(m.color)))
    out.append((b"SMII", P("<I", int(m.midi_in_always) + m.midi_in_channel * 2)))
    if m.midi_out_name:
        out.append((b"SMIN", m.midi_out_name.encode("utf8") + b"\0"))
    out.append((b"SMIC", P("<I", m.midi_out_channel)))
    out.append((b"SMIB", P("<i", m.midi_out_bank)))
    out.append((b"SMIP", P("<i", m.midi_out_program)))
    return out


def check_iff_chunks():
    import rv

    check(rv.ENCODING == "utf8" or rv.ENCODING.replace("-", "") == "utf8", "encoding")
    settings = [
        {},
        dict(
            name="x" * 40,
            finetune=-256,
            relative_note=-2147483648,
            x=-5,
            y=2147483647,
            layer=7,
            mod_scale=0,
            color=(0, 128, 255),
            midi_in_always=True,
            midi_in_channel=16,
            midi_out_name="port é",
            midi_out_channel=15,
            midi_out_bank=16383,
            midi_out_program=127,
            visualization=0xFFFFFFFF,
        ),
        dict(name="é" * 20, midi_out_name="", mod_scale=2**32 - 1),
        dict(name="a" * 31 + "é", color=[1, 2, 3]),
        dict(name="", scale=300),
    ]
    for mtype, cls in MODULE_CLASSES.items():
        for kw in settings:
            kw = dict(kw)
            fin = kw.pop("finetune", 0)
            rel = kw.pop("relative_note", 0)
            m = quiet(cls, **kw)
            m.mod_finetune, m.mod_relative_note = fin, rel
            m.flags = m.default_flags if hasattr(m, "default_flags") else 0x49
            for ctx in (False, True):
                got = list(m.iff_chunks(in_project=ctx))
                check(got == reference_iff_chunks(m, ctx), f"iff_chunks {mtype} {ctx}")
            check(
                list(m.iff_chunks()) == reference_iff_chunks(m, False),
                f"iff_chunks default ctx {mtype}",
            )
    # default context follows parent
    p = Project()
    m = p.new_module(MODULE_CLASSES["Amplifier"], x=3, y=4, layer=2)
    check(list(m.iff_chunks()) == reference_iff_chunks(m, True), "in project by parent")
    check(
        list(m.iff_chunks(in_project=False)) == reference_iff_chunks(m, False),
        "explicit stand-alone",
    )
    raises(RuntimeError, lambda: list(Module().iff_chunks()), "base module")
    # out of range fields are struct errors at the same field
    m = MODULE_CLASSES["Amplifier"]()
    m.flags = 0x49
    m.mod_finetune = 2**31
    it = m.iff_chunks(in_project=False)
    names = []
    try:
        for n, _ in it:
            names.append(n)
        check(False, "finetune overflow not detected")
    except struct.error:
        check(names == [b"SFFF", b"SNAM", b"STYP"], "finetune overflow position")
    m = MODULE_CLASSES["Amplifier"](color=(1, 2))
    m.flags = 0x49
    raises(struct.error, lambda: list(m.iff_chunks(in_project=False)), "short colour")
    m = MODULE_CLASSES["Amplifier"](color=(1, 2, 256))
    m.flags = 0x49
    raises(struct.error, lambda: list(m.iff_chunks(in_project=False)), "big colour")


# --------------------------------------------------------------------------
# options
# --------------------------------------------------------------------------


def reference_option_bytes(m):
    bytemap = [0] * 64
    used = 0
    for o in m.options.values():
        v = int(m.option_values[o.name]) & ((1 << o.size) - 1)
        bytemap[o.byte] |= v << o.bit
        used = max(used, o.byte + 1)
    return bytes(bytemap[:used])


def check_options():
    rnd = random.Random(99)
    for mtype, cls in MODULE_CLASSES.items():
        if not cls.options:
            continue
        names = list(cls.options)
        assignments = [dict(), {n: True for n in names}, {n: False for n in names}]
        for _ in range(12):
            assignments.append({n: rnd.random() < 0.5 for n in names})
        for n in names:
            assignments.append({k: (k == n) for k in names})
        for assignment in assignments:
            m = quiet(cls)
            for n, v in assignment.items():
                o = cls.options[n]
                if None not in (o.min, o.max):
                    v = o.max if v else o.min
                setattr(m, n, v)
            got = list(m.options_chunks())
            want = reference_option_bytes(m)
            check(
                got == [(b"CHNM", struct.pack("<I", m.options_chnm)), (b"CHDT", want)],
                f"options_chunks {mtype}",
            )
            # load into a fresh module, from full and from padded/short data
            for data in (want, want + b"\0" * 7, want.rstrip(b"\0")):
                fresh = quiet(cls)
                ch = Chunk()
                ch.chnm, ch.chdt = m.options_chnm, data
                fresh.load_options(ch)
                check(fresh.option_values == m.option_values, f"load_options {mtype}")
                for n in names:
                    o = cls.options[n]
                    if o.size == 1:
                        check(type(fresh.option_values[n]) is bool, f"bool {mtype}.{n}")
                    else:
                        check(type(fresh.option_values[n]) is int, f"int {mtype}.{n}")
            # all-ones / over-long data only looks at each option's own bits
            fresh = quiet(cls)
            ch = Chunk()
            ch.chnm, ch.chdt = m.options_chnm, b"\xff" * 70
            fresh.load_options(ch)
            for n in names:
                o = cls.options[n]
                want_v = True if o.size == 1 else (1 << o.size) - 1
                check(fresh.option_values[n] == want_v, f"all ones {mtype}.{n}")
    # a module without an option value refuses to serialize
    m = MODULE_CLASSES["Sound2Ctl"]()
    del m.option_values["record_values"]
    raises(TypeError, lambda: list(m.options_chunks()), "missing option value")
    # no options: specialised chunks are a single placeholder
    m = MODULE_CLASSES["WaveShaper"]()
    check(list(Module.specialized_iff_chunks(m)) == [(None, None)], "placeholder")


# --------------------------------------------------------------------------
# whole-file round trips for every module type
# --------------------------------------------------------------------------


def candidate_values(module, name):
    ctl = module.controllers[name]
    t = ctl.instance_value_type(module)
    if t is None:
        return []
    if isinstance(t, Range):
        lo, hi = t.min, t.max
        return [lo, hi, (lo + hi) // 2, min(hi, lo + 1)]
    if t is bool:
        return [False, True, True, False]
    if isinstance(t, type) and issubclass(t, Enum):
        members = list(t)
        return [members[0], members[-1], members[len(members) // 2], members[0]]
    return []


def configure(module, variant):
    for name in module.controllers:
        if name.startswith("user_defined_"):
            continue
        values = candidate_values(module, name)
        if values:
            setattr(module, name, values[variant])


def state(m):
    s = {
        "type": type(m).__name__,
        "mtype": m.mtype,
        "name": m.name,
        "flags": m.flags,
        "cv": {
            k: (v.value if isinstance(v, Enum) else v)
            for k, v in m.controller_values.items()
        },
        "opt": dict(m.option_values),
        "cmid": {k: m.controller_midi_maps[k].cmid_data for k in m.controllers},
        "common": (
            m.mod_finetune,
            m.mod_relative_note,
            m.mod_scale,
            tuple(m.color),
            m.midi_in_always,
            m.midi_in_channel,
            m.midi_out_name,
            m.midi_out_channel,
            m.midi_out_bank,
            m.midi_out_program,
        ),
        "special": b"".join(
            (n or b"-") + (d or b"-") for n, d in m.specialized_iff_chunks()
        )
        if m.chnk
        else b"",
    }
    return s


def check_round_trips():
    digest = hashlib.sha256()
    for mtype, cls in MODULE_CLASSES.items():
        if mtype == "Output":
            continue
        for variant in range(4):
            m = quiet(cls, name=f"{mtype} v{variant}", color=(variant, 2, 3))
            m.mod_finetune = -variant
            m.mod_relative_note = variant * 3
            m.flags = m.default_flags
            configure(m, variant)
            if mtype == "Generator" and variant:
                m.drawn_waveform.samples = [(-1) ** i * (i * 4 % 128) for i in range(32)]
            if mtype == "Analog generator" and variant:
                m.drawn_waveform.samples = [127 - i * 8 for i in range(32)]
            if mtype == "WaveShaper":
                m.curve.values = [(i * 257 * (variant + 1)) % 65536 for i in range(256)]
            if mtype == "FMX":
                m.custom_waveform.values = [((i * variant) % 256 - 128) / 128 for i in range(256)]
            if mtype == "MultiSynth":
                m.nv_curve.values = [(i * (variant + 1)) % 256 for i in range(128)]
                m.vv_curve.values = [255 - (i % 256) for i in range(257)]
                if variant:
                    m.np_curve.values = [65535 - i * variant for i in range(128)]
            if mtype == "MultiCtl":
                m.curve.values = [(i * 128 + variant) % 32769 for i in range(257)]
                m.mappings.values[variant] = MultiCtl.Mapping((1, 2, 3, 1, 0, 0, 0, 9))
            if mtype == "SpectraVoice":
                for i, h in enumerate(m.harmonics):
                    h.freq_hz = (i * 1000 + variant) % 32769
                    h.volume = (i * 16 + variant) % 256
                    h.width = 255 - i
                    h.type = list(SpectraVoice.HarmonicType)[(i + variant) % len(SpectraVoice.HarmonicType)]
            if mtype == "Vorbis player":
                m.data = bytes(range(256)) * variant
            first = list(m.controllers)[0] if m.controllers else None
            if first and not first.startswith("user_defined"):
                mm = m.controller_midi_maps[first]
                mm.channel = variant
                mm.message_parameter = 1000 + variant
                from rv.cmidmap import MidiMessageType, Slope

                mm.message_type = list(MidiMessageType)[variant + 1]
                mm.slope = list(Slope)[variant]
            data = Synth(m).read()
            digest.update(data)
            clone = m.clone()
            check(type(clone) is cls, f"clone type {mtype}")
            check(state(clone) == state(m), f"clone state {mtype} v{variant}")
            check(Synth(clone).read() == data, f"clone bytes {mtype} v{variant}")
            loaded = read_sunvox_file(io.BytesIO(data)).module
            check(state(loaded) == state(m), f"loaded state {mtype} v{variant}")
            # inside a project
            p = Project()
            p.attach_module(m)
            pdata = p.read()
            digest.update(pdata)
            p2 = read_sunvox_file(io.BytesIO(pdata))
            m2 = p2.modules[1]
            check(type(m2) is cls, f"project type {mtype}")
            check(state(m2) == state(m), f"project state {mtype} v{variant}")
            check((m2.x, m2.y, m2.layer) == (m.x, m.y, m.layer), f"project xy {mtype}")
            check(p2.read() == pdata, f"project bytes {mtype} v{variant}")
    raises(EmptySynthError, lambda: Synth().read(), "empty synth")
    raises(EmptySynthError, lambda: Synth(None).write_to(io.BytesIO()), "empty synth write")
    return digest.hexdigest()


EXPECTED_DIGEST = "663bbd3dbf85f5066ce51109b459202af2a1acc09b435a73f2a657a369c33878"


def main():
    check_scalar_arrays()
    check_harmonic_types()
    check_mapping_arrays()
    check_reset_and_set_via_fn()
    check_waveforms()
    check_iff_chunks()
    check_options()
    digest = check_round_trips()
    if "--digest" in sys.argv:
        print(digest)
    check(digest == EXPECTED_DIGEST, f"serialized bytes digest {digest}")
    if FAILURES:
        print(f"FAIL ({len(FAILURES)} problems)")
        sys.exit(1)
    print("PASS")


if __name__ == "__main__":
    main()
