"""Behaviour check for packed words: Visualization (SVPR), SMII and SFGS (C12)."""
import io
import struct
import sys
from types import SimpleNamespace

import rv.api as rv
from rv.modules.module import (
    LevelMode,
    Module,
    Orientation,
    OscilloscopeMode,
    Visualization,
)
from rv.readers.module import ModuleReader
from rv.readers.sunvox import SunVoxReader

failures = []


def expect(cond, msg):
    if not cond:
        failures.append(msg)


def outcome(fn):
    """Value returned by fn(), or the type of the exception it raises."""
    try:
        return ("ok", fn())
    except Exception as e:  # noqa: BLE001
        return ("raises", type(e))


# name, shift, mask, enum (or None), members that are defined
FIELDS = [
    ("level_mode", 0, 0b11111, LevelMode, range(5)),
    ("orientation", 5, 1, Orientation, range(2)),
    ("oscilloscope_mode", 8, 0b11111, OscilloscopeMode, range(8)),
    ("oscilloscope_size", 16, 0xFF, None, range(256)),
    ("bg_transparency", 24, 3, None, range(4)),
    ("shadow_opacity", 26, 3, None, range(4)),
]
NAMES = [f[0] for f in FIELDS]
ALL_FIELD_BITS = sum(mask << shift for _, shift, mask, _, _ in FIELDS)

# backgrounds: contents of every bit outside the field under test
BACKGROUNDS = [
    0,
    0x000C0101,  # library default
    0x0FFF0724,  # all fields at their highest defined members
    0xF000E0C0,  # only bits that belong to no field
    0xFFFFFFFF,
    0x5A5A5A5A,
    0xA5A5A5A5,
    (1 << 40) | 0x01020304,  # wider than 32 bits
]


def valid_word(word):
    """Make the enumerated parts of word hold defined members."""
    for _, shift, mask, enum, members in FIELDS:
        if enum is not None and ((word >> shift) & mask) not in members:
            word &= ~(mask << shift)
            word |= max(members) << shift
    return word


def new_values(mask, enum):
    vals = list(range(-3, mask + 4)) + [255, 256, 1000, -1000]
    if enum is not None:
        vals += list(enum)
    vals += [True, False]
    return vals


def expected_new(name, mask, new):
    if name in ("level_mode",):
        return new & mask
    if name in ("orientation", "oscilloscope_mode"):
        return int(new) & mask
    return max(0, min(new, mask))


# --- getters -----------------------------------------------------------------
for name, shift, mask, enum, members in FIELDS:
    for bg in BACKGROUNDS:
        for old in range(mask + 1):
            word = (bg & ~(mask << shift)) | (old << shift)
            viz = Visualization(word)
            got = outcome(lambda: getattr(viz, name))
            if enum is None:
                want = ("ok", old)
            elif old in members:
                want = ("ok", enum(old))
            else:
                want = ("raises", ValueError)
            if got != want or (got[0] == "ok" and type(got[1]) is not (enum or int)):
                failures.append(f"getter {name} word={word:#x}: {got} != {want}")
            expect(viz.value == word and int(viz) == word, f"getter {name} mutated word")

# --- setters: (background, old sub-field, new value) exhaustively ------------
for name, shift, mask, enum, members in FIELDS:
    bad = None
    for bg in BACKGROUNDS:
        bgv = valid_word(bg)
        for old in range(mask + 1):
            word = (bgv & ~(mask << shift)) | (old << shift)
            old_valid = enum is None or old in members
            for new in new_values(mask, enum):
                viz = Visualization(word)
                res = outcome(lambda: setattr(viz, name, new))
                if not old_valid:
                    # a word whose enumerated part is undefined cannot be edited
                    if res != ("raises", ValueError) or viz.value != word:
                        bad = f"{name}: word={word:#x} new={new!r}: {res}, value={viz.value:#x}"
                    continue
                want_field = expected_new(name, mask, new)
                want_word = (word & ~(mask << shift)) | (want_field << shift)
                if res != ("ok", None) or viz.value != want_word or type(viz.value) is not int:
                    bad = f"{name}: word={word:#x} new={new!r}: {res}, value={viz.value!r}, want {want_word:#x}"
                    continue
                # read back what was set; other sub-fields unchanged
                back = outcome(lambda: getattr(viz, name))
                if enum is not None and want_field not in members:
                    if back != ("raises", ValueError):
                        bad = f"{name}: undefined member {want_field} read back as {back}"
                elif back != ("ok", want_field):
                    bad = f"{name}: read back {back}, want {want_field}"
                before = Visualization(word)
                for other in NAMES:
                    if other != name and getattr(viz, other) != getattr(before, other):
                        bad = f"{name}: changed {other} (word={word:#x}, new={new!r})"
                if (viz.value ^ word) & ~(mask << shift):
                    bad = f"{name}: bits outside the field changed (word={word:#x})"
    if bad:
        failures.append(bad)

# setting every field in turn, in several orders, on one object
for order in (NAMES, NAMES[::-1], NAMES[3:] + NAMES[:3]):
    viz = Visualization(0x000C0101)
    target = {
        "level_mode": LevelMode.glow,
        "orientation": Orientation.vertical,
        "oscilloscope_mode": OscilloscopeMode.xy,
        "oscilloscope_size": 200,
        "bg_transparency": 2,
        "shadow_opacity": 1,
    }
    for nm in order:
        setattr(viz, nm, target[nm])
    expect(all(getattr(viz, nm) == target[nm] for nm in NAMES), f"sequence {order[0]}")
    expect(viz.value == 4 | (1 << 5) | (7 << 8) | (200 << 16) | (2 << 24) | (1 << 26), "sequence word")
    # and overwrite again with different values (fields already hold something)
    viz.level_mode = 1
    viz.oscilloscope_size = 7
    viz.shadow_opacity = 3
    viz.orientation = 0
    expect(viz.value == 1 | (7 << 8) | (7 << 16) | (2 << 24) | (3 << 26), "overwrite word")

# negative word (not loadable from a file, but int semantics are defined)
viz = Visualization(-1 & ~(0b11111) | 2)
viz.level_mode = 4
expect(viz.value == (-1 & ~0b11111) | 4, "negative word")

# rejected new values: error type and untouched word
REJECTS = {
    "level_mode": [("3", TypeError), (None, TypeError), (1.0, TypeError)],
    "orientation": [("x", ValueError), (None, TypeError), ("1", None), (1.9, None)],
    "oscilloscope_mode": [("x", ValueError), (None, TypeError), ("3", None), (2.5, None)],
    "oscilloscope_size": [("3", TypeError), (None, TypeError), (2.0, TypeError), (300.5, None), (-0.5, None)],
    "bg_transparency": [("3", TypeError), (None, TypeError), (2.0, TypeError), (9.5, None)],
    "shadow_opacity": [("3", TypeError), (None, TypeError), (2.0, TypeError), (-7.5, None)],
}
ACCEPTED = {
    ("orientation", "1"): 1,
    ("orientation", 1.9): 1,
    ("oscilloscope_mode", "3"): 3,
    ("oscilloscope_mode", 2.5): 2,
    ("oscilloscope_size", 300.5): 255,
    ("oscilloscope_size", -0.5): 0,
    ("bg_transparency", 9.5): 3,
    ("shadow_opacity", -7.5): 0,
}
for name, shift, mask, enum, members in FIELDS:
    for new, err in REJECTS[name]:
        viz = Visualization(0x000C0101)
        res = outcome(lambda: setattr(viz, name, new))
        if err is not None:
            expect(res == ("raises", err), f"{name} <- {new!r}: {res}")
            expect(viz.value == 0x000C0101, f"{name} <- {new!r}: word changed")
        else:
            want = ACCEPTED[(name, new)]
            expect(res == ("ok", None) and getattr(viz, name) == want, f"{name} <- {new!r}: {res}")
            expect(type(viz.value) is int, f"{name} <- {new!r}: word type")
# undefined old member wins over a bad new value
viz = Visualization(31)
expect(outcome(lambda: setattr(viz, "level_mode", None)) == ("raises", ValueError), "error precedence")
# non-integer word
for nm in NAMES:
    viz = Visualization(None)
    expect(outcome(lambda: getattr(viz, nm)) == ("raises", TypeError), f"None word get {nm}")
    expect(outcome(lambda: setattr(viz, nm, 1)) == ("raises", TypeError), f"None word set {nm}")

# --- Module.visualization and the SVPR chunk -------------------------------
mod = rv.m.Amplifier()
expect(int(mod.visualization) == 0x000C0101, "default visualization")
expect(isinstance(mod.visualization, Visualization), "visualization wrapper")
expect(mod.visualization is not mod.visualization, "fresh wrapper per access")
viz = mod.visualization
viz.oscilloscope_size = 99
expect(int(mod.visualization) == 0x000C0101, "editing a wrapper does not write through")
mod.visualization = int(viz)
expect(mod.visualization.oscilloscope_size == 99, "assigning the word back")
expect(dict(mod.iff_chunks(in_project=True))[b"SVPR"] == struct.pack("<I", int(viz)), "SVPR chunk")
expect(b"SVPR" not in dict(mod.iff_chunks(in_project=False)), "SVPR only in projects")

# --- SMII: MIDI-in mode and channel ------------------------------------------
for always in (False, True, 0, 1):
    for channel in list(range(0, 18)) + [127, 0x7FFFFFFF]:
        mod = rv.m.Amplifier(midi_in_always=always, midi_in_channel=channel)
        payload = dict(mod.iff_chunks())[b"SMII"]
        expect(payload == struct.pack("<I", (channel << 1) + int(always)), f"SMII {always} {channel}")
        fake = SimpleNamespace(object=SimpleNamespace())
        ModuleReader.process_SMII(fake, payload)
        expect(
            fake.object.midi_in_always is bool(always) and fake.object.midi_in_channel == channel,
            f"SMII decode {always} {channel}",
        )
        expect(type(fake.object.midi_in_channel) is int, "SMII channel type")
# "always" is added, not or-ed, and is taken through int()
mod = rv.m.Amplifier(midi_in_always=3, midi_in_channel=2)
expect(dict(mod.iff_chunks())[b"SMII"] == struct.pack("<I", 7), "SMII additive")
for always, channel, err in (
    ("x", 1, ValueError),
    (None, 1, TypeError),
    (True, None, TypeError),
    (True, 1.0, TypeError),
    (True, -1, struct.error),
    (True, 0x80000000, struct.error),
    ("x", None, ValueError),
):
    mod = rv.m.Amplifier(midi_in_always=always, midi_in_channel=channel)
    expect(outcome(lambda: list(mod.iff_chunks())) == ("raises", err), f"SMII error {always!r} {channel!r}")
# chunk order around SMII is stable
names = [k for k, _ in rv.m.Amplifier().iff_chunks(in_project=True)]
i = names.index(b"SMII")
expect(names[i - 2 : i + 2] == [b"SVPR", b"SCOL", b"SMII", b"SMIC"], f"chunk order {names[i-2:i+2]}")
expect(names.count(b"SMII") == 1, "one SMII chunk")
# every small word and some large ones decode
for word in list(range(64)) + [0xFFFFFFFF, 0xFFFFFFFE, 0x80000001, 0x12345678]:
    fake = SimpleNamespace(object=SimpleNamespace())
    ModuleReader.process_SMII(fake, struct.pack("<I", word))
    expect(
        (fake.object.midi_in_always, fake.object.midi_in_channel) == (bool(word & 1), word >> 1),
        f"SMII word {word:#x}",
    )
    expect(list(vars(fake.object)) == ["midi_in_always", "midi_in_channel"], "SMII assignment order")
for bad in (b"", b"\0" * 3, b"\0" * 5):
    fake = SimpleNamespace(object=SimpleNamespace())
    expect(outcome(lambda: ModuleReader.process_SMII(fake, bad)) == ("raises", struct.error), "SMII length")
    expect(vars(fake.object) == {}, "SMII nothing assigned on error")

# --- SFGS: sync flags ----------------------------------------------------------
Sync = rv.Project.SyncCommand


def sfgs_of(project):
    for name, payload in project.chunks():
        if name == b"SFGS":
            return payload
    raise AssertionError("no SFGS chunk")


project = rv.Project()
expect((project.receive_sync_midi, project.receive_sync_other) == (Sync.start_stop, Sync.start_stop), "sync defaults")
expect(sfgs_of(project) == struct.pack("<I", 0b001001), "default SFGS")
for midi in range(8):
    for other in range(8):
        project.receive_sync_midi = midi
        project.receive_sync_other = other
        payload = sfgs_of(project)
        expect(payload == struct.pack("<I", midi | (other << 3)), f"SFGS {midi} {other}")
        fake = SimpleNamespace(object=SimpleNamespace())
        SunVoxReader.process_SFGS(fake, payload)
        expect(
            (fake.object.receive_sync_midi, fake.object.receive_sync_other) == (midi, other),
            f"SFGS decode {midi} {other}",
        )
        expect(
            type(fake.object.receive_sync_midi) is int and type(fake.object.receive_sync_other) is int,
            "SFGS decode types",
        )
# setting one group leaves the other alone, also when overwriting
project.receive_sync_midi = Sync.tempo | Sync.position
project.receive_sync_other = Sync.start_stop
expect(sfgs_of(project) == struct.pack("<I", 0b001110), "enum members")
project.receive_sync_other = Sync.position
expect(sfgs_of(project) == struct.pack("<I", 0b100110), "overwrite other")
project.receive_sync_midi = Sync.start_stop
expect(sfgs_of(project) == struct.pack("<I", 0b100001), "overwrite midi")
# out-of-width values are or-ed in as they are
project.receive_sync_midi, project.receive_sync_other = 8, 1
expect(sfgs_of(project) == struct.pack("<I", 8), "overlapping groups are or-ed")
project.receive_sync_midi, project.receive_sync_other = 0x100, 0x100
expect(sfgs_of(project) == struct.pack("<I", 0x900), "wide groups")
for midi, other, err in (
    (None, 1, TypeError),
    (1, None, TypeError),
    (1.0, 1, TypeError),
    (1, 1.0, TypeError),
    (-1, 0, struct.error),
    (0, 1 << 29, struct.error),
):
    project.receive_sync_midi, project.receive_sync_other = midi, other
    expect(outcome(lambda: sfgs_of(project)) == ("raises", err), f"SFGS error {midi!r} {other!r}")
# chunk position
project = rv.Project()
names = [k for k, _ in project.chunks()][:6]
expect(names == [b"SVOX", b"VERS", b"BVER", b"FLGS", b"SFGS", b"BPM "], f"project chunk order {names}")
# every word of interest decodes; bits above the two groups are ignored
for word in list(range(256)) + [0xFFFFFFFF, 0xFFFFFFC0, 0x12345678]:
    fake = SimpleNamespace(object=SimpleNamespace())
    SunVoxReader.process_SFGS(fake, struct.pack("<I", word))
    expect(
        (fake.object.receive_sync_midi, fake.object.receive_sync_other) == (word & 7, (word >> 3) & 7),
        f"SFGS word {word:#x}",
    )
    expect(list(vars(fake.object)) == ["receive_sync_midi", "receive_sync_other"], "SFGS assignment order")
for bad in (b"", b"\0" * 3, b"\0" * 5):
    fake = SimpleNamespace(object=SimpleNamespace())
    expect(outcome(lambda: SunVoxReader.process_SFGS(fake, bad)) == ("raises", struct.error), "SFGS length")
    expect(vars(fake.object) == {}, "SFGS nothing assigned on error")

# --- end to end through a .sunvox image ---------------------------------------
for midi, other, always, channel, word in (
    (0, 0, False, 0, 0x000C0101),
    (7, 7, True, 16, 0x0FFF0724),
    (Sync.tempo, Sync.position, True, 1, 0x04210302),
    (5, 2, False, 9, 0x0B7F0021),
):
    project = rv.Project()
    project.receive_sync_midi, project.receive_sync_other = midi, other
    amp = project.new_module(rv.m.Amplifier, midi_in_always=always, midi_in_channel=channel)
    amp.visualization = word
    f = io.BytesIO()
    project.write_to(f)
    blob = f.getvalue()
    loaded = rv.read_sunvox_file(io.BytesIO(blob))
    lamp = loaded.modules[amp.index]
    expect((loaded.receive_sync_midi, loaded.receive_sync_other) == (int(midi), int(other)), "file sync flags")
    expect((lamp.midi_in_always, lamp.midi_in_channel) == (always, channel), "file MIDI-in")
    expect(int(lamp.visualization) == word, "file visualization")
    before, after = Visualization(word), lamp.visualization
    expect(all(getattr(before, nm) == getattr(after, nm) for nm in NAMES), "file visualization parts")
    f2 = io.BytesIO()
    loaded.write_to(f2)
    expect(f2.getvalue() == blob, "file re-saves byte-identically")

if failures:
    print("FAIL", len(failures))
    for msg in failures[:25]:
        print("  ", msg)
    sys.exit(1)
print("PASS")
