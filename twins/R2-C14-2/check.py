"""Behaviour check for Project.__iadd__ / attach_pattern (property C14).

Run from the repository root:
    PYTHONPATH=<root>/src/python python check.py
"""
import random
import sys
from io import BytesIO

from rv.api import NOTE, Pattern, PatternClone, Project, m, read_sunvox_file
from rv.errors import ModuleOwnershipError, PatternOwnershipError
from rv.modules.module import Module
from rv.modules.output import Output

FAILS = []


def check(cond, msg):
    if not cond:
        FAILS.append(msg)


def coherent(project, label):
    mods = project.modules
    check(mods[0] is project.output, f"{label}: slot 0 is not project.output")
    for pos, mod in enumerate(mods):
        if mod is not None:
            check(mod.index == pos, f"{label}: index {mod.index} != position {pos}")
            check(mod.parent is project, f"{label}: parent mismatch at {pos}")
    for pos, pat in enumerate(project.patterns):
        if pat is not None:
            check(pat.project is project, f"{label}: pattern {pos} owner mismatch")


def roundtrip(project):
    f = BytesIO()
    project.write_to(f)
    f.seek(0)
    return read_sunvox_file(f)


def snap(project):
    return (
        [(id(x), None if x is None else (x.index, id(x.parent))) for x in project.modules],
        [(id(x), None if x is None else id(x.project)) for x in project.patterns],
    )


# --- attach_pattern ------------------------------------------------------
p = Project()
check(p.patterns == [], "fresh project has no patterns")
pat0 = Pattern(tracks=2, lines=4)
check(pat0.project is None, "new pattern unowned")
check(p.attach_pattern(pat0) == 0, "first pattern position")
check(pat0.project is p and p.patterns == [pat0], "first pattern attached")
check(p.attach_pattern(None) == 1, "None pattern position")
check(p.patterns[1] is None and len(p.patterns) == 2, "None pattern stored")
clone = PatternClone(source=0, x=4)
check(p.attach_pattern(clone) == 2, "clone position")
check(clone.project is p and clone.source_pattern is pat0, "clone attached")
check(p.attach_pattern(None) == 3 and p.attach_pattern(None) == 4, "two more Nones")
pat1 = Pattern()
check(p.attach_pattern(pat1) == 5 and p.patterns[5] is pat1, "patterns always appended")
check([x is None for x in p.patterns] == [False, True, False, True, True, False], "no gap fill")

# a pattern owned by ANY project (also this one) is refused, nothing changes
q = Project()
qpat = Pattern()
q += qpat
qclone = PatternClone(source=0)
q += qclone
check(q.patterns == [qpat, qclone] and qpat.project is q and qclone.project is q, "q patterns")
for proj, victim in ((p, qpat), (p, qclone), (p, pat0), (p, clone), (q, pat1), (q, qpat)):
    s1, s2 = snap(p), snap(q)
    owner = victim.project
    try:
        proj.attach_pattern(victim)
        check(False, "owned pattern accepted by attach_pattern")
    except PatternOwnershipError as e:
        check(type(e) is PatternOwnershipError, "pattern error type")
        check(str(e) == "Pattern already attached to a project", "pattern error message")
    try:
        proj += victim
        check(False, "owned pattern accepted by +=")
    except PatternOwnershipError:
        pass
    check(snap(p) == s1 and snap(q) == s2, "refused pattern changed state")
    check(victim.project is owner, "refused pattern owner changed")

# --- += dispatch ---------------------------------------------------------
r = Project()
amp = m.Amplifier()
res = r.__iadd__(amp)
check(res is r, "__iadd__ returns project")
check(amp.index == 1 and amp.parent is r, "+= module attaches")
r2 = r
r2 += m.Generator()
check(r2 is r and len(r.modules) == 3, "+= keeps identity")
rp = Pattern(tracks=1, lines=2)
r += rp
check(r.patterns == [rp] and rp.project is r, "+= pattern")
rc = PatternClone(source=0)
r += rc
check(r.patterns == [rp, rc] and rc.project is r, "+= clone")

# lists: left-to-right, nested, mixed, empty
a, b, c, d = m.Filter(), m.Reverb(), m.Delay(), m.Echo()
pp, pc = Pattern(), PatternClone(source=0)
r += [a, [b, pp, [c], []], pc, d]
check([x.index for x in (a, b, c, d)] == [3, 4, 5, 6], "list order modules")
check(r.patterns == [rp, rc, pp, pc], "list order patterns")
s = snap(r)
r += []
r += [[], [[]]]
check(snap(r) == s, "empty lists change nothing")

# ignored operands: None, tuples, ints, strings, lists of those
for junk in (None, 0, 1, "x", (m.Amplifier(),), {"a": 1}, 3.5, [None, 0, "y", (Pattern(),)]):
    res = r.__iadd__(junk)
    check(res is r, f"junk {junk!r}: returns project")
    check(snap(r) == s, f"junk {junk!r}: state changed")

# re-adding own modules is a no-op; own patterns are refused
r += [a, b, r.output]
check(snap(r) == s, "re-adding own modules")
try:
    r += [m.Lfo(), rp, m.Lfo()]
    check(False, "own pattern re-added")
except PatternOwnershipError:
    pass
check(len(r.modules) == 8 and isinstance(r.modules[7], m.Lfo), "items before failure stay")
check(len(r.patterns) == 4, "nothing after failure attached")

# foreign module inside a list: earlier items stay, later ones are skipped
t = Project()
x1, x2 = m.Amplifier(), m.Amplifier()
s_r = snap(r)
try:
    t += [x1, [a], x2]
    check(False, "foreign module in list accepted")
except ModuleOwnershipError as e:
    check(str(e) == "Module is already attached to another project.", "module error message")
check(x1.parent is t and x1.index == 1, "item before refusal attached")
check(x2.parent is None and x2.index is None and len(t.modules) == 2, "item after refusal not attached")
check(snap(r) == s_r and a.parent is r, "other project untouched")

# base Module via += is refused
try:
    t += Module()
    check(False, "base module accepted")
except RuntimeError as e:
    check(str(e) == "Cannot attach base Module instance.", "base module message")

# += fills gaps like attach_module does
t.attach_module(None)
t.attach_module(None)
y1, y2, y3 = m.Filter(), m.Filter(), m.Filter()
t += [y1, y2, y3]
check([y.index for y in (y1, y2, y3)] == [2, 3, 4], "+= list gap fill")
coherent(t, "t")
coherent(r, "r")

# list subclasses count as lists
class MyList(list):
    pass


z = m.Delay()
t += MyList([z])
check(z.parent is t and z.index == 5, "list subclass")

# notes resolve through the pattern's owner
npat = Pattern(tracks=1, lines=2)
t += npat
n = npat.data[0][0]
n.note = NOTE.C5
n.mod = y2
check(n.module == 4 and n.mod is y2, "note via += pattern")

# --- save / load ---------------------------------------------------------
t.patterns.insert(0, None)  # pattern list with an empty position
t2 = roundtrip(t)
check([type(x) for x in t2.modules] == [type(x) for x in t.modules], "roundtrip modules")
check([type(x) for x in t2.patterns] == [type(x) for x in t.patterns], "roundtrip patterns")
coherent(t2, "t2")
check(t2.patterns[-1].data[0][0].mod is t2.modules[3], "roundtrip note mod")
try:
    t2 += npat
    check(False, "old pattern accepted by reloaded project")
except PatternOwnershipError:
    pass
lp = read_sunvox_file("tests/files/issue54/test1.sunvox")
coherent(lp, "issue54")
before = len(lp.patterns)
lp += [m.Amplifier(), Pattern(), PatternClone(source=0), m.Amplifier()]
check(isinstance(lp.modules[2], m.Amplifier) and len(lp.modules) == 5, "issue54 += fills gap")
check(len(lp.patterns) == before + 2, "issue54 += patterns")
coherent(lp, "issue54 after +=")
coherent(roundtrip(lp), "issue54 roundtrip")

# --- randomised histories ------------------------------------------------
CLASSES = [m.Amplifier, m.Generator, m.Filter, m.Reverb, m.Delay]
rng = random.Random(2828)


def make_item(depth=0):
    k = rng.randrange(7 if depth < 3 else 5)
    if k == 0:
        return rng.choice(CLASSES)()
    if k == 1:
        return Pattern(tracks=rng.randrange(1, 4), lines=rng.randrange(1, 5))
    if k == 2:
        return PatternClone(source=0)
    if k == 3:
        return None
    if k == 4:
        return rng.choice([0, "s", (), 2.5])
    return [make_item(depth + 1) for _ in range(rng.randrange(0, 4))]


def flatten(item):
    if isinstance(item, list):
        for x in item:
            yield from flatten(x)
    else:
        yield item


for trial in range(80):
    pr = Project()
    pr += Pattern()
    for step in range(12):
        item = make_item()
        flat = list(flatten(item))
        exp_mods = [x for x in flat if isinstance(x, Module)]
        exp_pats = [x for x in flat if isinstance(x, (Pattern, PatternClone))]
        npat_before = len(pr.patterns)
        if rng.random() < 0.3:
            pr.attach_module(None)
        res = pr.__iadd__(item)
        label = f"trial {trial} step {step}"
        check(res is pr, f"{label}: result")
        check(pr.patterns[npat_before:] == exp_pats, f"{label}: patterns appended in order")
        check(all(pr.modules[x.index] is x for x in exp_mods), f"{label}: modules placed")
        coherent(pr, label)
        if rng.random() < 0.2:
            idx = pr.attach_pattern(None)
            check(idx == len(pr.patterns) - 1 and pr.patterns[idx] is None, f"{label}: None idx")
    if all(x is not None for x in pr.modules[-1:]):
        coherent(roundtrip(pr), f"trial {trial} roundtrip")

if FAILS:
    print("FAIL")
    for f in FAILS[:30]:
        print("  -", f)
    sys.exit(1)
print("PASS")
