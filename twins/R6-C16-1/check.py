"""Behaviour check for the Sampler envelope codec, the legacy point tables,
the note map bytes accessor and the fixed-width reader/writer helpers.

Everything is compared against expectations computed here with plain
``struct`` calls, so the script documents the on-disk layout independently of
how the library builds it.
"""
import logging
import random
import struct
import sys
from io import BytesIO

from rv.api import NOTE, Synth, m, read_sunvox_file
from rv.modules import sampler as sampler_mod
from rv.modules.module import Chunk

logging.disable(logging.CRITICAL)

Sampler = m.Sampler
rng = random.Random(0xC16)
checks = 0


def ok(cond, msg):
    global checks
    checks += 1
    if not cond:
        print("FAIL:", msg)
        sys.exit(1)


def raises(exc_type, fn, msg):
    try:
        fn()
    except exc_type as e:
        ok(type(e) is exc_type, "%s: exact type %r" % (msg, type(e)))
        return e
    except Exception as e:  # pragma: no cover
        ok(False, "%s: raised %r instead of %r" % (msg, e, exc_type))
    ok(False, "%s: did not raise" % msg)


def make_chunk(chnm, chdt, chff=0, chfr=44100):
    c = Chunk()
    c.chnm, c.chdt, c.chff, c.chfr = chnm, chdt, chff, chfr
    return c


ENVELOPE_FACTORIES = [
    ("vol", lambda: Sampler.VolumeEnvelope(), 0x102, 0),
    ("pan", lambda: Sampler.PanningEnvelope(), 0x103, -0x4000),
    ("pitch", lambda: Sampler.PitchEnvelope(), 0x104, -0x4000),
    ("fx0", lambda: Sampler.EffectControlEnvelope(0x105), 0x105, 0),
    ("fx3", lambda: Sampler.EffectControlEnvelope(0x108), 0x108, 0),
]


def random_points(n, min_y):
    xs = sorted(rng.randrange(0, 0x10000) for _ in range(n))
    return [(x, rng.randrange(0, 0x10000) + min_y) for x in xs]


def expected_chdt(env, min_y):
    data = struct.pack(
        "<HBBB", env.bitmask, env.ctl_index, env.gain_pct, env.velocity
    )
    data += b"\0\0\0"
    data += struct.pack(
        "<HHHH",
        len(env.points),
        env.sustain_point,
        env.loop_start_point,
        env.loop_end_point,
    )
    data += b"\0\0\0\0"
    for x, y in env.points:
        data += struct.pack("<HH", x, y - min_y)
    return data


def expected_point_bytes(points, min_y):
    shift = min_y // 0x200
    xs = [x for x, _ in points][:12]
    ys = [y // 0x200 for _, y in points][:12]
    xs += [0] * (12 - len(xs))
    ys += [0] * (12 - len(ys))
    out = b""
    for x, y in zip(xs, ys):
        out += struct.pack("<HH", x, y - shift)
    return out


def fill_random(env, n, min_y):
    env.points = random_points(n, min_y)
    env.enable = rng.random() < 0.5
    env.sustain = rng.random() < 0.5
    env.loop = rng.random() < 0.5
    env.ctl_index = rng.randrange(256)
    env.gain_pct = rng.randrange(256)
    env.velocity = rng.randrange(256)
    env.sustain_point = rng.randrange(0x10000)
    env.loop_start_point = rng.randrange(0x10000)
    env.loop_end_point = rng.randrange(0x10000)


def env_state(env):
    return (
        env.points,
        env.enable,
        env.sustain,
        env.loop,
        env.ctl_index,
        env.gain_pct,
        env.velocity,
        env.sustain_point,
        env.loop_start_point,
        env.loop_end_point,
    )


# ---------------------------------------------------------------- envelopes
def check_envelope_codec():
    for name, factory, chnm, min_y in ENVELOPE_FACTORIES:
        # defaults
        env = factory()
        chunks = list(env.chunks())
        ok(
            chunks == [(b"CHNM", struct.pack("<I", chnm)), (b"CHDT", expected_chdt(env, min_y))],
            "%s default chunks" % name,
        )
        ok(type(chunks[1][1]) is bytes, "%s CHDT is bytes" % name)
        for n in [0, 1, 2, 3, 4, 11, 12, 13, 16, 40, 300]:
            for _ in range(3):
                env = factory()
                fill_random(env, n, min_y)
                chunks = list(env.chunks())
                ok(len(chunks) == 2, "%s two chunks" % name)
                ok(chunks[0] == (b"CHNM", struct.pack("<I", chnm)), "%s CHNM" % name)
                ok(chunks[1][0] == b"CHDT", "%s CHDT tag" % name)
                chdt = chunks[1][1]
                ok(chdt == expected_chdt(env, min_y), "%s CHDT n=%d" % (name, n))
                ok(len(chdt) == 0x14 + 4 * n, "%s CHDT length" % name)
                ok(
                    env.point_bytes == expected_point_bytes(env.points, min_y),
                    "%s point_bytes n=%d" % (name, n),
                )
                ok(len(env.point_bytes) == 48, "%s point_bytes size" % name)
                ok(len(env._x_values) == 12 and len(env._y_values) == 12, "%s 12 slots" % name)
                ok(type(env._x_values) is list and type(env._y_values) is list, "%s list" % name)
                ok(env._x_values == ([x for x, _ in env.points] + [0] * 12)[:12], "%s xs" % name)
                ok(
                    env._y_values == ([y // 0x200 for _, y in env.points] + [0] * 12)[:12],
                    "%s ys" % name,
                )
                # decode
                other = factory()
                ok(other.loaded is False, "%s not loaded" % name)
                other.load_chdt(chdt)
                ok(other.loaded is True, "%s loaded" % name)
                ok(env_state(other) == env_state(env), "%s decode n=%d" % (name, n))
                ok(all(type(p) is tuple for p in other.points), "%s tuples" % name)
                ok(type(other.points) is list, "%s points list" % name)
                ok(
                    type(other.enable) is bool
                    and type(other.sustain) is bool
                    and type(other.loop) is bool,
                    "%s flag types" % name,
                )
                # trailing garbage after the declared points is ignored
                third = factory()
                third.load_chdt(chdt + b"\xff" * 7)
                ok(env_state(third) == env_state(env), "%s trailing bytes" % name)
                # pad bytes in the header are ignored on load
                noisy = bytearray(chdt)
                noisy[5:8] = b"\xaa\xbb\xcc"
                noisy[0x10:0x14] = b"\x11\x22\x33\x44"
                fourth = factory()
                fourth.load_chdt(bytes(noisy))
                ok(env_state(fourth) == env_state(env), "%s pad bytes" % name)


def check_envelope_errors():
    for name, factory, chnm, min_y in ENVELOPE_FACTORIES:
        # header too short: nothing is assigned
        for size in [0, 1, 15]:
            env = factory()
            before = env_state(env)
            raises(struct.error, lambda: env.load_chdt(b"\1" * size), "%s short header" % name)
            ok(env_state(env) == before and env.loaded is False, "%s untouched" % name)
        # truncated point list: complete points are kept, loaded stays False
        src = factory()
        fill_random(src, 6, min_y)
        chdt = list(src.chunks())[1][1]
        for cut in range(1, 4 * 6 + 5):
            env = factory()
            raises(struct.error, lambda: env.load_chdt(chdt[:-cut]), "%s truncated" % name)
            avail = len(chdt) - cut - 0x14
            keep = max(0, avail // 4)
            ok(env.points == src.points[:keep], "%s partial points cut=%d" % (name, cut))
            ok(env.loaded is False, "%s partial not loaded" % name)
            ok(env.ctl_index == src.ctl_index, "%s header applied" % name)
        # exactly the header, zero points declared
        env = factory()
        env.load_chdt(struct.pack("<HBBBBBBHHHH", 7, 1, 2, 3, 9, 9, 9, 0, 4, 5, 6))
        ok(env.points == [] and env.loaded, "%s 16 byte chunk" % name)
        ok((env.enable, env.sustain, env.loop) == (True, True, True), "%s flags 7" % name)
        ok((env.sustain_point, env.loop_start_point, env.loop_end_point) == (4, 5, 6), name)
        # out of range values on save
        env = factory()
        env.points = [(0, min_y - 1)]
        gen = env.chunks()
        next(gen)
        raises(struct.error, lambda: next(gen), "%s y below range" % name)
        env = factory()
        env.points = [(0, min_y + 0x10000)]
        raises(struct.error, lambda: list(env.chunks()), "%s y above range" % name)
        env = factory()
        env.points = [(0x10000, min_y)]
        raises(struct.error, lambda: list(env.chunks()), "%s x too wide" % name)
        env = factory()
        env.gain_pct = 256
        raises(struct.error, lambda: list(env.chunks()), "%s gain too wide" % name)
        env = factory()
        env.loop_end_point = -1
        raises(struct.error, lambda: list(env.chunks()), "%s negative loop end" % name)
        env = factory()
        env.points = [(1, min_y), (2,)]
        raises(ValueError, lambda: list(env.chunks()), "%s malformed point" % name)
        raises(ValueError, lambda: env.point_bytes, "%s malformed point (legacy)" % name)
        env = factory()
        env.points = [(0, min_y + 0x200 * 0x10000)]
        raises(struct.error, lambda: env.point_bytes, "%s legacy y too wide" % name)
        # the chnm chunk is produced before anything else is evaluated
        env = factory()
        env.points = None
        gen = env.chunks()
        ok(next(gen) == (b"CHNM", struct.pack("<I", chnm)), "%s lazy" % name)
        raises(TypeError, lambda: next(gen), "%s points None" % name)


# ----------------------------------------------------------------- note map
def check_note_map():
    nm = Sampler.NoteSampleMap()
    keys = list(nm.keys())
    ok(len(keys) == 119 and keys[0] is NOTE.C0 and keys[-1] is NOTE.a9, "119 keys")
    ok(nm.bytes == b"\0" * 119, "default map bytes")
    for size in [0, 1, 50, 96, 118, 119, 120, 128, 300]:
        nm = Sampler.NoteSampleMap()
        before = list(nm.values())
        value = bytes(rng.randrange(256) for _ in range(size))
        nm.bytes = value
        expect = list(value[:119]) + before[len(value[:119]) :]
        ok(list(nm.values()) == expect, "map set size=%d" % size)
        ok(list(nm.keys()) == keys, "map keys stable size=%d" % size)
        ok(nm.bytes == bytes(expect), "map get size=%d" % size)
        ok(all(type(v) is int for v in nm.values()), "map ints")
    nm = Sampler.NoteSampleMap()
    nm.bytes = [5, 6, 7]
    ok([nm[k] for k in keys[:4]] == [5, 6, 7, 0], "list source")
    nm.bytes = iter([9])
    ok([nm[k] for k in keys[:4]] == [9, 6, 7, 0], "iterator source")
    raises(TypeError, lambda: setattr(nm, "bytes", 5), "non iterable")
    nm[NOTE.C4] = 256
    raises(ValueError, lambda: nm.bytes, "value too wide")


# ------------------------------------------------------------ reader/writer
def check_struct_helpers():
    W, R = sampler_mod._StructWriter, sampler_mod._StructReader
    cases = [
        ("int8", "<b", [-128, -1, 0, 127], [-129, 128]),
        ("uint8", "<B", [0, 1, 255], [-1, 256]),
        ("int16", "<h", [-0x8000, -2, 0, 0x7FFF], [-0x8001, 0x8000]),
        ("uint16", "<H", [0, 0xFFFF], [-1, 0x10000]),
        ("int32", "<i", [-(2 ** 31), -5, 2 ** 31 - 1], [-(2 ** 31) - 1, 2 ** 31]),
        ("uint32", "<I", [0, 2 ** 32 - 1], [-1, 2 ** 32]),
    ]
    for meth, fmt, good, bad in cases:
        size = struct.calcsize(fmt)
        for v in good:
            f = BytesIO()
            ok(getattr(W(f), meth)(v) is None, "writer returns None")
            ok(f.getvalue() == struct.pack(fmt, v), "writer %s %d" % (meth, v))
            r = R(b"\xee" + f.getvalue() + b"\xdd")
            ok(r.bytes(1) == b"\xee", "reader bytes")
            ok(getattr(r, meth)() == v, "reader %s %d" % (meth, v))
            ok(r._index == 1 + size, "reader index")
            ok(r.uint8() == 0xDD, "reader continues")
        for v in bad:
            f = BytesIO()
            raises(struct.error, lambda: getattr(W(f), meth)(v), "writer %s range" % meth)
            ok(f.getvalue() == b"", "nothing written")
        f = BytesIO()
        raises(struct.error, lambda: getattr(W(f), meth)("x"), "writer %s type" % meth)
        # short reads
        for avail in range(size):
            r = R(b"\x01" * avail)
            e = raises(RuntimeError, lambda: getattr(r, meth)(), "reader %s short" % meth)
            ok(str(e) == "default not provided", "message")
            ok(r._index == 0, "index unchanged on failure")
            ok(getattr(r, meth)(77) == 77, "reader default")
            ok(getattr(r, meth)(0) == 0, "reader default zero")
            ok(r._index == 0, "index unchanged on default")
        r = R(b"\x01" * size)
        ok(getattr(r, meth)(99) == struct.unpack(fmt, b"\x01" * size)[0], "default unused")
    f = BytesIO()
    w = W(f)
    w.char(b"abc", 5)
    w.char(b"abcdefgh", 4)
    w.char(b"", 2)
    w.char(b"xy", 0)
    ok(f.getvalue() == b"abc\0\0abcd\0\0", "char")
    r = R(b"ab\0\0cd\0efgh")
    ok(r.char(4) == b"ab", "char strip")
    ok(r.char(3) == b"cd", "char strip 2")
    r.skip(1)
    ok(r.bytes(10) == b"fgh", "bytes past the end")
    ok(r._index == 18, "index runs past the end")
    ok(r.bytes(3) == b"" and r.char(3) == b"", "empty past end")
    ok(r.uint32(5) == 5, "default past the end")
    raises(RuntimeError, lambda: r.uint8(), "no default past the end")


# ------------------------------------------------------------ legacy tables
def instrument_record(s):
    chunks = list(s.global_config_chunks())
    ok(chunks[0] == (b"CHNM", b"\0\0\0\0"), "record chnm")
    ok(len(chunks[1][1]) == 0x190, "record length")
    return chunks[1][1]


def expected_legacy_points(table, active, min_y):
    vals = struct.unpack("<24H", table)
    return [(vals[2 * i], vals[2 * i + 1] * 0x200 + min_y) for i in range(active)]


def check_upgrade():
    for trial in range(40):
        src = Sampler()
        nv = rng.randrange(0, 13)
        npan = rng.randrange(0, 13)
        fill_random(src.volume_envelope, nv, 0)
        fill_random(src.panning_envelope, npan, -0x4000)
        for env in (src.volume_envelope, src.panning_envelope):
            env.sustain_point = rng.randrange(256)
            env.loop_start_point = rng.randrange(256)
            env.loop_end_point = rng.randrange(256)
        record = instrument_record(src)
        ok(record[0x84:0xB4] == expected_point_bytes(src.volume_envelope.points, 0), "vol table")
        ok(
            record[0xB4:0xE4] == expected_point_bytes(src.panning_envelope.points, -0x4000),
            "pan table",
        )
        ok(record[0xE4] == nv and record[0xE5] == npan, "active counts")
        dst = Sampler()
        dst.load_chunk(make_chunk(0, record))
        ok(dst.volume_envelope.loaded is False, "no envelope chunk yet")
        dst.finalize_load()
        for env, senv, min_y, table in (
            (dst.volume_envelope, src.volume_envelope, 0, record[0x84:0xB4]),
            (dst.panning_envelope, src.panning_envelope, -0x4000, record[0xB4:0xE4]),
        ):
            ok(env.points == expected_legacy_points(table, len(senv.points), min_y), "upgrade")
            ok(
                env.points == [(x, (y // 0x200) * 0x200) for x, y in senv.points],
                "quantised to 0x200 steps",
            )
            ok(type(env.points) is list and all(type(p) is tuple for p in env.points), "types")
            ok((env.enable, env.sustain, env.loop) == (senv.enable, senv.sustain, senv.loop), "f")
            ok(env.sustain_point == senv.sustain_point, "sustain point")
            ok(env.loop_start_point == senv.loop_start_point, "loop start")
            ok(env.loop_end_point == senv.loop_end_point, "loop end")
            ok(env.loaded is False, "upgrade does not mark as loaded")
        # pitch / effect envelopes keep their defaults
        ok(dst.pitch_envelope.points == [(0, 0), (0x40, 0)], "pitch default")
    # more active points than the table holds
    src = Sampler()
    record = bytearray(instrument_record(src))
    for vol_active, pan_active in [(13, 2), (2, 13), (255, 255), (12, 200)]:
        record[0xE4] = vol_active
        record[0xE5] = pan_active
        record[0xEC] = 6  # volume flags: sustain + loop
        dst = Sampler()
        dst.load_chunk(make_chunk(0, bytes(record)))
        before = (dst.volume_envelope.points, dst.panning_envelope.points)
        raises(struct.error, dst.finalize_load, "too many active points")
        ok((dst.volume_envelope.points, dst.panning_envelope.points) == before, "points kept")
        ok(dst.volume_envelope.enable is False and dst.volume_envelope.loop is True, "flags set")
    # nothing loaded at all
    fresh = Sampler()
    raises(TypeError, fresh.finalize_load, "upgrade without instrument record")
    # an envelope chunk suppresses the upgrade
    dst = Sampler()
    dst.load_chunk(make_chunk(0, bytes(record)))
    dst.load_chunk(make_chunk(0x102, list(Sampler.VolumeEnvelope().chunks())[1][1]))
    dst.finalize_load()
    ok(dst.volume_envelope.points == Sampler.VolumeEnvelope.initial_points, "no upgrade")


# -------------------------------------------------------------- round trips
def sampler_state(s):
    return (
        [
            None
            if x is None
            else (
                x.data, x.format, x.channels, x.rate, x.loop_start, x.loop_len,
                x.loop_type, x.loop_sustain, x.volume, x.finetune, x.panning,
                x.relative_note, x.name, x.start_pos, x.reserved2,
            )
            for x in s.samples
        ],
        [
            env_state(e)
            for e in [s.volume_envelope, s.panning_envelope, s.pitch_envelope]
            + s.effect_control_envelopes
        ],
        dict(s.note_samples),
        (s.vibrato_type, s.vibrato_attack, s.vibrato_depth, s.vibrato_rate, s.volume_fadeout),
        (s.editor_cursor, s.editor_selected_size, s.instrument_name, s.version, s.max_version),
    )


def build_sampler():
    s = Sampler()
    for slot in rng.sample(range(128), rng.randrange(0, 6)):
        smp = s.Sample()
        smp.format = rng.choice(list(s.Format))
        smp.channels = rng.choice(list(s.Channels))
        smp.data = bytes(rng.randrange(256) for _ in range(smp.frame_size * rng.randrange(0, 9)))
        smp.rate = rng.randrange(1, 200000)
        smp.loop_type = rng.choice(list(s.LoopType))
        smp.loop_sustain = rng.random() < 0.5
        smp.loop_start = rng.randrange(2 ** 32)
        smp.loop_len = rng.randrange(2 ** 32)
        smp.volume = rng.randrange(256)
        smp.finetune = rng.randrange(-128, 128)
        smp.panning = rng.randrange(-128, 128)
        smp.relative_note = rng.randrange(-128, 128)
        smp.name = bytes(rng.randrange(1, 256) for _ in range(rng.randrange(0, 23)))
        smp.start_pos = rng.randrange(2 ** 32)
        s.samples[slot] = smp
    envs = [
        (s.volume_envelope, 0),
        (s.panning_envelope, -0x4000),
        (s.pitch_envelope, -0x4000),
    ] + [(e, 0) for e in s.effect_control_envelopes]
    for env, min_y in envs:
        fill_random(env, rng.randrange(0, 30), min_y)
    for env in (s.volume_envelope, s.panning_envelope):
        # these three are mirrored into 8-bit fields of the instrument record
        env.sustain_point = rng.randrange(256)
        env.loop_start_point = rng.randrange(256)
        env.loop_end_point = rng.randrange(256)
    s.note_samples.bytes = bytes(rng.randrange(128) for _ in range(119))
    s.vibrato_type = rng.choice(list(s.VibratoType))
    s.vibrato_attack = rng.randrange(256)
    s.vibrato_depth = rng.randrange(256)
    s.vibrato_rate = rng.randrange(64)
    s.volume_fadeout = rng.randrange(8193)
    s.editor_cursor = rng.randrange(-(2 ** 31), 2 ** 31)
    s.editor_selected_size = rng.randrange(-(2 ** 31), 2 ** 31)
    return s


def check_round_trips():
    for _ in range(25):
        s = build_sampler()
        c = s.clone()
        ok(sampler_state(c) == sampler_state(s), "clone keeps everything")
        ok(c.is_legacy is False and c.legacy_chunks is None, "native layout")
        ok(all(e.loaded for e in [c.volume_envelope, c.pitch_envelope] + c.effect_control_envelopes), "envelopes loaded")
        ok(list(c.specialized_iff_chunks()) == list(s.specialized_iff_chunks()), "same chunks")
    fixture = read_sunvox_file("tests/files/sampler.sunsynth").module
    ok(fixture.volume_envelope.points == [(0, 32768), (33, 9728), (98, 14848), (133, 4096), (256, 0)], "fixture vol")
    ok(fixture.panning_envelope.points == [(0, 0), (36, -4096), (68, 4096), (115, 9728)], "fixture pan")
    c = fixture.clone()
    ok(sampler_state(c) == sampler_state(fixture), "fixture clone")
    # pre-envelope variant of the fixture: drop the envelope chunks and reload
    f = BytesIO()
    Synth(fixture).write_to(f)
    raw = f.getvalue()
    again = read_sunvox_file(BytesIO(raw)).module
    ok(sampler_state(again) == sampler_state(fixture), "fixture rewrite")
    legacy = Sampler()
    for tag_chunks in [fixture.global_config_chunks()]:
        pairs = list(tag_chunks)
        legacy.load_chunk(make_chunk(0, pairs[1][1]))
    legacy.finalize_load()
    ok(legacy.volume_envelope.points == [(0, 32768), (33, 9728), (98, 14848), (133, 4096), (256, 0)], "legacy vol")
    ok(legacy.panning_envelope.points == [(0, 0), (36, -4096), (68, 4096), (115, 9728)], "legacy pan")
    ok(dict(legacy.note_samples) == dict(fixture.note_samples), "legacy note map")


check_envelope_codec()
check_envelope_errors()
check_note_map()
check_struct_helpers()
check_upgrade()
check_round_trips()
print("PASS (%d checks)" % checks)
