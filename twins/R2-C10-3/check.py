"""Behaviour check for Module.get_raw / Module.set_raw.

Covers every controller of every module type (ranges sampled densely incl. all
endpoints, every unit of unit-dependent ranges, all enum members, both
booleans), None/enum unwrapping in get_raw, and set_raw's handling of stored
values that are outside the range: raising mode, warn-only mode, WarnOnlyRange,
and the exact message / exception chaining.
"""
import logging
import sys
from enum import Enum

import rv.errors
from rv.controller import (
    CompactRange,
    Controller,
    DependentRange,
    NoOffsetRange,
    Range,
    WarnOnlyRange,
)
from rv.errors import (
    ControllerValueError,
    RangeValidationError,
    override_raise_controller_value_errors,
)
from rv.modules import MODULE_CLASSES

failures = []


def check(cond, *msg):
    if not cond:
        failures.append(" ".join(str(m) for m in msg))
        if len(failures) > 20:
            report()


def report():
    if failures:
        print("FAIL")
        for f in failures:
            print("  ", f)
        sys.exit(1)
    print("PASS")
    sys.exit(0)


class Capture(logging.Handler):
    def __init__(self):
        super().__init__(level=logging.DEBUG)
        self.records = []

    def emit(self, record):
        self.records.append(record)


capture = Capture()
for logger_name in ("rv.modules.module", "rv.controller"):
    lg = logging.getLogger(logger_name)
    lg.addHandler(capture)
    lg.setLevel(logging.DEBUG)
    lg.propagate = False


def expected_raw(t, v):
    if type(t) is NoOffsetRange:
        return v
    return v - t.min if t.min < 0 else v


def sample(lo, hi):
    if hi - lo <= 1024:
        return range(lo, hi + 1)
    picks = {lo, lo + 1, lo + 2, hi - 2, hi - 1, hi, (lo + hi) // 2}
    picks.update(x for x in (-2, -1, 0, 1, 2) if lo <= x <= hi)
    picks.update(range(lo, hi + 1, max(1, (hi - lo) // 257)))
    return sorted(picks)


def put(mod, name, v):
    """Assign a controller value. MetaModule's proxies forward changes into a
    project, which a bare instance lacks, so store directly there."""
    if type(mod).__name__ == "MetaModule":
        mod.controller_values[mod.controllers[name].controller(mod).name] = v
    else:
        setattr(mod, name, v)


# --- 1. all controllers of all module types ------------------------------------
pairs = 0
kinds_seen = set()
for mtype, cls in sorted(MODULE_CLASSES.items()):
    probe = cls()
    for name, ctl in probe.controllers.items():
        vt = ctl.value_type
        if isinstance(vt, DependentRange):
            variants = list(vt.range_map.items())
        else:
            variants = [(None, vt)]
        for unit, r in variants:
            mod = cls(index=3)
            if unit is not None:
                setattr(mod, vt.ctl_name, unit)
            t = mod.controllers[name].controller(mod).instance_value_type(mod)
            if isinstance(vt, DependentRange):
                check(t is r, mtype, name, unit, "dependent selection")
            if isinstance(t, Range):
                kinds_seen.add(type(t))
                raws = set()
                for v in sample(t.min, t.max):
                    put(mod, name, v)
                    raw = mod.get_raw(name)
                    check(raw == expected_raw(t, v) and type(raw) is int,
                          mtype, name, unit, v, "get_raw", raw)
                    check(raw not in raws, mtype, name, unit, v, "collision")
                    raws.add(raw)
                    if type(t) is not NoOffsetRange:
                        check(raw >= 0, mtype, name, unit, v, "negative raw")
                    mod.controller_values[name] = "sentinel"
                    mod.set_raw(name, raw)
                    got = mod.controller_values[name]
                    check(got == v and type(got) is int, mtype, name, unit, v, "set_raw", got)
                    check(getattr(mod, name) == v, mtype, name, unit, v, "attribute")
                    pairs += 1
                # stored values just outside the range
                for bad in (t.min - 1, t.max + 1):
                    bad_raw = expected_raw(t, bad)
                    put(mod, name, t.min)
                    del capture.records[:]
                    if isinstance(t, WarnOnlyRange):
                        mod.set_raw(name, bad_raw)  # accepted with a warning
                        check(mod.controller_values[name] == bad, mtype, name, "warnonly kept")
                        check(len(capture.records) == 1
                              and capture.records[0].name == "rv.controller"
                              and capture.records[0].levelno == logging.WARNING,
                              mtype, name, "warnonly log", len(capture.records))
                        continue
                    try:
                        mod.set_raw(name, bad_raw)
                        check(False, mtype, name, unit, bad, "should raise")
                    except ControllerValueError as e:
                        want = "{:x}({}).{}={} is not within [{}, {}]".format(
                            3, mod.mtype, name, bad, t.min, t.max)
                        check(e.args == (want,), mtype, name, "message", e.args)
                        check(isinstance(e, ValueError), "is ValueError")
                        cause = e.__cause__
                        check(type(cause) is RangeValidationError
                              and cause.args == (bad, t.min, t.max), mtype, name, "cause")
                    check(mod.controller_values[name] == t.min, mtype, name, "unchanged on raise")
                    check(not capture.records, mtype, name, "no log when raising")
                    with override_raise_controller_value_errors(False):
                        mod.set_raw(name, bad_raw)
                    check(mod.controller_values[name] == bad, mtype, name, unit, "kept when warned")
                    check(len(capture.records) == 1, mtype, name, "one warning")
                    if capture.records:
                        rec = capture.records[0]
                        check(rec.name == "rv.modules.module", "logger name", rec.name)
                        check(rec.levelno == logging.WARNING, "level")
                        check(rec.getMessage() == want, "warn message", rec.getMessage())
                        check(rec.exc_info and rec.exc_info[1].args == (bad, t.min, t.max),
                              "exc_info")
            elif isinstance(t, type) and issubclass(t, Enum):
                kinds_seen.add(Enum)
                for member in t:
                    put(mod, name, member)
                    raw = mod.get_raw(name)
                    check(raw == member.value and type(raw) is int, mtype, name, member, raw)
                    mod.controller_values[name] = "sentinel"
                    mod.set_raw(name, raw)
                    check(mod.controller_values[name] is member, mtype, name, member, "back")
                    pairs += 1
                values = {m.value for m in t}
                check(len(values) == len(list(t)), mtype, name, "enum values collide")
                bogus = max(values) + 1
                put(mod, name, list(t)[0])
                try:
                    mod.set_raw(name, bogus)
                    check(False, mtype, name, "bogus enum raw should raise")
                except ControllerValueError:
                    check(False, mtype, name, "enum error must stay a plain ValueError")
                except ValueError:
                    pass
                check(mod.controller_values[name] is list(t)[0], mtype, name, "enum unchanged")
            elif t is bool:
                kinds_seen.add(bool)
                for b in (False, True):
                    put(mod, name, b)
                    raw = mod.get_raw(name)
                    check(raw == int(b) and type(raw) is int, mtype, name, b, raw)
                    mod.controller_values[name] = "sentinel"
                    mod.set_raw(name, raw)
                    check(mod.controller_values[name] is b, mtype, name, b, "back")
                    pairs += 1
                mod.set_raw(name, 7)
                check(mod.controller_values[name] is True, mtype, name, "truthy raw")
            else:
                check(False, "unexpected value type", mtype, name, t)
check(pairs > 40000, "too few pairs", pairs)
check({Range, WarnOnlyRange, CompactRange, NoOffsetRange, Enum, bool} <= kinds_seen,
      "kinds", kinds_seen)

# --- 2. get_raw unwrapping ---------------------------------------------------
amp = MODULE_CLASSES["Amplifier"]()
name = next(n for n, c in amp.controllers.items()
            if isinstance(c.value_type, Range) and c.value_type.min < 0)
t = amp.controllers[name].value_type
amp.controller_values[name] = None  # "no value" is stored like 0
check(amp.get_raw(name) == -t.min, "None -> 0 before offset", amp.get_raw(name))
pos = next(n for n, c in amp.controllers.items()
           if type(c.value_type) is Range and c.value_type.min >= 0)
amp.controller_values[pos] = None
check(amp.get_raw(pos) == 0 and type(amp.get_raw(pos)) is int, "None -> 0")


class Odd(Enum):
    nothing = None
    five = 5


amp.controller_values[pos] = Odd.five  # enum members are unwrapped for ranges too
check(amp.get_raw(pos) == 5, "enum in range")
amp.controller_values[pos] = Odd.nothing
check(amp.get_raw(pos) == 0, "enum carrying None -> 0")
amp.controller_values[name] = Odd.five
check(amp.get_raw(name) == 5 - t.min, "enum in negative range")
amp.controller_values[pos] = True  # non-shifted range hands the value through
check(amp.get_raw(pos) is True, "bool in unshifted range is passed through")
enum_mod, enum_name = next(
    (cls(), n) for _, cls in sorted(MODULE_CLASSES.items())
    for n, c in cls.controllers.items()
    if isinstance(c.value_type, type) and issubclass(c.value_type, Enum))
enum_mod.controller_values[enum_name] = None
check(enum_mod.get_raw(enum_name) == 0, "None enum -> 0")
enum_mod.controller_values[enum_name] = 2  # plain int where an enum is expected
check(enum_mod.get_raw(enum_name) == 2, "int for enum controller")
enum_mod.controller_values[enum_name] = True
check(enum_mod.get_raw(enum_name) == 1 and type(enum_mod.get_raw(enum_name)) is int,
      "int() applied for non-range types")
for bad_name in ("no_such_controller", "", "index"):
    for call in (lambda: amp.get_raw(bad_name), lambda: amp.set_raw(bad_name, 0)):
        try:
            call()
            check(False, "unknown controller should raise KeyError", bad_name)
        except KeyError as e:
            check(e.args == (bad_name,), "KeyError args", e.args)

# --- 3. set_raw details --------------------------------------------------------
mod = MODULE_CLASSES["Amplifier"]()  # index None -> printed as 0
check(mod.index is None, "index default")
mod.set_raw(name, 0)
check(getattr(mod, name) == t.min, "raw 0 is the minimum")
mod.set_raw(name, t.max - t.min)
check(getattr(mod, name) == t.max, "top raw is the maximum")
try:
    mod.set_raw(name, t.max - t.min + 5)
    check(False, "should raise")
except ControllerValueError as e:
    check(str(e) == "0(Amplifier).{}={} is not within [{}, {}]".format(
        name, t.max + 5, t.min, t.max), "message with no index", str(e))
check(getattr(mod, name) == t.max, "value untouched after failure")
mod255 = MODULE_CLASSES["Amplifier"](index=255)
try:
    mod255.set_raw(pos, -1)
    check(False, "should raise")
except ControllerValueError as e:
    check(str(e).startswith("ff(Amplifier).{}=-1 is not within [".format(pos)), "hex index", str(e))
# the global switch is consulted at call time
old = rv.errors.RAISE_CONTROLLER_VALUE_ERRORS
try:
    rv.errors.RAISE_CONTROLLER_VALUE_ERRORS = False
    del capture.records[:]
    mod255.set_raw(pos, -1)
    check(getattr(mod255, pos) == -1 and len(capture.records) == 1, "global switch off")
finally:
    rv.errors.RAISE_CONTROLLER_VALUE_ERRORS = old
# raw values are converted with int() for enum / bool controllers
enum_mod.set_raw(enum_name, 1.0)
check(enum_mod.controller_values[enum_name] is enum_mod.controllers[enum_name].value_type(1),
      "float raw for enum")
# vorbis finetune: signed storage; multisynth transpose: offset storage
vp = MODULE_CLASSES["Vorbis player"]()
vp.set_raw("finetune", -128)
check(vp.finetune == -128 and vp.get_raw("finetune") == -128, "vorbis signed")
try:
    vp.set_raw("finetune", 129)
    check(False, "vorbis out of range")
except ControllerValueError as e:
    check("finetune=129 is not within [-128, 128]" in str(e), "vorbis message", str(e))
ms = MODULE_CLASSES["MultiSynth"]()
ms.set_raw("transpose", 126)
check(ms.transpose == -2 and ms.get_raw("transpose") == 126, "multisynth transpose")
# a controller whose value type is None cannot be decoded (int() first, then call)
class_with_none = type(amp)
ctl = Controller(None, None)
ctl.name = "ghost"
try:
    saved = class_with_none.controllers
    class_with_none.controllers = dict(saved, ghost=ctl)
    g = class_with_none.__new__(class_with_none)
    g.controller_values = {"ghost": None}
    g.controllers_loaded = set()
    check(g.controllers["ghost"].instance_value_type(g) is None, "none type")
    try:
        g.set_raw("ghost", "x")
        check(False, "should raise")
    except ValueError:
        pass  # int("x") happens before the value type is called
    try:
        g.set_raw("ghost", 1)
        check(False, "should raise")
    except TypeError:
        pass
finally:
    class_with_none.controllers = saved

report()
