"""Behaviour check for C15 refactoring 1.

Focus: MetaModule.MappingArray (padding, encoding, update_user_defined_controllers)
and MetaModule.recompute_controller_attachment, plus full save/load round trips
(stand-alone and in-project, nested) so the positional coupling between the
count option, attach state, mappings, labels and stored values is covered.

Run:  cd <root> && PYTHONPATH=<root>/src/python /venv/bin/python check.py
"""
import hashlib
import io
import logging
import sys
from struct import pack

from rv.api import Project, Synth, m, read_sunvox_file
from rv.controller import CompactRange, Range
from rv.modules.metamodule import MAX_USER_DEFINED_CONTROLLERS, MetaModule, UserDefined

logging.disable(logging.CRITICAL)

FAILURES = []
OBSERVED = []


def check(cond, msg):
    if not cond:
        FAILURES.append(msg)


def observe(*items):
    OBSERVED.append(repr(items))


def mapping_pairs(mm):
    return [(x.module, x.controller) for x in mm.mappings.values]


def attach_state(mm):
    return [c.attached(mm) for c in mm.user_defined]


def plain(v):
    return getattr(v, "value", v) if not isinstance(v, (int, bool)) else v


def snapshot(mm, depth=0):
    """Everything the property talks about, recursively."""
    snap = {
        "count": mm.user_defined_controllers,
        "mappings": mapping_pairs(mm),
        "labels": [c.label for c in mm.user_defined],
        "attached": attach_state(mm),
        "values": [plain(mm.controller_values[c.name]) for c in mm.user_defined],
        "types": [repr(c.value_type) for c in mm.user_defined],
        "fixed": [plain(mm.controller_values[k]) for k in list(mm.controllers)[:5]],
        "aliases": list(mm.user_defined_aliases),
        "inner": [],
    }
    for mod in mm.project.modules:
        if mod is None:
            snap["inner"].append(None)
        elif isinstance(mod, MetaModule):
            snap["inner"].append(("MetaModule", mod.name, snapshot(mod, depth + 1)))
        else:
            snap["inner"].append(
                (
                    mod.mtype,
                    mod.name,
                    [plain(mod.controller_values[k]) for k in mod.controllers],
                    list(mod.in_links),
                )
            )
    return snap


def build_inner(tag=0):
    p = Project()
    p.name = f"inner{tag}"
    gen = p.new_module(m.Generator, volume=77 + tag, name="g")
    ana = p.new_module(m.AnalogGenerator, waveform="saw")
    ms = p.new_module(m.MultiSynth, transpose=-5)
    flt = p.new_module(m.Filter, name="flt")
    amp = p.new_module(m.Amplifier, dc_offset=-20, inverse=True)
    gen >> flt >> amp >> p.output
    ana >> p.output
    return p


# (module, controller) targets covering range / enum / negative range / boolean
TARGETS = [
    (1, 0),  # Generator.volume
    (2, 1),  # AnalogGenerator.waveform (enum)
    (3, 0),  # MultiSynth.transpose (CompactRange, negative min)
    (4, 3),  # Filter.type (enum)
    (5, 2),  # Amplifier.dc_offset (negative min)
    (5, 3),  # Amplifier.inverse (bool)
    (0, 0),  # unmapped
    (1, 200),  # controller index out of range
    (77, 0),  # module index out of range
    (5, 0),
]


def build_mm(count, tag=0, project=None, labels=None):
    mm = MetaModule(project=project or build_inner(tag), name=f"mm{tag}")
    mm.user_defined_controllers = count
    for i in range(MAX_USER_DEFINED_CONTROLLERS):
        if i < count + 2:
            mm.mappings.values[i] = MetaModule.Mapping(TARGETS[(i + tag) % len(TARGETS)])
    for i, label in (labels or {}).items():
        mm.user_defined[i].label = label
    return mm


def roundtrip_synth(mm):
    data = Synth(mm).read()
    loaded = read_sunvox_file(io.BytesIO(data))
    return data, loaded.module


# ---------------------------------------------------------------------------
# 1. recompute_controller_attachment over the whole count domain
# ---------------------------------------------------------------------------
def test_attachment():
    mm = MetaModule()
    check(attach_state(mm) == [False] * 96, "fresh metamodule has no attached user ctls")
    for count in list(range(0, 97)) + [50, 0, 96, 3]:
        mm.user_defined_controllers = count
        check(
            attach_state(mm) == [True] * count + [False] * (96 - count),
            f"attach state for count {count}",
        )
        names = [k for k, c in mm.controllers.items() if c.attached(mm)]
        check(len(names) == 5 + count, f"attached controller names for count {count}")
        check(
            names[5:] == [f"user_defined_{i + 1}" for i in range(count)],
            f"exactly the first {count} exposed",
        )
    # clamped by the option
    mm.user_defined_controllers = 1000
    check(mm.user_defined_controllers == 96 and all(attach_state(mm)), "clamp high")
    mm.user_defined_controllers = -4
    check(mm.user_defined_controllers == 0 and not any(attach_state(mm)), "clamp low")
    # values that bypass the clamp (options chunk stores a raw byte)
    for raw, expect_attached in [(200, 96), (255, 96), (96, 96), (97, 96), (7, 7)]:
        mm.option_values["user_defined_controllers"] = raw
        mm.recompute_controller_attachment()
        check(sum(attach_state(mm)) == expect_attached, f"raw count {raw}")
        check(attach_state(mm)[:expect_attached] == [True] * expect_attached, f"prefix {raw}")
    for raw in (-1, -3, -200):
        mm.option_values["user_defined_controllers"] = raw
        mm.recompute_controller_attachment()
        check(not any(attach_state(mm)), f"negative raw count {raw} detaches everything")
    mm.option_values["user_defined_controllers"] = True
    mm.recompute_controller_attachment()
    check(attach_state(mm) == [True] + [False] * 95, "bool count")
    for bad in (2.0, None, "3"):
        mm.user_defined_controllers = 5
        mm.option_values["user_defined_controllers"] = bad
        try:
            mm.recompute_controller_attachment()
        except TypeError:
            check(sum(attach_state(mm)) == 5, f"state untouched after TypeError for {bad!r}")
        else:
            check(False, f"non-int count {bad!r} must raise TypeError")
    # the hook only touches per-instance state
    a, b = MetaModule(), MetaModule()
    a.user_defined_controllers = 9
    check(sum(attach_state(a)) == 9 and sum(attach_state(b)) == 0, "per-instance attach")
    check(all(isinstance(c, UserDefined) for c in a.user_defined), "user_defined type")
    observe("attachment-ok")


# ---------------------------------------------------------------------------
# 2. MappingArray: defaults, padding, encoding
# ---------------------------------------------------------------------------
def test_mapping_array():
    arr = MetaModule.MappingArray()
    check(len(arr.values) == 96, "default length")
    check(all((x.module, x.controller) == (0, 0) for x in arr.values), "default zeros")
    check(len({id(x) for x in arr.values}) == 96, "default mappings are distinct objects")
    check(arr.bytes == b"\0" * 384, "default bytes")
    check(arr.encoded_values == [0] * 192, "encoded default")
    check(isinstance(arr.encoded_values, list), "encoded_values is a list")
    check(arr.python_type is MetaModule.Mapping, "python_type")

    # short payload -> padded with distinct (0, 0) mappings
    arr.bytes = pack("<HHHH", 3, 4, 5, 6)
    check(len(arr.values) == 96, "padded length")
    check(
        [(x.module, x.controller) for x in arr.values[:3]] == [(3, 4), (5, 6), (0, 0)],
        "padded content",
    )
    check(len({id(x) for x in arr.values}) == 96, "padding mappings are distinct objects")
    check(arr.encoded_values[:6] == [3, 4, 5, 6, 0, 0], "encoded after set")
    check(arr.bytes[:8] == pack("<HHHH", 3, 4, 5, 6) and len(arr.bytes) == 384, "bytes rt")

    # empty payload, ragged payload (trailing partial element ignored)
    arr.bytes = b""
    check(len(arr.values) == 96 and arr.bytes == b"\0" * 384, "empty payload")
    arr.bytes = pack("<HH", 9, 8) + b"\x01\x02"
    check((arr.values[0].module, arr.values[0].controller) == (9, 8), "ragged 0")
    check(len(arr.values) == 96, "ragged length")

    # exact and over-long payloads are kept as they are
    full = pack("<" + "H" * 192, *range(192))
    arr.bytes = full
    check(len(arr.values) == 96 and arr.bytes == full, "exact payload")
    check(arr.encoded_values == list(range(192)), "exact encoded")
    arr.bytes = pack("<" + "H" * 200, *range(200))
    check(len(arr.values) == 100, "over-long payload keeps 100 values")
    check(arr.encoded_values == list(range(200)), "over-long encoded")
    try:
        arr.bytes
    except Exception as e:  # struct.error: too many items for 192-slot format
        check(type(e).__name__ == "error", f"over-long bytes error type {type(e)}")
    else:
        check(False, "over-long bytes should fail to pack")
    arr.reset()
    check(len(arr.values) == 96 and arr.bytes == b"\0" * 384, "reset")
    chunks = list(arr.chunks())
    check(chunks == [(b"CHNM", pack("<I", 1)), (b"CHDT", b"\0" * 384)], "chunks()")
    observe("mapping-array-ok")


# ---------------------------------------------------------------------------
# 3. update_user_defined_controllers called directly
# ---------------------------------------------------------------------------
def test_update_direct():
    for count in (0, 1, 3, 6, 10, 12, 96):
        mm = build_mm(count)
        before_types = [repr(c.value_type) for c in mm.user_defined]
        check(set(before_types) == {"<Range 0..44100>"}, "types before update")
        mm.update_user_defined_controllers()
        proj = mm.project
        for i, ctl in enumerate(mm.user_defined):
            mod_i, ctl_i = TARGETS[i % len(TARGETS)] if i < count + 2 else (0, 0)
            resolvable = (
                i < count
                and mod_i != 0
                and mod_i < len(proj.modules)
                and ctl_i < len(proj.modules[mod_i].controllers)
            )
            if resolvable:
                mod = proj.modules[mod_i]
                target = list(mod.controllers.values())[ctl_i]
                check(
                    ctl.value_type == target.instance_value_type(mod)
                    or ctl.value_type is target.instance_value_type(mod),
                    f"count {count} ctl {i} type",
                )
                check(ctl.default == target.default, f"count {count} ctl {i} default")
                check(
                    mm.controller_values[ctl.name] == mod.controller_values[target.name],
                    f"count {count} ctl {i} value copied",
                )
            else:
                check(repr(ctl.value_type) == "<Range 0..44100>", f"count {count} ctl {i} untouched")
                check(ctl.default == 0, f"count {count} ctl {i} default untouched")
                check(mm.controller_values[ctl.name] == 0, f"count {count} ctl {i} value untouched")
        observe(count, [repr(c.value_type) for c in mm.user_defined[:12]],
                [plain(mm.controller_values[c.name]) for c in mm.user_defined[:12]])

    # empty slots in the embedded project, negative indices, over-long mapping arrays
    p = build_inner()
    p.modules[2] = None
    mm = MetaModule(project=p)
    mm.user_defined_controllers = 6
    mm.mappings.values[0] = MetaModule.Mapping((2, 0))  # hole -> skipped
    mm.mappings.values[1] = MetaModule.Mapping((-1, 0))  # last module, first controller
    mm.mappings.values[2] = MetaModule.Mapping((1, -1))  # last controller of Generator
    mm.mappings.values[3] = MetaModule.Mapping((len(p.modules), 0))  # one past the end
    mm.mappings.values[4] = MetaModule.Mapping((1, len(p.modules[1].controllers)))
    mm.mappings.values[5] = MetaModule.Mapping((len(p.modules) - 1, 2))
    mm.mappings.values[6] = MetaModule.Mapping((1, 0))  # beyond the count
    mm.update_user_defined_controllers()
    got = [repr(c.value_type) for c in mm.user_defined[:7]]
    amp = p.modules[-1]
    gen = p.modules[1]
    expect = [
        "<Range 0..44100>",
        repr(list(amp.controllers.values())[0].value_type),
        repr(list(gen.controllers.values())[-1].value_type),
        "<Range 0..44100>",
        "<Range 0..44100>",
        repr(list(amp.controllers.values())[2].value_type),
        "<Range 0..44100>",
    ]
    check(got == expect, f"edge mappings: {got} != {expect}")
    check(mm.controller_values["user_defined_6"] == -20, "dc_offset copied")
    observe(got)

    # count that bypasses the clamp / odd counts: the loop stops on equality only
    for raw, n_updated in [(200, 96), (-2, 96), (True, 1), (2.0, 2), (None, 96), (96, 96), (95, 95)]:
        mm = MetaModule(project=build_inner())
        for i in range(96):
            mm.mappings.values[i] = MetaModule.Mapping((1, 0))
        mm.option_values["user_defined_controllers"] = raw
        mm.update_user_defined_controllers()
        updated = sum(repr(c.value_type) == "<Range 0..256>" for c in mm.user_defined)
        check(updated == n_updated, f"raw count {raw!r}: {updated} updated, wanted {n_updated}")

    # mapping array longer than 96: extra entries ignored
    mm = MetaModule(project=build_inner())
    mm.option_values["user_defined_controllers"] = 255
    mm.mappings.bytes = pack("<" + "H" * 200, *([1, 0] * 100))
    mm.update_user_defined_controllers()
    check(all(repr(c.value_type) == "<Range 0..256>" for c in mm.user_defined), "long array")

    # KeyError from a target module lacking a stored value propagates
    mm = build_mm(2)
    del mm.project.modules[1].controller_values["volume"]
    try:
        mm.update_user_defined_controllers()
    except KeyError:
        check(repr(mm.user_defined[0].value_type) == "<Range 0..256>", "type set before KeyError")
        check(repr(mm.user_defined[1].value_type) == "<Range 0..44100>", "later ctl untouched")
    else:
        check(False, "missing embedded value must raise KeyError")

    # static method is reachable from the class and the instance
    mm = build_mm(1)
    MetaModule.MappingArray.update_user_defined_controllers(mm)
    check(repr(mm.user_defined[0].value_type) == "<Range 0..256>", "static call")
    check(mm.user_defined_1 == 77, "value visible through proxy")


# ---------------------------------------------------------------------------
# 4. Round trips: stand-alone, in-project, nested
# ---------------------------------------------------------------------------
LABELS = {0: "Vol", 1: "", 2: "Trans pose", 4: "9 lives", 5: "été", 7: "a\0b", 40: "forty", 95: "last"}


def expected_label(i, count, labels):
    if i >= count or i not in labels:
        return None
    raw = labels[i]
    return raw.split("\0")[0]


def test_roundtrips():
    digest_src = []
    for count in (0, 1, 2, 3, 6, 8, 11, 41, 95, 96):
        mm = build_mm(count, tag=count, labels=LABELS)
        data, loaded = roundtrip_synth(mm)
        digest_src.append(data)
        check(loaded.user_defined_controllers == count, f"synth count {count}")
        check(mapping_pairs(loaded) == mapping_pairs(mm), f"synth mappings {count}")
        check(
            [c.label for c in loaded.user_defined]
            == [expected_label(i, count, LABELS) for i in range(96)],
            f"synth labels {count}: {[c.label for c in loaded.user_defined][:8]}",
        )
        check(attach_state(loaded) == [True] * count + [False] * (96 - count), f"attach {count}")
        check(loaded.project.name == f"inner{count}", f"embedded project name {count}")
        check(
            [type(x).__name__ for x in loaded.project.modules]
            == [type(x).__name__ for x in mm.project.modules],
            f"embedded modules {count}",
        )
        check(loaded.project.modules[5].dc_offset == -20, "embedded negative value")
        check(loaded.project.modules[5].inverse is True, "embedded bool value")
        data2, loaded2 = roundtrip_synth(loaded)
        if count <= 7:  # label 7 holds an embedded NUL and is truncated on load
            check(data2 == data, f"synth second write identical for count {count}")
        else:
            check(len(data2) == len(data) - 2, f"only the NUL label shrinks for count {count}")
        check(roundtrip_synth(loaded2)[0] == data2, f"synth write is a fixpoint for {count}")
        check(snapshot(loaded2) == snapshot(loaded), f"synth snapshot stable {count}")
        observe(count, snapshot(loaded))

        # drive values through the user controllers, then round trip again
        for i in range(min(count, 10)):
            t = loaded.user_defined[i].value_type
            name = f"user_defined_{i + 1}"
            if repr(t) == "<Range 0..44100>":
                continue  # unresolved mapping: nothing to drive
            if isinstance(t, Range):
                setattr(loaded, name, t.max - 1 if t.min >= 0 else 0)
            elif isinstance(t, type) and t is not bool:
                setattr(loaded, name, list(t)[-1])
        data3, loaded3 = roundtrip_synth(loaded)
        digest_src.append(data3)
        for i in range(count):
            name = f"user_defined_{i + 1}"
            check(
                plain(getattr(loaded3, name)) == plain(getattr(loaded, name)),
                f"count {count} {name} stored value: {getattr(loaded3, name)!r} != {getattr(loaded, name)!r}",
            )
        observe(count, "driven", snapshot(loaded3))

    # in-project and nested three deep
    level3 = build_mm(2, tag=3, labels={0: "deep", 1: "deeper"})
    p2 = build_inner(20)
    p2.attach_module(level3)
    level3 >> p2.output
    level2 = build_mm(7, tag=1, project=p2, labels={0: "l2", 6: "l2-6", 9: "nope"})
    level2.mappings.values[3] = MetaModule.Mapping((6, 2))  # play_patterns of nested mm
    level2.mappings.values[4] = MetaModule.Mapping((6, 6))  # user_defined_2 of nested mm
    top = Project()
    top.name = "top"
    top.attach_module(level2)
    other = top.new_module(m.MetaModule)  # default, empty metamodule
    third = build_mm(96, tag=5, labels={i: f"L{i}" for i in range(96)})
    top.attach_module(third)
    level2 >> top.output
    data = top.read()
    digest_src.append(data)
    loaded_top = read_sunvox_file(io.BytesIO(data))
    check(loaded_top.read() == data, "project second write identical")
    l2 = loaded_top.modules[1]
    check(isinstance(l2, MetaModule) and l2.user_defined_controllers == 7, "l2 count")
    check([c.label for c in l2.user_defined[:10]] == ["l2", None, None, None, None, None, "l2-6", None, None, None], "l2 labels")
    check(mapping_pairs(l2) == mapping_pairs(level2), "l2 mappings")
    l3 = l2.project.modules[6]
    check(isinstance(l3, MetaModule) and l3.user_defined_controllers == 2, "l3 count")
    check([c.label for c in l3.user_defined[:3]] == ["deep", "deeper", None], "l3 labels")
    check(mapping_pairs(l3) == mapping_pairs(level3), "l3 mappings")
    check(l3.project.name == "inner3" and l3.project.modules[1].volume == 80, "l3 project")
    check(loaded_top.modules[2].user_defined_controllers == 0, "empty mm count")
    check(len(loaded_top.modules[2].project.modules) == 1, "empty mm project")
    l96 = loaded_top.modules[3]
    check([c.label for c in l96.user_defined] == [f"L{i}" for i in range(96)], "96 labels")
    check(all(attach_state(l96)), "96 attached")
    observe("nested", snapshot(l2), snapshot(loaded_top.modules[2]), snapshot(l96))
    # stand-alone extraction of the nested module
    d_in, again = roundtrip_synth(l2)
    digest_src.append(d_in)
    check(snapshot(again) == snapshot(l2), "nested stand-alone snapshot")

    # bundled fixtures
    for fn in ("metamodule", "metamodule-option-78", "metamodule-option-79", "metamodule-option-7a"):
        try:
            with open(f"tests/files/{fn}.sunsynth", "rb") as f:
                raw = f.read()
        except OSError:
            continue
        mod = read_sunvox_file(io.BytesIO(raw)).module
        observe(fn, snapshot(mod))
        d1, mod2 = roundtrip_synth(mod)
        digest_src.append(d1)
        check(snapshot(mod2) == snapshot(mod), f"fixture {fn} snapshot stable")
    return hashlib.sha256(b"".join(digest_src)).hexdigest()


EXPECTED_BYTES_DIGEST = "a55a8b13a31c5f6f19d8eca31ea27433f4d8c57e94fc7da5e30f18efb5bbccc9"
EXPECTED_OBS_DIGEST = "875d4fa4fac5d3de897705363c2c5cac2747881344cde4dc15fdaca2ce33cfc2"


def main():
    test_attachment()
    test_mapping_array()
    test_update_direct()
    bytes_digest = test_roundtrips()
    obs_digest = hashlib.sha256("\n".join(OBSERVED).encode()).hexdigest()
    if "--digests" in sys.argv:
        print(bytes_digest, obs_digest)
    check(bytes_digest == EXPECTED_BYTES_DIGEST, f"serialized bytes digest changed: {bytes_digest}")
    check(obs_digest == EXPECTED_OBS_DIGEST, f"observation digest changed: {obs_digest}")
    if FAILURES:
        print("FAIL")
        for f in FAILURES[:40]:
            print(" -", f)
        sys.exit(1)
    print("PASS")


if __name__ == "__main__":
    main()
