"""Behaviour check for rv.readers.module.ModuleReader, with the focus on the
SLNK / SLnK handlers (incoming links and their slots; trailing -1 stripped),
plus the neighbouring string and controller-value handlers.

Run from the repository root:
    PYTHONPATH=<root>/src/python python check.py
"""
import logging
import random
import struct
import sys
from io import BytesIO
from struct import pack

from rv import ENCODING
from rv.api import Project, m, read_sunvox_file
from rv.lib.iff import write_chunk
from rv.readers.module import ModuleReader
from rv.readers.reader import ReaderFinished

FAILURES = []


def check(cond, msg):
    if not cond:
        FAILURES.append(msg)


def ints(*values):
    return pack("<" + "i" * len(values), *values)


def ref_extend(existing, data):
    """Reference model of process_SLNK/process_SLnK on a list."""
    result = list(existing)
    if not data:
        return result
    count = len(data) // 4
    result.extend(struct.unpack("<" + "i" * count, data))
    while result[-1:] == [-1]:
        result.pop()
    return result


def fresh_reader(module=None):
    reader = ModuleReader(BytesIO(b""), 1)
    reader._object = module if module is not None else m.Amplifier()
    return reader


# --------------------------------------------------------------------------
# 1. direct calls of the two handlers
# --------------------------------------------------------------------------
DATA_CASES = [
    b"",
    ints(0),
    ints(-1),
    ints(-1, -1, -1),
    ints(1, 2, 3),
    ints(1, -1, 3),
    ints(1, -1, -1),
    ints(-1, 4),
    ints(-1, 4, -1, -1),
    ints(-2),
    ints(5, -2, -1),
    ints(0, 0, 0, 0),
    ints(2 ** 31 - 1, -(2 ** 31), -1),
]


def test_handlers_direct():
    for handler, attr, other in [
        ("process_SLNK", "in_links", "in_link_slots"),
        ("process_SLnK", "in_link_slots", "in_links"),
    ]:
        for data in DATA_CASES:
            reader = fresh_reader()
            target = getattr(reader.object, attr)
            ret = getattr(reader, handler)(data)
            check(ret is None, "%s returns None" % handler)
            check(getattr(reader.object, attr) is target, "%s mutates the list in place" % handler)
            check(target == ref_extend([], data), "%s(%r) -> %r" % (handler, data, target))
            check(getattr(reader.object, other) == [], "%s leaves %s alone" % (handler, other))
            check(reader.object.out_links == [] and reader.object.out_link_slots == [],
                  "%s leaves out tables alone" % handler)

        # a second chunk of the same kind extends the same list; stripping looks
        # at the whole list, and an empty chunk does nothing at all.
        for first in ([], [3], [3, -1], [-1, -1], [1, -1, 2]):
            for data in DATA_CASES:
                reader = fresh_reader()
                getattr(reader.object, attr)[:] = first
                getattr(reader, handler)(data)
                got = getattr(reader.object, attr)
                check(got == ref_extend(first, data),
                      "%s on %r + %r -> %r" % (handler, first, data, got))

        # data whose length is not a multiple of four is rejected
        for bad in (b"\x01", b"\x01\x00\x00", ints(1) + b"\x00", ints(1, 2) + b"\xff\xff"):
            reader = fresh_reader()
            getattr(reader.object, attr)[:] = [7, -1]
            try:
                getattr(reader, handler)(bad)
            except struct.error:
                check(getattr(reader.object, attr) == [7, -1], "list untouched after error")
            else:
                check(False, "%s accepted %r" % (handler, bad))

        # bytearray / memoryview inputs behave like bytes
        reader = fresh_reader()
        getattr(reader, handler)(bytearray(ints(4, -1, 6, -1)))
        check(getattr(reader.object, attr) == [4, -1, 6], "bytearray input")

    rng = random.Random(82)
    for _ in range(300):
        first = [rng.choice([-1, -1, 0, 1, 2, 9]) for _ in range(rng.randint(0, 4))]
        values = [rng.choice([-1, -1, 0, 1, 2, 9]) for _ in range(rng.randint(0, 6))]
        for handler, attr in [("process_SLNK", "in_links"), ("process_SLnK", "in_link_slots")]:
            reader = fresh_reader()
            getattr(reader.object, attr)[:] = first
            getattr(reader, handler)(ints(*values))
            check(getattr(reader.object, attr) == ref_extend(first, ints(*values)), "random handler case")


# --------------------------------------------------------------------------
# 2. string handlers and controller values
# --------------------------------------------------------------------------
def test_strings_and_cvals():
    for raw, expected in [
        (b"Amp\0\0\0", "Amp"),
        (b"Amp", "Amp"),
        (b"\0Amp", ""),
        (b"", ""),
        (b"a\0b\0", "a"),
        ("Ампл".encode(ENCODING) + b"\0", "Ампл"),
    ]:
        reader = fresh_reader()
        reader.process_SNAM(raw)
        check(reader.object.name == expected, "SNAM %r -> %r" % (raw, reader.object.name))
        reader.process_SMIN(raw)
        check(reader.object.midi_out_name == expected, "SMIN %r" % (raw,))

    for raw in (b"Amplifier\0", b"Amplifier", b"Amplifier\0junk"):
        reader = ModuleReader(BytesIO(b""), 3)
        from rv.modules import Module

        reader._object = Module()
        reader.process_SFFF(pack("<I", 0x49))
        reader.process_SNAM(b"my amp\0")
        reader.process_STYP(raw)
        obj = reader.object
        check(type(obj) is m.Amplifier, "STYP %r creates an Amplifier" % (raw,))
        check(obj.name == "my amp" and obj.mtype == "Amplifier", "STYP keeps the name")
        check(obj.flags == (0x49 | obj.default_flags), "STYP merges flags")
        check(reader._controller_keys == [n for n, c in obj.controllers.items() if c.attached(obj)],
              "controller keys")
        check(obj.in_links == [] and obj.in_link_slots == [], "fresh link tables after STYP")
    try:
        fresh_reader().process_STYP(b"NoSuchModule\0")
    except KeyError:
        pass
    else:
        check(False, "unknown module type accepted")

    reader = ModuleReader(BytesIO(b""), 3)
    from rv.modules import Module

    reader._object = Module()
    reader.process_SFFF(pack("<I", 0x49))
    reader.process_STYP(b"MetaModule\0")
    check(reader._controller_keys[-1] == "user_defined_96" or
          reader._controller_keys[-1].startswith("user_defined_"), "MetaModule user defined keys")

    # CVAL chunks are applied on SEND, extra ones are ignored with a warning
    reader = ModuleReader(BytesIO(b""), 3)
    reader._object = Module()
    reader.process_SFFF(pack("<I", 0x49))
    reader.process_STYP(b"Amplifier\0")
    n_ctl = len(reader._controller_keys)
    values = [100, 130, 120, 1, 64, 1, 30000, 2, 16000][:n_ctl] + [5, 6]
    check(n_ctl == 9, 'Amplifier has nine controllers')
    for v in values:
        reader.process_CVAL(pack("<i", v))
    check(reader._cvals == values, "CVAL collected")
    records = []
    handler = logging.Handler()
    handler.emit = lambda record: records.append(record)
    mod_log = logging.getLogger("rv.readers.module")
    mod_log.addHandler(handler)
    old_level = mod_log.level
    mod_log.setLevel(logging.WARNING)
    try:
        try:
            reader.process_SEND(b"")
        except ReaderFinished:
            pass
        else:
            check(False, "SEND must finish the reader")
    finally:
        mod_log.removeHandler(handler)
        mod_log.setLevel(old_level)
    warnings = [r for r in records if r.levelno == logging.WARNING]
    check(len(warnings) == 2, "two surplus CVAL warnings, got %d" % len(warnings))
    texts = [str(r.getMessage()) for r in warnings]
    check(texts == [
        "Unsupported controller at index %d with raw value 6" % (n_ctl + 1),
        "Unsupported controller at index %d with raw value 5" % n_ctl,
    ], "warning texts/order %r" % texts)
    amp = reader.object
    check(amp.get_raw("volume") == 100, "volume loaded")
    check(amp.controllers_loaded == set(reader._controller_keys), "controllers_loaded")


# --------------------------------------------------------------------------
# 3. whole files: SLnK present, absent, or present for only some modules
# --------------------------------------------------------------------------
def strip(values):
    values = list(values)
    while values[-1:] == [-1]:
        values.pop()
    return values


def tables(project):
    return [
        None if mod is None else (
            strip(mod.in_links), strip(mod.in_link_slots),
            strip(mod.out_links), strip(mod.out_link_slots),
        )
        for mod in project.modules
    ]


def write_file(chunks):
    f = BytesIO()
    for name, data in chunks:
        write_chunk(f, name, data)
    f.seek(0)
    return f


def rewrite_links(project, policy):
    """Serialise *project* choosing per module whether SLnK is written.

    policy(index) -> "keep" | "force" | "drop" | "pad"
    """
    out = []
    index = 0
    for name, data in project.chunks():
        if name is None:
            continue
        mod = project.modules[index] if index < len(project.modules) else None
        if name == b"SLNK":
            mode = policy(index)
            if mode == "pad":
                # trailing unused entries, as SunVox itself writes them
                out.append((name, data + ints(-1, -1)))
                out.append((b"SLnK", ints(*mod.in_link_slots) + ints(-1, -1)))
                continue
            out.append((name, data))
            if mode == "force" and mod.in_links:
                out.append((b"SLnK", ints(*mod.in_link_slots)))
            continue
        if name == b"SLnK":
            if policy(index) == "keep":
                out.append((name, data))
            continue
        out.append((name, data))
        if name == b"SEND":
            index += 1
    return write_file(out)


def build_graphs():
    graphs = []

    project = Project()
    mc = project.new_module(m.MultiCtl)
    amps = [project.new_module(m.Amplifier) for _ in range(4)]
    mc >> amps
    for amp in amps:
        amp >> project.output
    project.connect(mc, ~amps[2])
    graphs.append(("multictl fan-out with hole", project))

    project = Project()
    a, b, c = [project.new_module(m.Amplifier) for _ in range(3)]
    a >> b >> c >> a
    c >> c
    project.connect([a, b, c], project.output)
    graphs.append(("cycle", project))

    project = Project()
    mods = [project.new_module(m.Reverb) for _ in range(5)]
    project.connect(mods[:4], mods[4])
    project.connect(mods[4], mods[:4])
    project.connect(~mods[0], mods[4])
    project.connect(~mods[3], mods[4])
    project.connect(mods[4], ~mods[1])
    graphs.append(("fan-in/out with freed", project))

    rng = random.Random(5)
    for k in range(40):
        project = Project()
        mods = [project.output] + [project.new_module(m.Amplifier) for _ in range(rng.randint(2, 6))]
        for _ in range(rng.randint(0, 20)):
            src, dst = rng.choice(mods[1:]), rng.choice(mods)
            if rng.random() < 0.3:
                project.connect(~src, dst)
            else:
                project.connect(src, dst)
        graphs.append(("random %d" % k, project))
    return graphs


def test_files():
    for label, project in build_graphs():
        before = tables(project)
        # as written by the library, and with explicit slots everywhere
        for mode in ("keep", "force", "pad"):
            loaded = read_sunvox_file(rewrite_links(project, lambda i: mode))
            check(tables(loaded) == before, "%s: %s" % (label, mode))
            for lm, om in zip(loaded.modules, project.modules):
                check(lm.in_links == strip(om.in_links), "%s/%s in_links stripped" % (label, mode))
                check(lm.in_link_slots == strip(om.in_link_slots), "%s/%s in_link_slots stripped" % (label, mode))
        # "keep" must be what project.read() produces
        check(rewrite_links(project, lambda i: "keep").getvalue() == project.read(), label + ": keep == read()")
        # explicit slots for only some modules
        loaded = read_sunvox_file(rewrite_links(project, lambda i: "force" if i % 2 else "keep"))
        check(tables(loaded) == before, label + ": partial force")
        loaded = read_sunvox_file(rewrite_links(project, lambda i: "pad" if i % 2 == 0 else "keep"))
        check(tables(loaded) == before, label + ": partial pad")
        # second generation is identical
        again = read_sunvox_file(BytesIO(project.read()))
        check(again.read() == read_sunvox_file(BytesIO(again.read())).read(), label + ": stable")


def main():
    test_handlers_direct()
    test_strings_and_cvals()
    test_files()
    if FAILURES:
        for f in FAILURES[:30]:
            print("FAIL:", f)
        print("%d failure(s)" % len(FAILURES))
        sys.exit(1)
    print("PASS")


if __name__ == "__main__":
    main()
