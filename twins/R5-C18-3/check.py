"""C18 check (nested loads): MetaModule projects and Sampler effects are loaded
by re-entering read_sunvox_file; chunk dispatch in both modules is unchanged and
the strictness flag / file handles are restored whatever the nested load does.

Run from the repository root:
    PYTHONPATH=<root>/src/python python check.py
"""
import glob
import hashlib
import io
import logging
import os
import shutil
import struct
import sys
import tempfile
from pathlib import Path

import rv.api as rv
import rv.errors as E
import rv.readers.reader as R
from rv.synth import Synth

logging.disable(logging.CRITICAL)

ORIG_OPEN = Path.open
OPENED = []  # every file the library opened through Path.open
FAILS = []
# sha256 over the outcome (result class or exception type) of every load below
EXPECTED_DIGEST = "f380564c9d170910"


def expect(cond, msg):
    if not cond:
        FAILS.append(msg)


class Spy:
    """File proxy: records the flag at every read, optionally fails."""

    def __init__(self, f, fail_at=None, fail_close=False, exc=OSError):
        self._f = f
        self.reads = 0
        self.flags = []
        self.fail_at = fail_at
        self.fail_close = fail_close
        self.exc = exc
        self.close_calls = 0

    def read(self, *a):
        self.flags.append(E.RAISE_CONTROLLER_VALUE_ERRORS)
        if self.fail_at is not None and self.reads == self.fail_at:
            self.reads += 1
            raise self.exc("injected read fault")
        self.reads += 1
        return self._f.read(*a)

    def seek(self, *a):
        return self._f.seek(*a)

    def tell(self):
        return self._f.tell()

    def close(self):
        self.close_calls += 1
        self._f.close()
        if self.fail_close:
            raise OSError("injected close fault")

    @property
    def closed(self):
        return self._f.closed


class patched_open:
    """Wrap Path.open so the check sees the files the library opens."""

    def __init__(self, **spy_kw):
        self.spy_kw = spy_kw

    def __enter__(self):
        spy_kw = self.spy_kw
        flag_at_open = self.flag_at_open = []

        def _open(self_path, *a, **kw):
            flag_at_open.append(E.RAISE_CONTROLLER_VALUE_ERRORS)
            f = Spy(ORIG_OPEN(self_path, *a, **kw), **spy_kw)
            OPENED.append(f)
            return f

        Path.open = _open
        del OPENED[:]
        return self

    def __exit__(self, *exc):
        Path.open = ORIG_OPEN


def load(arg, initial):
    """Run a load with the flag preset; return (outcome, flag_after_is_same)."""
    E.RAISE_CONTROLLER_VALUE_ERRORS = initial
    try:
        obj = rv.read_sunvox_file(arg)
        outcome = type(obj).__name__
    except BaseException as e:  # noqa
        outcome = "!" + type(e).__name__
    same = E.RAISE_CONTROLLER_VALUE_ERRORS is initial
    E.RAISE_CONTROLLER_VALUE_ERRORS = True
    return outcome, same


def fixtures():
    files = sorted(
        glob.glob("tests/files/**/*.sunvox", recursive=True)
        + glob.glob("tests/files/**/*.sunsynth", recursive=True)
    )
    assert len(files) >= 40, "run from the repository root"
    return files


def chunk_boundaries(data):
    pos, out = 0, []
    while pos + 8 <= len(data):
        out.append(pos)
        out.append(pos + 8)
        (size,) = struct.unpack("<I", data[pos + 4 : pos + 8])
        pos += 8 + size
    out.append(len(data))
    return sorted(set(b for b in out if b <= len(data)))


def nested_document():
    inner = rv.Project()
    s = inner.new_module(rv.m.Sampler)
    s.effect = Synth(rv.m.Amplifier(volume=300))
    s >> inner.output
    outer = rv.Project()
    outer.new_module(rv.m.MetaModule, project=inner)
    f = io.BytesIO()
    outer.write_to(f)
    return f.getvalue()


from rv.modules.metamodule import MetaModule
from rv.modules.module import Chunk
from rv.modules.sampler import Sampler


def module_chunks(data):
    """Top-level CHNM/CHDT/CHFF/CHFR groups of a .sunsynth file, as Chunk objects."""
    out, cur, pos = [], None, 0
    while pos + 8 <= len(data):
        name = data[pos : pos + 4]
        (size,) = struct.unpack("<I", data[pos + 4 : pos + 8])
        payload = data[pos + 8 : pos + 8 + size]
        pos += 8 + size
        if name == b"CHNM":
            cur = Chunk()
            (cur.chnm,) = struct.unpack("<I", payload)
            out.append(cur)
        elif name == b"CHDT":
            cur.chdt = payload
        elif name == b"CHFF":
            (cur.chff,) = struct.unpack("<I", payload)
        elif name == b"CHFR":
            (cur.chfr,) = struct.unpack("<I", payload)
    return out


def mk(chnm, chdt, like=None):
    c = Chunk()
    c.chnm, c.chdt = chnm, chdt
    if like is not None:
        c.chff, c.chfr = like.chff, like.chfr
    return c


def feed(module, chunk, initial=True):
    """load_chunk under a preset flag -> outcome string; flag must be untouched."""
    E.RAISE_CONTROLLER_VALUE_ERRORS = initial
    try:
        r = module.load_chunk(chunk)
        outcome = "ok" if r is None else "ret:" + type(r).__name__
    except BaseException as e:  # noqa
        outcome = "!" + type(e).__name__
    expect(E.RAISE_CONTROLLER_VALUE_ERRORS is initial, f"flag after load_chunk {chunk.chnm!r}")
    E.RAISE_CONTROLLER_VALUE_ERRORS = True
    return outcome


def sampler_state(s):
    parts = []
    for env in [s.volume_envelope, s.panning_envelope, s.pitch_envelope] + list(
        s.effect_control_envelopes
    ):
        parts.append((env.loaded, list(env.chunks())))
    parts.append(getattr(s, "_unknown_0x101", "unset"))
    parts.append(
        [
            None if x is None else (x.data, x.rate, x.format, x.channels, x.loop_start)
            for x in s.samples
        ]
    )
    parts.append(s.instrument_name)
    parts.append(s.is_legacy)
    parts.append(None if s.legacy_chunks is None else [(c.chnm, c.chdt) for c in s.legacy_chunks])
    parts.append({k: getattr(s, k) for k in sorted(s.options)})
    eff = s.effect
    if eff is not None:
        f = io.BytesIO()
        eff.write_to(f)
        eff = f.getvalue()
    parts.append(eff)
    return repr(parts)


def meta_state(m):
    f = io.BytesIO()
    if m.project is not None:
        m.project.write_to(f)
    labels = [c.label for c in m.user_defined]
    return repr(
        (f.getvalue(), bytes(m.mappings.bytes), labels, {k: getattr(m, k) for k in sorted(m.options)})
    )


def written(obj):
    f = io.BytesIO()
    obj.write_to(f)
    return f.getvalue()


def main():
    digest = hashlib.sha256()
    files = fixtures()
    initials = (True, False)
    tmpdir = tempfile.mkdtemp(prefix="c18chk")

    # -- 1. Sampler.load_chunk dispatch ---------------------------------------------
    sdata = Path("tests/files/sampler.sunsynth").read_bytes()
    schunks = module_chunks(sdata)
    by = {c.chnm: c for c in schunks}
    expect(0x10A in by and 0 in by and 0x101 in by and 0x102 in by, "1 fixture chunks")
    # replay in file order and in two other orders (a sample's header stays before its data)
    orders = [
        schunks,
        sorted(schunks, key=lambda c: (c.chnm < 0x101, c.chnm)),
        sorted(schunks, key=lambda c: (c.chnm < 0x101, -c.chnm if c.chnm > 0x100 else c.chnm)),
    ]
    for order in orders:
        for initial in initials:
            s = Sampler()
            outs = [feed(s, c, initial) for c in order]
            expect(set(outs) == {"ok"}, f"1 replay {outs}")
            expect(s.effect is not None and type(s.effect).__name__ == "Synth", "1 effect loaded")
            s.finalize_load()
            digest.update(sampler_state(s).encode())
            digest.update(written(Synth(s)))
    # every chunk number around the interesting ranges, with each kind of payload
    payloads = {
        "env": by[0x102].chdt,
        "effect": by[0x10A].chdt,
        "options": by[0x101].chdt,
        "instrument": by[0].chdt,
        "meta": by[1].chdt if 1 in by else b"",
        "empty": b"",
        "junk": b"\x01\x02\x03",
        "truncated-effect": by[0x10A].chdt[: len(by[0x10A].chdt) // 2],
        "bad-effect": by[0x10A].chdt.replace(b"SSYN", b"SSYX"),
    }
    numbers = list(range(0, 12)) + [0xFE, 0xFF, 0x100] + list(range(0x101, 0x110)) + [0x200, 0xFFFFFFFF]
    for chnm in numbers:
        for pname in sorted(payloads):
            for initial in initials:
                s = Sampler()
                outcome = feed(s, mk(chnm, payloads[pname], by.get(2)), initial)
                digest.update(f"{chnm:#x}/{pname}/{outcome};".encode())
                try:
                    digest.update(sampler_state(s).encode())
                except Exception as e:
                    digest.update(type(e).__name__.encode())
    # chunk without a number: fails the same way, flag untouched
    s = Sampler()
    digest.update(feed(s, Chunk()).encode())
    # once the instrument signature was seen, chunks are no longer kept as legacy
    s = Sampler()
    feed(s, by[0])
    expect(s.is_legacy is False and s.legacy_chunks is None, "1 legacy switch")
    feed(s, by[0x102])
    expect(s.volume_envelope.loaded, "1 envelope after instrument")
    # effect control envelopes land in the right slot
    for i in range(4):
        s = Sampler()
        feed(s, mk(0x105 + i, by[0x105 + i].chdt))
        loaded = [e.loaded for e in s.effect_control_envelopes]
        expect(loaded == [j == i for j in range(4)], f"1 effect control slot {i} {loaded}")
        expect(not (s.volume_envelope.loaded or s.panning_envelope.loaded or s.pitch_envelope.loaded), "1 slot leak")
    for chnm, attr in ((0x102, "volume_envelope"), (0x103, "panning_envelope"), (0x104, "pitch_envelope")):
        s = Sampler()
        feed(s, mk(chnm, by[chnm].chdt))
        got = [a for a in ("volume_envelope", "panning_envelope", "pitch_envelope") if getattr(s, a).loaded]
        expect(got == [attr], f"1 envelope {chnm:#x} -> {got}")
        # envelopes are looked up on the instance at load time
        s = Sampler()
        replacement = type(getattr(s, attr))()
        setattr(s, attr, replacement)
        feed(s, mk(chnm, by[chnm].chdt))
        expect(replacement.loaded, f"1 replaced envelope {attr}")

    # -- 2. MetaModule.load_chunk dispatch -------------------------------------------
    mdata = Path("tests/files/metamodule.sunsynth").read_bytes()
    mchunks = module_chunks(mdata)
    mby = {c.chnm: c for c in mchunks}
    expect(0 in mby and 1 in mby and 2 in mby, "2 fixture chunks")
    for order in (mchunks, list(reversed(mchunks))):
        for initial in initials:
            m = MetaModule()
            outs = [feed(m, c, initial) for c in order]
            expect(set(outs) == {"ok"}, f"2 replay {outs}")
            expect(type(m.project).__name__ == "Project", "2 project loaded")
            digest.update(meta_state(m).encode())
    mpay = {
        "project": mby[0].chdt,
        "mappings": mby[1].chdt,
        "options": mby[2].chdt,
        "label": b"Cutoff\0junk",
        "label-no-nul": b"Resonance",
        "empty": b"",
        "truncated-project": mby[0].chdt[: len(mby[0].chdt) * 2 // 3],
        "bad-project": mby[0].chdt.replace(b"Analog generator", b"Analog generatoX"),
        "synth-not-project": Path("tests/files/amplifier.sunsynth").read_bytes(),
    }
    for chnm in list(range(0, 12)) + [8 + 95, 8 + 96, 0x100, 0xFFFFFFFF]:
        for pname in sorted(mpay):
            for initial in initials:
                m = MetaModule()
                outcome = feed(m, mk(chnm, mpay[pname]), initial)
                digest.update(f"{chnm:#x}/{pname}/{outcome};".encode())
                try:
                    digest.update(meta_state(m).encode())
                except Exception as e:
                    digest.update(type(e).__name__.encode())
    m = MetaModule()
    digest.update(feed(m, Chunk()).encode())
    m = MetaModule()
    feed(m, mk(1, mby[1].chdt))
    first = bytes(m.mappings.bytes)
    feed(m, mk(1, mby[1].chdt[:16]))
    digest.update(first + b"|" + bytes(m.mappings.bytes))

    # -- 3. whole files with nested content -------------------------------------------
    for name in files:
        for initial in initials:
            with patched_open() as po:
                outcome, same = load(name, initial)
            expect(same and not outcome.startswith("!"), f"3 load {name} {outcome}")
            expect(len(OPENED) == 1 and OPENED[0].closed, f"3 leak {name}")
            expect(set(OPENED[0].flags) == {False} and po.flag_at_open == [False], f"3 lenient {name}")
        obj = rv.read_sunvox_file(name)
        digest.update(hashlib.sha256(written(obj)).digest())
    data = nested_document()
    expect(written(rv.read_sunvox_file(io.BytesIO(data))) == data, "3 nested round trip")
    broken_type = data.replace(b"Amplifier", b"Amplifiex")
    j = data.find(b"CVAL", data.find(b"Amplifier"))
    out_of_range = data[: j + 8] + struct.pack("<i", 99999) + data[j + 12 :]
    p = os.path.join(tmpdir, "n.sunvox")
    for initial in initials:
        for blob, want in ((data, "Project"), (broken_type, "!KeyError"), (out_of_range, "Project")):
            with open(p, "wb") as out:
                out.write(blob)
            with patched_open():
                outcome, same = load(p, initial)
            expect(outcome == want and same, f"3 nested {outcome} {want} {initial}")
            expect(len(OPENED) == 1 and OPENED[0].closed, f"3 nested leak {want}")
            outcome, same = load(io.BytesIO(blob), initial)
            expect(outcome == want and same, f"3 nested BytesIO {want} {initial}")
        saved = R.RAISE_RANGE_ERRORS_ON_READ
        try:
            R.RAISE_RANGE_ERRORS_ON_READ = True
            with open(p, "wb") as out:
                out.write(out_of_range)
            with patched_open():
                outcome, same = load(p, initial)
            expect(outcome == "!ControllerValueError" and same, f"3 strict nested {outcome}")
            expect(OPENED[0].closed, "3 strict nested leak")
        finally:
            R.RAISE_RANGE_ERRORS_ON_READ = saved
    proj = rv.read_sunvox_file(io.BytesIO(out_of_range))
    expect(proj.modules[1].project.modules[1].effect.module.volume == 99999, "3 lenient nested value")
    # truncation and read faults that hit while the nested loads are in progress
    with open(p, "wb") as out:
        out.write(data)
    with patched_open():
        load(p, True)
    nreads = OPENED[0].reads
    for initial in initials:
        for k in range(nreads):
            with patched_open(fail_at=k):
                outcome, same = load(p, initial)
            expect(outcome == "!OSError" and same, f"3 read fault {k} {outcome}")
            expect(OPENED[0].closed, f"3 read fault leak {k}")
    for cut in sorted(set(chunk_boundaries(data)) | set(range(0, len(data), 53))):
        res = []
        for initial in initials:
            outcome, same = load(io.BytesIO(data[:cut]), initial)
            expect(same, f"3 truncation flag {cut} {initial}")
            res.append(outcome)
        expect(res[0] == res[1], f"3 truncation outcome depends on flag {cut}")
        digest.update(f"{cut}:{res[0]};".encode())
    # corrupt one byte at a time inside the embedded effect: whatever happens, flag is restored
    start = data.find(b"SSYN")
    for off in range(start, min(start + 400, len(data)), 3):
        blob = data[:off] + bytes([data[off] ^ 0xFF]) + data[off + 1 :]
        res = []
        for initial in initials:
            outcome, same = load(io.BytesIO(blob), initial)
            expect(same, f"3 corruption flag {off} {initial}")
            res.append(outcome)
        expect(res[0] == res[1], f"3 corruption outcome depends on flag {off}")
        digest.update(f"{off}:{res[0]};".encode())
        amp = rv.m.Amplifier()
        try:
            amp.volume = 99999
            expect(False, f"3 lenient mode leaked after corruption at {off}")
        except E.ControllerValueError:
            pass

    # -- 4. Module.clone goes through the same loader --------------------------------
    for name in ("tests/files/sampler.sunsynth", "tests/files/metamodule.sunsynth", "tests/files/amplifier.sunsynth", "tests/files/fmx.sunsynth"):
        mod = rv.read_sunvox_file(name).module
        for initial in initials:
            E.RAISE_CONTROLLER_VALUE_ERRORS = initial
            twin = mod.clone()
            expect(E.RAISE_CONTROLLER_VALUE_ERRORS is initial, f"4 clone flag {name}")
            E.RAISE_CONTROLLER_VALUE_ERRORS = True
            expect(twin is not mod and type(twin) is type(mod), f"4 clone type {name}")
            expect(written(Synth(twin)) == written(Synth(mod)), f"4 clone bytes {name}")
    digest.update(hashlib.sha256((Sampler.__doc__ or "").encode()).digest())
    digest.update(hashlib.sha256((MetaModule.__doc__ or "").encode()).digest())
    digest.update(repr(sorted(Sampler.controllers)).encode() + repr(sorted(Sampler.options)).encode())
    digest.update(repr(sorted(MetaModule.options)).encode())

    shutil.rmtree(tmpdir, ignore_errors=True)
    expect(E.RAISE_CONTROLLER_VALUE_ERRORS is True, "final flag")
    expect(
        digest.hexdigest()[:16] == EXPECTED_DIGEST,
        "outcome digest changed: " + digest.hexdigest()[:16],
    )
    if FAILS:
        print("FAIL (%d)" % len(FAILS))
        for m in FAILS[:25]:
            print("  ", m)
        sys.exit(1)
    print("outcome digest", digest.hexdigest()[:16])
    print("PASS")


if __name__ == "__main__":
    main()
