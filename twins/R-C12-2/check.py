"""Behaviour check for Pattern.raw_data (row-major cell image) and Pattern.clear()."""
import struct
import sys
from io import BytesIO

import rv.api  # noqa: F401  (import order: avoids the rv.note <-> rv.modules cycle)
from rv.note import NOTECMD, Note
from rv.pattern import Pattern
from rv.project import Project
from rv.readers.reader import read_sunvox_file

failures = []


def check(cond, msg):
    if not cond:
        failures.append(msg)


def image(n_cells, seed):
    out = bytearray()
    x = seed
    for _ in range(n_cells * 8):
        x = (x * 1103515245 + 12345) & 0x7FFFFFFF
        out.append((x >> 16) & 0xFF)
    return bytes(out)


shapes = [(t, l) for t in (1, 2, 3, 4, 5, 7, 16, 32) for l in (1, 2, 3, 5, 8, 33)]
for tracks, lines in shapes:
    p = Pattern(tracks=tracks, lines=lines)
    # fresh pattern: all-zero image of the right size, cells owned by the pattern
    check(p.raw_data == b"\0" * (tracks * lines * 8), "empty image %r" % ((tracks, lines),))
    check(len(p.data) == lines and all(len(r) == tracks for r in p.data), "shape")
    check(all(n.pattern is p for r in p.data for n in r), "ownership")
    check(len({id(n) for r in p.data for n in r}) == tracks * lines, "distinct cells")
    check(len({id(r) for r in p.data}) == lines, "distinct rows")

    img = image(tracks * lines, tracks * 100 + lines)
    cells_before = [[n for n in r] for r in p.data]
    p.raw_data = img
    check(p.raw_data == img, "identity %r" % ((tracks, lines),))
    # setter updates the existing Note objects in place
    check(
        all(a is b for ra, rb in zip(cells_before, p.data) for a, b in zip(ra, rb)),
        "in place",
    )
    # cell (line, track) holds bytes at (line*tracks+track)*8
    for line in range(lines):
        for track in range(tracks):
            off = (line * tracks + track) * 8
            n = p.data[line][track]
            check(n.raw_data == img[off : off + 8], "cell slice")
            check(
                (n.note, n.vel, n.module, n.ctl, n.val)
                == struct.unpack("<BBHHH", img[off : off + 8]),
                "cell fields",
            )
    # editing one cell changes exactly its 8 bytes
    line, track = lines - 1, tracks // 2
    p.data[line][track] = Note(note=NOTECMD.C5, vel=129, module=0xFFFF, ctl=0x1234, val=0xFEDC)
    exp = bytearray(img)
    off = (line * tracks + track) * 8
    exp[off : off + 8] = struct.pack("<BBHHH", int(NOTECMD.C5), 129, 0xFFFF, 0x1234, 0xFEDC)
    check(p.raw_data == bytes(exp), "single cell edit")
    # extra trailing bytes are ignored
    q = Pattern(tracks=tracks, lines=lines)
    q.raw_data = img + b"\xAA" * 11
    check(q.raw_data == img, "trailing ignored")
    # bytearray / memoryview sources
    q = Pattern(tracks=tracks, lines=lines)
    q.raw_data = bytearray(img)
    check(q.raw_data == img, "bytearray source")
    # clear() resets to empty and makes new cells
    old_rows = p.data
    p.clear()
    check(p.data is not old_rows and p.raw_data == b"\0" * len(img), "clear")
    check(all(n.pattern is p and n == Note(pattern=p) for r in p.data for n in r), "clear cells")

# short image: cells before the truncation point are written, then struct.error
p = Pattern(tracks=3, lines=4)
img = image(12, 9)
try:
    p.raw_data = img[: 5 * 8 + 3]
    check(False, "short accepted")
except struct.error:
    pass
flat = [n for r in p.data for n in r]
check(all(flat[i].raw_data == img[i * 8 : i * 8 + 8] for i in range(5)), "prefix written")
check(all(flat[i].raw_data == b"\0" * 8 for i in range(5, 12)), "suffix untouched")

# data shape smaller than lines/tracks -> IndexError at the first missing cell
p = Pattern(tracks=2, lines=2)
p.data
p.lines = 3
try:
    p.raw_data = image(6, 1)
    check(False, "missing row accepted")
except IndexError:
    pass
check(p.raw_data == image(6, 1)[:32], "rows before the missing one written")
p = Pattern(tracks=2, lines=2)
p.data
p.tracks = 3
img = image(6, 2)
try:
    p.raw_data = img
    check(False, "missing column accepted")
except IndexError:
    pass
check(p.data[0][0].raw_data == img[0:8] and p.data[0][1].raw_data == img[8:16], "row 0")
check(p.data[1][0].raw_data == b"\0" * 8, "row 1 untouched")
# getter follows the data actually held, not lines/tracks
p = Pattern(tracks=2, lines=2)
p.data.append([Note(vel=5)])
check(p.raw_data == b"\0" * 32 + struct.pack("<BBHHH", 0, 5, 0, 0, 0), "getter follows data")
# lines == 0 after construction: nothing touched, no error
p = Pattern(tracks=2, lines=2)
p.data
p.lines = 0
p.raw_data = b""
check(p.raw_data == b"\0" * 32, "lines 0 noop")
p.clear()
check(p.data == [] and p.raw_data == b"", "clear with 0 lines")
p = Pattern(tracks=2, lines=2)
p.tracks = 0
check(p.data == [[], []] and p.raw_data == b"", "0 tracks")
p.raw_data = b""

# whole-project round trip: pattern images survive write + read
proj = Project()
imgs = {}
for tracks, lines in [(1, 1), (4, 32), (7, 3), (32, 2)]:
    pat = Pattern(tracks=tracks, lines=lines)
    img = image(tracks * lines, tracks + lines)
    pat.raw_data = img
    proj.attach_pattern(pat)
    imgs[len(proj.patterns) - 1] = (tracks, lines, img)
buf = BytesIO()
proj.write_to(buf)
first = buf.getvalue()
buf.seek(0)
proj2 = read_sunvox_file(buf)
for idx, (tracks, lines, img) in imgs.items():
    pat = proj2.patterns[idx]
    check((pat.tracks, pat.lines) == (tracks, lines), "loaded shape")
    check(pat.raw_data == img, "loaded image")
    chunks = dict(pat.iff_chunks())
    check(chunks[b"PDTA"] == img, "PDTA chunk")
buf2 = BytesIO()
proj2.write_to(buf2)
check(buf2.getvalue() == first, "file byte-identical after reload")

if failures:
    print("FAIL", len(failures), failures[:10])
    sys.exit(1)
print("PASS")
