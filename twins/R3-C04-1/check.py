import enum
import functools
import hashlib
import io
import logging
import os
import struct
import sys
import types

logging.disable(logging.CRITICAL)

from rv.api import read_sunvox_file  # noqa: E402

FILES = os.path.join(os.getcwd(), "tests", "files")
# back references, and a process-wide creation counter on controllers
PLAIN_CALLABLES = (
    type,
    types.FunctionType,
    types.MethodType,
    types.BuiltinFunctionType,
    functools.partial,
)
SKIP_ATTRS = {"parent", "project", "pattern", "_order"}


# ---- independent chunk codec (does not use rv.lib.iff) -------------------
def parse(blob):
    out, pos = [], 0
    while pos + 8 <= len(blob):
        name = blob[pos : pos + 4]
        (size,) = struct.unpack("<I", blob[pos + 4 : pos + 8])
        out.append((name, blob[pos + 8 : pos + 8 + size]))
        pos += 8 + size
    assert pos == len(blob), "fixture is not a clean chunk stream"
    return out


def encode(chunk_list):
    return b"".join(
        name + struct.pack("<I", len(data)) + data for name, data in chunk_list
    )


def u32(v):
    return struct.pack("<I", v)


def i32(v):
    return struct.pack("<i", v)


def load(chunk_list_or_bytes):
    blob = chunk_list_or_bytes
    if not isinstance(blob, (bytes, bytearray)):
        blob = encode(blob)
    return read_sunvox_file(io.BytesIO(bytes(blob)))


# ---- deterministic deep snapshot of public state --------------------------
def snap(obj, stack=()):
    if obj is None or isinstance(obj, (bool, str)):
        return obj
    if isinstance(obj, enum.Enum):
        return ("E", type(obj).__name__, snap(obj.value))
    if isinstance(obj, (int, float)):
        return obj
    if isinstance(obj, (bytes, bytearray, memoryview)):
        b = bytes(obj)
        return ("B", len(b), hashlib.sha1(b).hexdigest())
    if hasattr(obj, "tobytes") and hasattr(obj, "dtype"):
        return ("A", str(obj.dtype), tuple(obj.shape), hashlib.sha1(obj.tobytes()).hexdigest())
    if id(obj) in stack:
        return "<cycle>"
    stack = stack + (id(obj),)
    if isinstance(obj, (list, tuple)):
        return [type(obj).__name__] + [snap(x, stack) for x in obj]
    if isinstance(obj, (set, frozenset)):
        return ["set"] + sorted((snap(x, stack) for x in obj), key=repr)
    if isinstance(obj, dict):
        return ["dict"] + sorted(
            ((snap(k, stack), snap(v, stack)) for k, v in obj.items()), key=repr
        )
    if isinstance(obj, PLAIN_CALLABLES):
        return ("callable", getattr(obj, "__qualname__", type(obj).__name__))
    names = set()
    if hasattr(obj, "__dict__"):
        names.update(vars(obj))
    for klass in type(obj).__mro__:
        slots = getattr(klass, "__slots__", ())
        if isinstance(slots, str):
            slots = (slots,)
        names.update(s for s in slots if s not in ("__weakref__", "__dict__"))
    fields = []
    for name in sorted(names):
        if name in SKIP_ATTRS:
            continue
        try:
            value = getattr(obj, name)
        except AttributeError:
            continue
        fields.append((name, snap(value, stack)))
    return ("O", type(obj).__name__, fields)


def digest(value):
    return hashlib.sha256(repr(value).encode("utf-8")).hexdigest()


def outcome(chunk_list_or_bytes):
    """Snapshot of the loaded object, or the exception type name."""
    try:
        return snap(load(chunk_list_or_bytes))
    except Exception as exc:  # noqa: BLE001
        return ("EXC", type(exc).__name__)


def fixture_paths(suffixes=(".sunvox", ".sunsynth")):
    found = []
    for root, _dirs, names in os.walk(FILES):
        for name in names:
            if name.endswith(suffixes):
                found.append(os.path.join(root, name))
    return sorted(found)


CHECKS = []


def check(label, cond):
    CHECKS.append((label, bool(cond)))
    if not cond:
        print("FAIL:", label)


def finish(expected_digest, observed):
    got = digest(observed)
    if expected_digest is None:
        print("DIGEST", got)
    else:
        check("golden digest of all observed outcomes", got == expected_digest)
        if got != expected_digest:
            print("  got", got)
    bad = [label for label, ok in CHECKS if not ok]
    if bad:
        print("FAILED %d of %d checks" % (len(bad), len(CHECKS)))
        sys.exit(1)
    print("PASS (%d checks)" % len(CHECKS))


# ===========================================================================
# C04-1: SunVoxReader end-of-file fix-ups, nested pattern/module sections,
# version decoding.
# ===========================================================================
def cstr(text, width=None):
    raw = text.encode("utf-8") + b"\0"
    if width:
        raw = raw.ljust(width, b"\0")
    return raw


def header(vers=(2, 1, 2, 1), bver=(2, 1, 2, 1), extra=()):
    out = [(b"SVOX", b"")]
    if vers is not None:
        out.append((b"VERS", bytes(reversed(vers))))
    if bver is not None:
        out.append((b"BVER", bytes(reversed(bver))))
    out += [(b"BPM ", u32(125)), (b"SPED", u32(6)), (b"NAME", cstr("synthetic"))]
    out += list(extra)
    return out


def module(mtype, name, links=None, slots=None, cvals=(), flags=0x49):
    out = [(b"SFFF", u32(flags)), (b"SNAM", cstr(name, 32))]
    if mtype is not None:
        out.append((b"STYP", cstr(mtype)))
    out += [(b"SXXX", i32(100)), (b"SYYY", i32(-20))]
    if links is not None:
        out.append((b"SLNK", b"".join(i32(v) for v in links)))
    if slots is not None:
        out.append((b"SLnK", b"".join(i32(v) for v in slots)))
    out += [(b"CVAL", i32(v)) for v in cvals]
    out.append((b"SEND", b""))
    return out


EMPTY = [(b"SEND", b"")]


def note_bytes(note, vel, mod, ctl, val):
    return struct.pack("<BBHHH", note, vel, mod, ctl, val)


def pattern(tracks, lines, notes, name=None):
    out = [(b"PDTA", b"".join(notes))]
    if name:
        out.append((b"PNME", cstr(name)))
    out += [
        (b"PCHN", u32(tracks)),
        (b"PLIN", u32(lines)),
        (b"PYSZ", u32(32)),
        (b"PFLG", u32(0)),
        (b"PICO", bytes(range(32))),
        (b"PFGC", b"\x01\x02\x03"),
        (b"PBGC", b"\xf0\xf1\xf2"),
        (b"PFFF", u32(0)),
        (b"PXXX", i32(-8)),
        (b"PYYY", i32(64)),
        (b"PEND", b""),
    ]
    return out


def clone(source, x, y):
    return [
        (b"PPAR", u32(source)),
        (b"PFFF", u32(1)),
        (b"PXXX", i32(x)),
        (b"PYYY", i32(y)),
        (b"PEND", b""),
    ]


def links_of(project):
    return [
        None
        if m is None
        else (m.index, list(m.in_links), list(m.in_link_slots), list(m.out_links), list(m.out_link_slots))
        for m in project.modules
    ]


observed = []


def record(label, chunk_list):
    result = outcome(chunk_list)
    observed.append((label, result))
    return result


# ---- 1. every fixture, plus structure-preserving edits --------------------
for path in fixture_paths():
    rel = os.path.relpath(path, FILES).replace(os.sep, "/")
    blob = open(path, "rb").read()
    chunk_list = parse(blob)
    check("codec round trip " + rel, encode(chunk_list) == blob)
    base = record("fixture " + rel, blob)
    check("fixture loads " + rel, base[0] == "O")
    if not rel.endswith(".sunvox"):
        continue
    # Trailing empty module slots are dropped again.
    for extra in (1, 3):
        got = outcome(chunk_list + EMPTY * extra)
        check("trailing empty modules dropped x%d %s" % (extra, rel), got == base)
    # Without SLnK chunks the slots are derived from the link lists.
    stripped = [c for c in chunk_list if c[0] != b"SLnK"]
    record("no SLnK " + rel, stripped)
    # Unknown chunk in the header / between sections / at the very end.
    positions = sorted(
        {1, len(chunk_list)}
        | {i for i, c in enumerate(chunk_list) if c[0] in (b"PDTA", b"PPAR", b"SFFF")}
        | {i + 1 for i, c in enumerate(chunk_list) if c[0] in (b"PEND", b"SEND")}
    )
    for pos in positions:
        edited = chunk_list[:pos] + [(b"XyZ9", b"\x01\x02\x03")] + chunk_list[pos:]
        if outcome(edited) != base:
            check("unknown chunk at %d in %s" % (pos, rel), False)
            break
    else:
        check("unknown chunk at %d positions in %s" % (len(positions), rel), True)
    # No BVER -> documented legacy default, nothing else changes.
    no_bver = [c for c in chunk_list if c[0] != b"BVER"]
    project = load(no_bver)
    check("BVER default " + rel, project.based_on_version == (1, 7, 0, 0))
    record("no BVER " + rel, no_bver)

# ---- 2. version decoding ----------------------------------------------------
for vers in [(1, 9, 4, 255), (1, 9, 5, 0), (2, 0, 0, 0), (0, 0, 0, 1), (255, 254, 253, 252)]:
    project = load(header(vers=vers, bver=tuple(reversed(vers))) + module(None, "Output"))
    check("VERS %r" % (vers,), project.loaded_sunvox_version == vers)
    check("VERS is tuple %r" % (vers,), type(project.loaded_sunvox_version) is tuple)
    check("BVER %r" % (vers,), project.based_on_version == tuple(reversed(vers)))
    check("BVER is tuple %r" % (vers,), type(project.based_on_version) is tuple)
project = load(header(bver=None) + module(None, "Output"))
check("missing BVER -> 1.7.0.0", project.based_on_version == (1, 7, 0, 0))
record("no VERS", header(vers=None) + module(None, "Output"))

# ---- 3. module positions, empties, derived link slots -------------------
mods = (
    module(None, "Output", links=[1, 3])
    + module("Amplifier", "a1", links=[])
    + EMPTY
    + module("Amplifier", "a3", links=[1])
    + EMPTY
    + EMPTY
)
project = load(header() + mods)
check("trailing empties trimmed, inner kept", len(project.modules) == 4)
check("inner empty slot preserved", project.modules[2] is None)
check(
    "indices follow file position",
    [m.index for m in project.modules if m] == [0, 1, 3],
)
check(
    "derived slots (no SLnK)",
    links_of(project)
    == [
        (0, [1, 3], [1, 0], [], []),
        (1, [], [], [3, 0], [0, 0]),
        None,
        (3, [1], [0], [0], [1]),
    ],
)
check("output is module 0", project.output is project.modules[0])
record("empties+links", header() + mods)

# only empties / no modules at all
check("only empties -> no modules", list(load(header() + EMPTY * 4).modules) == [])
check("no modules", list(load(header()).modules) == [])
check(
    "leading empties kept",
    [m if m is None else m.index for m in load(header() + EMPTY * 2 + module("Amplifier", "x")).modules]
    == [None, None, 2],
)

# explicit SLnK with gaps -> out link lists padded with -1
mods = (
    module(None, "Output", links=[1, 2], slots=[2, 0])
    + module("Amplifier", "a1", links=[2], slots=[3])
    + module("Amplifier", "a2", links=[])
)
project = load(header() + mods)
check(
    "explicit slots pad with -1",
    links_of(project)
    == [
        (0, [1, 2], [2, 0], [], []),
        (1, [2], [3], [-1, -1, 0], [-1, -1, 0]),
        (2, [], [], [0, -1, -1, 1], [1, -1, -1, 0]),
    ],
)
record("explicit slots", header() + mods)

# -1 entries inside the link list; trailing -1 trimmed by the module reader
mods = (
    module(None, "Output", links=[2, -1, 1, -1, -1])
    + module("Amplifier", "a1", links=[-1, 2])
    + module("Amplifier", "a2", links=[])
)
project = load(header() + mods)
observed.append(("minus-one links", links_of(project)))
check("-1 link keeps -1 slot", project.modules[0].in_link_slots == [1, -1, 0])
check("-1 link first", project.modules[1].in_link_slots[:1] == [-1])
record("minus-one links full", header() + mods)

# self link and duplicate links
mods = module(None, "Output", links=[1, 1]) + module("Amplifier", "a1", links=[1])
project = load(header() + mods)
observed.append(("self link", links_of(project)))
check("self link", project.modules[1].out_links.count(1) == 1)
record("self link full", header() + mods)

# partially present SLnK: only modules without slots get derived ones
mods = (
    module(None, "Output", links=[1, 2], slots=[0, 0])
    + module("Amplifier", "a1", links=[2])
    + module("Amplifier", "a2", links=[])
)
record("mixed SLnK", header() + mods)
observed.append(("mixed SLnK links", links_of(load(header() + mods))))

# error paths keep their exception types
bad = {
    "link to missing module, no slots": module(None, "Output", links=[5]),
    "link to missing module, slots": module(None, "Output", links=[5], slots=[0]),
    "link to empty module, no slots": module(None, "Output", links=[1]) + EMPTY + module("Amplifier", "x"),
    "link to empty module, slots": module(None, "Output", links=[1], slots=[0]) + EMPTY + module("Amplifier", "x"),
    "fewer slots than links": module(None, "Output", links=[1, 1], slots=[0]) + module("Amplifier", "x"),
    "negative link": module(None, "Output", links=[-2, 1]) + module("Amplifier", "x") + module("Amplifier", "y"),
    "negative slot": module(None, "Output", links=[1, 1], slots=[-2, 5]) + module("Amplifier", "x"),
}
for label, mods in sorted(bad.items()):
    result = record(label, header() + mods)
    observed.append((label + " kind", result[0] if result[0] == "EXC" else "ok"))
check(
    "missing module w/ slots -> IndexError",
    outcome(header() + bad["link to missing module, slots"]) == ("EXC", "IndexError"),
)
check(
    "empty module w/ slots -> RuntimeError",
    outcome(header() + bad["link to empty module, slots"]) == ("EXC", "RuntimeError"),
)

# ---- 4. patterns: nested sections, empties, clones, legacy high byte -------
notes = [
    note_bytes(49, 48, 0x0102, 0x0300, 0x4567),
    note_bytes(0, 0, 0xFFFF, 0, 0),
    note_bytes(1, 129, 0x00FF, 7, 8),
    note_bytes(120, 1, 0x0100, 0xFFFF, 0xFFFF),
]
for vers, masked in [
    ((1, 9, 4, 255), True),
    ((1, 9, 5, 0), False),
    ((1, 7, 0, 0), True),
    ((0, 255, 255, 255), True),
    ((2, 1, 2, 1), False),
]:
    body = (
        header(vers=vers)
        + pattern(2, 2, notes, name="first")
        + [(b"PEND", b"")]
        + clone(0, 16, -32)
        + pattern(1, 4, notes)
        + [(b"PEND", b"")]
        + module(None, "Output")
    )
    project = load(body)
    kinds = [type(p).__name__ for p in project.patterns]
    check("pattern order %r" % (vers,), kinds == ["Pattern", "NoneType", "PatternClone", "Pattern", "NoneType"])
    want = [0x02, 0xFF, 0xFF, 0x00] if masked else [0x0102, 0xFFFF, 0x00FF, 0x0100]
    got0 = [n.module for line in project.patterns[0].data for n in line]
    got3 = [n.module for line in project.patterns[3].data for n in line]
    check("note module bytes pat0 %r" % (vers,), got0 == want)
    check("note module bytes pat3 %r" % (vers,), got3 == want)
    check("other note fields untouched %r" % (vers,), project.patterns[0].data[0][0].val == 0x4567)
    check("pattern name", project.patterns[0].name == "first" and project.patterns[3].name is None)
    check("clone fields", (project.patterns[2].source, project.patterns[2].x, project.patterns[2].y) == (0, 16, -32))
    check("pattern owner", project.patterns[0].project is project)
    record("patterns %r" % (vers,), body)
    # unknown chunk inside the nested pattern / clone sections
    for pos in range(len(body) + 1):
        edited = body[:pos] + [(b"zzzz", b"")] + body[pos:]
        if pos == 0:
            continue  # before the SVOX magic: not a valid stream
        if outcome(edited) != observed[-1][1]:
            check("unknown chunk in pattern stream at %d %r" % (pos, vers), False)
            break
    else:
        check("unknown chunk anywhere in pattern stream %r" % (vers,), True)

for _label, _res in observed:
    if isinstance(_res, tuple) and _res[:1] == ("EXC",):
        print("note: %-44s -> %s" % (_label, _res[1]))
finish("cd684e458a7594213cc5f81f17752750563e5179454b691d1ccd8aa7e6918880", observed)
