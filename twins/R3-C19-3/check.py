"""Behaviour check for Pattern.set_via_fn / Pattern.set_via_gen:
all-or-nothing installation, ownership of the installed notes, call order
and error propagation.

Passes on the unchanged tree and with the refactoring applied.
"""
import sys

from rv.api import NOTE, NOTECMD, Note, Pattern, Project

CHECKS = 0


def ok(cond, msg):
    global CHECKS
    CHECKS += 1
    if not cond:
        print("FAIL:", msg)
        sys.exit(1)


class Boom(Exception):
    pass


def shapes():
    for lines in (1, 2, 3):
        for tracks in (1, 2, 3):
            yield lines, tracks


def make(lines, tracks, attached):
    p = Pattern(lines=lines, tracks=tracks)
    project = None
    if attached:
        project = Project()
        project.attach_pattern(p)
    # give it distinctive initial content
    for line in range(lines):
        for track in range(tracks):
            n = p.data[line][track]
            n.note = NOTE.C3
            n.vel = 1 + line
            n.val = 0x100 + track
    return p, project


def fingerprint(p):
    return (id(p._data), [id(r) for r in p._data],
            [[(id(n), n.raw_data, id(n.pattern)) for n in r] for r in p._data])


def owned(p):
    return all(n.pattern is p for r in p.data for n in r)


def mk(line, track, salt=0):
    return Note(note=NOTE.C5, vel=2 + line, module=track + 1, ctl=salt, val=line * 16 + track)


def check_fn_success():
    for lines, tracks in shapes():
        for attached in (False, True):
            p, project = make(lines, tracks, attached)
            old_grid = p.data
            old_notes = [n for r in old_grid for n in r]
            old_raw = p.raw_data
            calls = []
            made = {}

            def fn(pattern, line, track):
                ok(pattern is p, "fn receives the pattern")
                # original content stays visible while the edit is in progress
                ok(pattern.data is old_grid and pattern.raw_data == old_raw,
                   "old data visible during fn edit")
                calls.append((line, track))
                made[line, track] = mk(line, track)
                return made[line, track]

            ret = p.set_via_fn(fn)
            ok(ret is p, "set_via_fn returns the pattern")
            ok(calls == [(l, t) for l in range(lines) for t in range(tracks)],
               "fn called once per cell in line-major order")
            ok(p.data is not old_grid, "new grid installed")
            ok(len(p.data) == lines and all(len(r) == tracks for r in p.data), "shape")
            for (line, track), note in made.items():
                ok(p.data[line][track] is note, "exact supplied note installed")
            ok(owned(p), "notes owned after fn edit")
            if attached:
                ok(all(n.project is project for r in p.data for n in r), "project")
                ok(all(n.mod is None or True for r in p.data for n in r), "mod ok")
            # the previous grid and notes are left alone
            ok([n for r in old_grid for n in r] == old_notes, "old grid intact")
            ok(all(a is b for a, b in zip([n for r in old_grid for n in r], old_notes)),
               "old grid identity")
            ok(b"".join(n.raw_data for n in old_notes) == old_raw, "old notes intact")
            ok(all(n.pattern is p for n in old_notes), "old notes keep their owner")


def check_gen_success():
    for lines, tracks in shapes():
        for attached in (False, True):
            p, project = make(lines, tracks, attached)
            old_grid = p.data
            old_raw = p.raw_data
            cells = [(l, t) for l in range(lines) for t in range(tracks)]
            for chosen in ([], cells[:1], cells[-1:], cells[::2], cells, cells[::-1]):
                before_raw = p.raw_data
                before_grid = p.data
                seen = {}

                def gen(pattern, new):
                    ok(pattern is p, "gen receives the pattern")
                    ok(new is not pattern.data, "scratch grid is a copy")
                    ok(b"".join(n.raw_data for r in new for n in r) == before_raw,
                       "scratch grid starts as a copy of the content")
                    ok(all(n is not o for r, q in zip(new, pattern.data)
                           for n, o in zip(r, q)), "scratch notes are copies")
                    for k, (line, track) in enumerate(chosen):
                        note = mk(line, track, salt=k + 1)
                        seen[line, track] = note
                        yield line, track, note
                        ok(new[line][track] is note, "scratch shows intermediate state")
                        ok(pattern.data is before_grid, "pattern not yet changed")

                ret = p.set_via_gen(gen)
                ok(ret is p, "set_via_gen returns the pattern")
                ok(p.data is not before_grid, "new grid installed by gen")
                for line, track in cells:
                    i = (line * tracks + track) * 8
                    if (line, track) in seen:
                        ok(p.data[line][track] is seen[line, track], "supplied note")
                    else:
                        ok(p.data[line][track].raw_data == before_raw[i:i + 8],
                           "untouched cell keeps its content")
                        ok(p.data[line][track] is not before_grid[line][track],
                           "untouched cell is a copy")
                ok(owned(p), "notes owned after gen edit")
                if attached:
                    ok(all(n.project is project for r in p.data for n in r), "project")
                    ok(p.project is project, "pattern still attached")
                    ok(project.patterns == [p], "project patterns untouched")
            ok(b"".join(n.raw_data for r in old_grid for n in r) == old_raw,
               "first grid never modified")


def check_gen_variants():
    p, _ = make(2, 2, True)
    # a plain list is accepted, later entries win, the same note may repeat
    a, b = Note(note=NOTE.C1), Note(note=NOTE.D1)
    p.set_via_gen(lambda pattern, new: [(0, 0, a), (0, 0, b), (1, 1, b), (-1, 0, a)])
    ok(p.data[0][0] is b and p.data[1][1] is b and p.data[1][0] is a, "list input")
    ok(a.pattern is p and b.pattern is p, "repeated notes adopted")
    # direct modification of the scratch grid is kept
    def direct(pattern, new):
        new[0][1].note = NOTECMD.NOTE_OFF
        new[1] = [Note(vel=7), Note(vel=8)]
        return iter(())
    p.set_via_gen(direct)
    ok(p.data[0][1].note == NOTECMD.NOTE_OFF, "direct change kept")
    ok([n.vel for n in p.data[1]] == [7, 8] and owned(p), "replaced row adopted")


def inject_fn(p, fail_at, exc, tracks):
    def fn(pattern, line, track):
        if line * tracks + track == fail_at:
            raise exc
        return mk(line, track)
    return fn


def inject_gen(p, fail_at, exc, lines, tracks, before_yield=True):
    def gen(pattern, new):
        for i in range(lines * tracks):
            if i == fail_at and before_yield:
                raise exc
            yield i // tracks, i % tracks, mk(i // tracks, i % tracks)
            if i == fail_at:
                raise exc
    return gen


def check_failures():
    for lines, tracks in shapes():
        for attached in (False, True):
            p, project = make(lines, tracks, attached)
            # history: alternate successful and failing edits
            for round_no in range(2):
                for fail_at in range(lines * tracks):
                    for exc in (Boom("x"), StopIteration("s"), KeyboardInterrupt(),
                                GeneratorExit(), RuntimeError("r")):
                        fp = fingerprint(p)
                        try:
                            p.set_via_fn(inject_fn(p, fail_at, exc, tracks))
                        except BaseException as e:
                            ok(e is exc, "fn: same exception object propagates (%r)" % e)
                        else:
                            ok(False, "fn: exception expected")
                        ok(fingerprint(p) == fp, "fn failure leaves pattern untouched")
                    for exc in (Boom("x"), KeyboardInterrupt(), ValueError("v")):
                        for before_yield in (True, False):
                            fp = fingerprint(p)
                            try:
                                p.set_via_gen(inject_gen(p, fail_at, exc, lines, tracks,
                                                         before_yield))
                            except BaseException as e:
                                ok(e is exc, "gen: same exception object propagates")
                            else:
                                ok(False, "gen: exception expected")
                            ok(fingerprint(p) == fp, "gen failure leaves pattern untouched")
                    # StopIteration inside a generator becomes RuntimeError (PEP 479)
                    fp = fingerprint(p)
                    try:
                        p.set_via_gen(inject_gen(p, fail_at, StopIteration(), lines, tracks))
                    except RuntimeError:
                        pass
                    else:
                        ok(False, "RuntimeError expected")
                    ok(fingerprint(p) == fp, "gen StopIteration leaves pattern untouched")
                # then a successful edit, followed by more failures next round
                p.set_via_fn(lambda pattern, l, t: mk(l, t, salt=round_no))
                ok(owned(p), "owned between rounds")
                p.set_via_gen(lambda pattern, new: [(0, 0, Note(vel=round_no + 1))])
                ok(owned(p) and p.data[0][0].vel == round_no + 1, "gen between rounds")
                if attached:
                    ok(all(n.project is project for r in p.data for n in r), "project")


def check_bad_items():
    for attached in (False, True):
        p, _ = make(2, 2, attached)
        fp = fingerprint(p)
        # wrong tuple sizes / positions
        for items, exc in [
            ([(0, 0)], ValueError),
            ([(0, 0, Note(), 1)], ValueError),
            ([(0, 0, Note()), (2, 0, Note())], IndexError),
            ([(0, 0, Note()), (0, 2, Note())], IndexError),
            ([(0, 0, Note()), None], TypeError),
            ([(0, "a", Note())], TypeError),
        ]:
            try:
                p.set_via_gen(lambda pattern, new: items)
            except exc:
                pass
            else:
                ok(False, "%s expected" % exc.__name__)
            ok(fingerprint(p) == fp, "bad item leaves pattern untouched")
        # gen callable itself fails, or returns something not iterable
        def raising(pattern, new):
            raise Boom
        for g, exc in [(raising, Boom), (lambda pattern, new: None, TypeError),
                       (None, TypeError)]:
            try:
                p.set_via_gen(g)
            except exc:
                pass
            else:
                ok(False, "exception expected")
            ok(fingerprint(p) == fp, "bad gen leaves pattern untouched")
        try:
            p.set_via_fn(None)
        except TypeError:
            pass
        else:
            ok(False, "TypeError expected")
        ok(fingerprint(p) == fp, "bad fn leaves pattern untouched")
        # a callable returning something that is not a Note: detected when the
        # notes are adopted, before anything is installed
        first = Note(vel=9)
        def junk(pattern, line, track):
            return first if (line, track) == (0, 0) else None
        try:
            p.set_via_fn(junk)
        except AttributeError:
            pass
        else:
            ok(False, "AttributeError expected")
        ok(fingerprint(p) == fp, "non-note leaves pattern untouched")
        ok(first.pattern is p, "notes before the bad one were already adopted")
        later = Note(vel=9)
        try:
            p.set_via_gen(lambda pattern, new: [(0, 0, 5), (1, 1, later)])
        except AttributeError:
            pass
        else:
            ok(False, "AttributeError expected")
        ok(fingerprint(p) == fp, "non-note via gen leaves pattern untouched")
        ok(later.pattern is None, "notes after the bad one not adopted")


def check_lazy_and_shape_changes():
    # bulk edit as the very first access
    p = Pattern(lines=2, tracks=3)
    ok("_data" not in vars(p), "no data yet")
    p.set_via_fn(lambda pattern, l, t: Note(vel=1 + l * 3 + t))
    ok([[n.vel for n in r] for r in p.data] == [[1, 2, 3], [4, 5, 6]], "lazy + fn")
    q = Pattern(lines=2, tracks=3)
    try:
        q.set_via_fn(inject_fn(q, 0, Boom(), 3))
    except Boom:
        pass
    ok("_data" in vars(q) and q.raw_data == b"\0" * 48, "failed first edit -> blank")
    ok(owned(q), "blank grid is owned")
    # fewer lines than the grid: only those lines are asked for
    p.lines = 1
    calls = []
    p.set_via_fn(lambda pattern, l, t: calls.append((l, t)) or Note(vel=50))
    ok(calls == [(0, 0), (0, 1), (0, 2)], "range follows current lines")
    ok([[n.vel for n in r] for r in p.data] == [[50, 50, 50], [4, 5, 6]], "rest kept")
    ok(owned(p), "all rows adopted")
    # more lines than the grid: IndexError after the existing rows, nothing kept
    p.lines = 3
    fp = fingerprint(p)
    calls = []
    try:
        p.set_via_fn(lambda pattern, l, t: calls.append((l, t)) or Note())
    except IndexError:
        pass
    else:
        ok(False, "IndexError expected")
    ok(calls[-1] == (2, 0) and len(calls) == 7, "fails on first missing cell")
    ok(fingerprint(p) == fp, "grid untouched after IndexError")
    # tracks changed by the callable while running is picked up per line
    p = Pattern(lines=3, tracks=2)
    calls = []
    def shrink(pattern, l, t):
        calls.append((l, t))
        if (l, t) == (0, 1):
            pattern.tracks = 1
        return Note(vel=1)
    p.set_via_fn(shrink)
    ok(calls == [(0, 0), (0, 1), (1, 0), (2, 0)], "tracks re-read for each line")
    ok([[n.vel for n in r] for r in p.data] == [[1, 1], [1, 0], [1, 0]], "result")


def check_reentrant_and_nested():
    p, project = make(2, 2, True)
    inner_result = []
    def outer(pattern, line, track):
        if (line, track) == (1, 0):
            pattern.set_via_gen(lambda pat, new: [(0, 0, Note(vel=77))])
            inner_result.append(pattern.data)
        return Note(vel=10 + line * 2 + track)
    p.set_via_fn(outer)
    ok([[n.vel for n in r] for r in p.data] == [[10, 11], [12, 13]], "outer wins")
    ok(inner_result[0][0][0].vel == 77 and inner_result[0] is not p.data, "inner ran")
    ok(owned(p), "owned after nested edits")


def check_clone_pattern_project_untouched():
    # deep-copying the grid must not disturb the pattern or its project
    p, project = make(2, 2, True)
    mods_before = list(project.modules)
    pats_before = list(project.patterns)
    p.set_via_fn(lambda pattern, l, t: Note())
    p.set_via_gen(lambda pattern, new: [])
    ok(project.modules == mods_before and project.patterns == pats_before, "project same")
    ok(all(a is b for a, b in zip(project.modules, mods_before)), "modules identity")
    ok(p.project is project and owned(p), "pattern same")


check_fn_success()
check_gen_success()
check_gen_variants()
check_failures()
check_bad_items()
check_lazy_and_shape_changes()
check_reentrant_and_nested()
check_clone_pattern_project_untouched()
print("PASS (%d checks)" % CHECKS)
